#!/venv/bin/python
"""rebase_seed.py DIR...  -- a stored change (seeded/<id> or twins/<id>) whose patch no longer applies to /repo HEAD because a later
fix: commit changed its context is carried over: applied at the commit it was written for (meta.json repo_head), committed in a scratch
worktree, cherry-picked onto HEAD, and patch.diff rewritten from the result.  The demonstration is then re-confirmed by
confirm_seed.py / confirm_twin.py (run separately).  Conflicts are reported and left alone."""
import json
import os
import shutil
import subprocess
import sys


def run(cmd, cwd):
    p = subprocess.run(cmd, cwd=cwd, stdout=subprocess.PIPE, stderr=subprocess.STDOUT)
    return p.returncode, p.stdout.decode(errors='replace')


def main():
    for d in sys.argv[1:]:
        d = os.path.abspath(d)
        meta = json.load(open(os.path.join(d, 'meta.json')))
        base = meta.get('repo_head')
        wt = '/tmp/rb_%s' % os.path.basename(d)
        run(['git', '-C', '/repo', 'worktree', 'remove', '--force', wt], '/')
        rc, o = run(['git', '-C', '/repo', 'worktree', 'add', '-q', '--detach', wt, base], '/')
        if rc:
            print(os.path.basename(d), 'cannot create worktree at', base, o[-200:])
            continue
        try:
            rc, o = run(['git', 'apply', os.path.join(d, 'patch.diff')], wt)
            if rc:
                print(os.path.basename(d), 'does not apply at its own base', base, o[-200:])
                continue
            run(['git', 'add', '-A'], wt)
            run(['git', '-c', 'user.email=x@x', '-c', 'user.name=x', 'commit', '-q', '-m', 'seed'], wt)
            rc, sha = run(['git', 'rev-parse', 'HEAD'], wt)
            run(['git', 'checkout', '-q', '--detach', 'main'], wt)
            rc, o = run(['git', '-c', 'user.email=x@x', '-c', 'user.name=x', 'cherry-pick', sha.strip()], wt)
            if rc:
                print(os.path.basename(d), 'CONFLICT when carried over to HEAD:', o[-300:].replace('\n', ' | '))
                continue
            rc, diff = run(['git', 'diff', 'main', 'HEAD'], wt)
            shutil.copy(os.path.join(d, 'patch.diff'), os.path.join(d, 'patch.diff.orig'))
            with open(os.path.join(d, 'patch.diff'), 'w') as f:
                f.write(diff)
            os.remove(os.path.join(d, 'patch.diff.orig'))
            head = subprocess.check_output(['git', '-C', '/repo', 'rev-parse', '--short', 'main']).decode().strip()
            meta['repo_head'] = head
            meta['rebased_from'] = base
            json.dump(meta, open(os.path.join(d, 'meta.json'), 'w'), indent=1)
            print(os.path.basename(d), 'carried over to', head)
        finally:
            run(['git', '-C', '/repo', 'worktree', 'remove', '--force', wt], '/')
            shutil.rmtree(wt, ignore_errors=True)
            run(['git', '-C', '/repo', 'worktree', 'prune'], '/')


if __name__ == '__main__':
    main()
