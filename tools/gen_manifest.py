#!/venv/bin/python
"""Regenerates /verif/MANIFEST.json from the table below (run by hand after adding a check)."""
import json
import os

VERIF = os.path.dirname(os.path.dirname(os.path.abspath(__file__)))
PY = '/venv/bin/python'

CHECKS = {
    'C16': dict(
        level='other',
        text='Decides data queries on a finite family: DataQuerent.query (with the repository\'s own path parser) is folded on small hand-built wired '
             'trees (sequence, fixed / delayed / zero-count / nested replications, factor, associated, quality and marker attributes; three '
             'uncompressed subsets and the compressed sharing of one tree) for 33 child / attribute paths with int, negative and multi-part '
             'slices, 5 bare IDs, 8 subset selectors and 5 paths that designate no value; each result is compared with a reference evaluation '
             'of the path over the nested JSON rendering of the same tree (itself folded from NestedJsonRenderer): envelopes per replication, '
             'lists per repetition, document order, flat-order completeness of bare IDs, subset restriction, QueryError for valueless targets.',
        note='The reference implements only what the property states (/ and . steps, slices, bare IDs of ordinary elements, @ selectors); the '
             'descendant separator in the middle of a path is not decided. Results on real messages also depend on the wiring (C07, C09). The '
             'first design round listed C16 as not applicable; the fold technique built for C09/C14 made this partial claim possible.',
        technique='static analysis: constant folding of the query evaluator on concrete abstract trees against a reference evaluation over the folded nested-JSON rendering',
        ref='3 C16'),
    'C10': dict(
        level='other',
        text='Decides BufrMessage.subset by folding it over a family of index collections (any order, repeats, single, full, out of range by one) on '
             'an abstract 5-subset message: rows kept are those of the distinct selected indices in ascending order, the subset count equals their '
             'number, every other parameter passes through unchanged, nothing reachable from the source message is written, out-of-range indices '
             'are refused with the library error; plus the CLI wrapper, the coder-state mode (the data section is re-encoded in the mode the '
             'unchanged compression flag declares) and the all-equal string column fold.',
        note='Validity of the re-encoded bytes of a particular message is a runtime fact; re-compression of reduced columns is C05.',
        technique='static analysis: constant folding of subset() over a finite family of index collections on an abstract message',
        ref='3 C10'),
    'C11': dict(
        level='other',
        text='Decides the stream scanner by folding generate_bufr_message over a scripted stream (real message starts, a start signature inside a '
             'message body, damaged data, damaged header, a table-definition message, differing declared/decoded lengths) for {full, info-only} x '
             '{filter, no filter} x {continue, stop}: the yielded sequence with its byte spans, the final exception and the table-definition side '
             'effects must equal what the property prescribes; decoding is anchored at the found signature; one signature constant; command_split '
             'writes the yielded bytes unmodified.',
        note='The scripted decoder stands for Decoder.process (its span accounting is C04.R4, its error discipline C12). Boundaries found in a '
             'particular byte string are a runtime fact.',
        technique='static analysis: path-sensitive constant propagation of the scanner over a scripted stream model (typestate of info/full decodes)',
        ref='3 C11'),
    'C13': dict(
        level='other',
        text='Decides that the code has no channel through which history could act: the process-wide caches are written only by their owner\'s '
             'designated methods; no descriptor field is stored outside construction / fresh copies (shared cached objects stay frozen); coders, '
             'renderers and querents write nothing to themselves or to message objects after construction; the path parser re-initialises everything '
             'it writes; wire() is guarded; cache keys are complete; the table-group cache is folded at and around its limit of 50 and the '
             'compiled-template cache for sizes 0, 1, n; no function mutates module-level state; configuration transformers never write into the '
             'shared layouts.',
        note='Aliasing is tracked by the repository\'s naming conventions. Equality of results across histories is a runtime fact.',
        technique='static analysis: who-may-write / effect-set rules over all functions, plus constant folding of the two caches at their limits',
        ref='3 C13'),
    'C14': dict(
        level='other',
        text='Decides template construction by folding tables._descriptors_from_ids_iter over a family of descriptor lists (nested fixed/delayed '
             'replication up to X=63, sequences, operators, string ids, undefined descriptors, short lists) against abstract tables and comparing '
             'the tree with a reference builder; flattening back (original_descriptor_ids, flat_member_ids) returns the list; both dispatchers '
             'send an id to the same table at every threshold; unknown ids become Undefined* placeholders outside the dispatched classes; Table D '
             'is loaded in two passes; normalize_tables_sn is folded over directory layouts for the fall-back rules.',
        note='The contents of the bundled Table B / D files are data and are not decided.',
        technique='static analysis: constant folding of the list builder and flatteners over a finite family of descriptor lists',
        ref='3 C14'),
    'C15': dict(
        level='model_checking',
        text='The transition relation of NodePathParser is extracted from its syntax tree on every run (one path-sensitive evaluation of the loop '
             'body per parser state x token class x slice-element list x source-derived character class) and explored in product with a '
             'reference recogniser of the documented grammar: language equality over strings of any length, only PathExprParsingError escapes, no '
             'component is dropped, state of an earlier parse cannot leak (the prologue starts from a dirty parser object). create_slice_object is '
             'folded against the grammar\'s slice semantics and parse -> print -> parse is folded over slice shapes.',
        note='The reference restates docs/internals.rst plus two conventions pinned by the repository\'s own tests. The token abstraction {empty, "-", '
             'integer, other} is exact for int() and emptiness tests. Thorough tier re-runs with every printable character as its own class.',
        technique='static analysis: automaton extraction by path-sensitive constant propagation + product exploration against a reference automaton',
        ref='3 C15'),
    'C17': dict(
        level='other',
        text='Decides metadata expressions and metadata-only decoding: MetadataExprParser.parse folded over 28 expression shapes (result or '
             'MetadataExprParsingError, nothing else); MetadataQuerent.query folded on a message without section 2 (first match in section order, '
             'explicit index by the section\'s index metadata); info_configuration / ignore_value_expectation folded over every bundled layout '
             '(truncate before the data section, end the message there, never modify the shared configuration); Decoder.process hands exactly the '
             'requested transformers on; every message-level parameter the code reads is provided by the layouts of editions 2-4; info-only '
             'scanning takes bytes from the declared length.',
        note='Equality of metadata values between a full and a metadata-only decode of a particular message is a runtime fact.',
        technique='static analysis: constant folding of the parser, the lookup and the configuration transformers over finite input families; layout/code agreement lint',
        ref='3 C17'),
    'C18': dict(
        level='model_checking',
        text='The transducer table of process_embedded_query_expr is extracted from its syntax tree on every run (5 states x 8 character classes x '
             '9 look-aheads = 360 cases) and compared entry by entry with the reference transducer; variable naming (same trimmed expression -> '
             'same name, consecutive numbering), the single indicator character shared by metadata_only and the dispatcher, the nest-level '
             'relations (level 1 = concatenation of level 2, level 0 = its first element or None, level 4 unflattened) and pragma < argument '
             'precedence are folded.',
        note='Escape-free literals, as the property states. Query results and the exec/eval of the script are runtime facts.',
        technique='static analysis: transducer extraction by path-sensitive constant propagation, exhaustive over the finite table',
        ref='3 C18'),
    'C20': dict(
        level='other',
        text='Decides extraction and plumbing of in-stream table definitions: BufrTableDefinitionProcessor folded on a scripted NCEP definition '
             'message (all sign combinations of scale / reference, width, names, units, sequence membership, value consumption); invalidate keeps '
             'earlier definitions, add_extra_entries merges b into B and d into D, new groups are built with them, they are read after the table '
             'files so they override, the scanner registers them before yielding; NCEP replication-only sequences are repaired exactly when '
             'definitions exist (folded on small trees incl. two nesting levels).',
        note='Only the NCEP layout (the one the code asserts). That a data message then decodes according to the entries follows from C01.',
        technique='static analysis: constant folding of the definition processor and the table-cache plumbing over scripted inputs',
        ref='3 C20'),
    'C03': dict(
        level='other',
        text='Decides the structural necessary conditions of "never silently alters data": no wrapping/clipping operator (%, &, min, max, abs, '
             'shifts, ordering clamps) lies on the flow from the user value to the bit writer in any encoder primitive; write_uint hands '
             'out-of-range values to bitstring unchanged for every width 1..64 (so bitstring refuses them); rounding precedes truncation at the '
             'three numeric sites; the flat JSON rendering is the decoded value lists themselves and bytes <-> text use one 8-bit codec on both '
             'sides (folded over all 256 byte values); what the encoder writes is what the decoder reads (codec symmetry).',
        note='Range refusal itself is bitstring\'s (trusted base). The half-unit quantisation bound and byte-identity of repeated round trips are '
             'runtime facts and are not decided.',
        technique='static analysis: expression-DAG operator audit on encoder value flows, constant folding of writer and codec routines',
        ref='3 C03'),
    'C05': dict(
        level='other',
        text='Decides that the compressed siblings (numeric, code/flag, string; both coders) follow the same column rules: width from max-min+1, '
             'missing difference = all ones of the difference width, all-missing / all-equal shortcuts write width 0 (and all_missing implies '
             'all_equal with a missing common value), the decoder reads the width it was told and applies the 1-bit rule at both sites, string '
             'columns use a zero base with full-width increments, and lists are shared between subsets only under is_compressed.',
        note='nbits_for_uint ranges over unbounded integers and is not folded (only its argument is checked). One asymmetry outside the stated raw '
             'domain (re-test of min+diff against all ones only for code/flag) is deliberately not compared.',
        technique='static analysis: sibling cross-check of path-evaluated compressed routines; aliasing lint',
        ref='3 C05'),
    'C07': dict(
        level='other',
        text='Decides the mechanism that links bitmap-driven and associated values to their owner: link keys equal the flat index at which the '
             'linked value lands (both link sites); back references are the N exact ElementDescriptor entries before the operator and zero bits '
             'select (folded on a mixed descriptor list); 225255 is coded width+1 / reference -2^width for widths 1..64; operator <-> node class '
             '<-> meaning-descriptor tables agree across coder, descriptors and wiring; the bitmap-definition state machine (4 states x 4 '
             'descriptor kinds) equals the reference; define_bitmap takes the last n bits of the current subset; coder/wirer lockstep.',
        note='Which element a given bitmap designates in a given message is a runtime fact. Known findings (204 in force at a marker; 031031 directly '
             'after the indicator; 203/206 under 204 in the wirer) are listed in known_findings.json.',
        technique='static analysis: path-sensitive constant propagation of the walk, the wiring and the bitmap routines over finite state x descriptor domains',
        ref='3 C07'),
    'C08': dict(
        level='other',
        text='Translation validation of the template compiler by abstract interpretation: for a finite family of abstract templates (about 40 '
             'curated ones covering every operator, bitmaps inside replications, 235/237 sequences, markers under 201/202/207/208, plus all ordered '
             'pairs - thorough: triples - of 38 member symbols) the emission trace of compile + process_statements equals the trace of the plain '
             'walk (primitive, descriptor, resolved width/scale/reference, links, bitmap bookkeeping). Also: recorded names/arity exist on the '
             'runtime receivers, every state method the walk calls is recorded, to_dict -> loader is the identity on every recorded statement, '
             'and the cache key contains the whole descriptor list and the whole table-group key.',
        note='Equality on real data follows only together with C01/C02. Templates whose operators cross a replication boundary (e.g. a 221 count '
             'running into a replication) are outside the property and are excluded. Known findings: pseudo-descriptor class lost on JSON load; '
             'nbits_of_associated is compile-time-only but read at run time (marker under 204).',
        technique='static analysis: differential abstract interpretation (compile/replay vs plain walk) over a finite program family; effect/override rules',
        ref='3 C08'),
    'C09': dict(
        level='other',
        text='Decides that the template walk emits exactly as many flat entries as TemplateData.wire_members consumes for every operator x operand '
             'class x {204 in force} x element class x {221, 222 pending} x 203/206 context x replication/sequence shape (213 cases); that every '
             'node class the wiring creates is rendered by both nested renderers and the nested-JSON keys written are those read back; that the '
             'flat-text value column (81) and the reader prefixes match what the writers emit; and that command_encode maps the four format '
             'combinations to the four converters.',
        note='Conservation of the values of a particular message is a runtime fact. Known findings: coder/wirer disagree when 204 is in force at a '
             'marker operator, during a 203 definition, or at a 206-skipped defined element.',
        technique='static analysis: coder/wirer lockstep by path-sensitive constant propagation; reader/writer contract checks over format strings',
        ref='3 C09'),
    'C01': dict(
        level='other',
        text='Decides the structural necessary conditions of correct decoding for every template and bit pattern: the walk dispatches each '
             'descriptor class and refuses unknown ones; every abstract primitive is implemented and dispatched on the compression flag; '
             'each decoder primitive appends one descriptor and one value per subset on every path; the operator -> register table of '
             'process_operator_descriptor, folded over operands 0..255, equals the FM-94 table; the width/scale/reference handed to the '
             'primitives depend on exactly the registers FM-94 names; the appended numeric value normalises to (raw + reference) / scale; '
             'the missing rule holds for widths 0..64 and at both compressed sites; labels follow the documented table; class filters '
             '(221, 204, 222/class 33) folded over X = 0..63.',
        note='Path-sensitive constant propagation over the syntax tree; no module is imported. Not decided: that the bits read are the '
             'right bits of a given message, Table B contents, float rounding. bitstring is the trusted base.',
        technique='static analysis: path-sensitive constant propagation with events (PathEval) over the walk and the decoder primitives; '
                  'finite-domain folding of operands and classes; expression-DAG normal forms',
        ref='3 C01'),
    'C02': dict(
        level='other',
        text='Decides that the encoder and the decoder agree on the field sequence (kind, width provenance, loop structure) of all ten '
             'primitive x mode pairs, on the F/X/Y packing of the descriptor list (folded over the whole id domain in the thorough tier) '
             'and on the specially handled section parameter types; that the three numeric encode sites compute int(round(v*scale)) - '
             'reference; that a missing value is written as all ones of exactly the width written; that padding is zero bits and strings '
             'are space padded; and that each encoder primitive consumes one value index and appends one descriptor per path.',
        note='Byte identity with an independent encoder is a runtime fact and is not decided. bitstring is the trusted base.',
        technique='static analysis: sibling cross-check of encoder/decoder I/O skeletons extracted by path-sensitive constant propagation; '
                  'expression-DAG normal forms; finite-domain folding',
        ref='3 C02'),
    'C04': dict(
        level='other',
        text='Decides section framing by folding Encoder.process_section / Decoder.process_section over every data length modulo 16 x '
             'editions 2..4 x start offsets x declared/recomputed lengths against a position-only model of the bit reader/writer: padded '
             'size, zero padding, minimality, back-patch value/width/offset, zero-fill of longer and refusal of shorter declared sections, '
             'exact extent consumed by the decoder; span accounting of Decoder.process with an absent optional section; optional-section '
             'configuration; a lint of the JSON section layouts.',
        note='The produced bytes themselves are bitstring\'s (C19). Encoder.process\'s total-length back-patch is checked structurally '
             '(it needs JSON input), not folded.',
        technique='static analysis: path-sensitive constant propagation of the section routines over a finite congruence domain; layout lint',
        ref='3 C04'),
    'C19': dict(
        level='other',
        text='Decides, for every width 1..64, that BitStringBitReader and BitStringBitWriter use the same layout per type (unsigned, '
             'sign-magnitude with sign bit first and the same polarity, bool, bin, bytes = nbits // 8 in both generic dispatchers), that '
             'set_uint replaces exactly nbits bits at the given position, that read_uint_or_none reports all ones as missing only above one '
             'bit, that bytes are space padded / truncated and latin-1 encoded, that skip writes zeros, and that the raw stream is read only '
             'through the error-converting wrapper.',
        note='bitstring is the trusted base: the rules read the format strings / Bits objects the code hands to it; range refusal and '
             'read-past-end behaviour are bitstring\'s. Runtime round-trip equality is not decided.',
        technique='static analysis: constant folding of the bit-level routines for widths 1..64 against a recording model of the stream object',
        ref='3 C19'),
    'C06': dict(
        level='other',
        text='Decides, for every template and every subset history, the structural necessary condition of subset '
             'independence: each CoderState register the template walk (plain or compiled, decoder or encoder) can write is '
             're-initialised by switch_subset_context with the initialiser a fresh state uses (effect sets over the resolved '
             'call graph), the subset loops of both coders switch context before processing on every iteration, and every '
             'wiring register of TemplateData is reset per subset. It does not execute any template.',
        note='Trusted: ast parses as CPython does; the receiver named `state` is the CoderState (frozen receiver table, '
             'DESIGN 2.2). Not decided: the bit position hand-over between subsets and the behaviour of individual operators.',
        technique='static analysis: attribute effect sets over a resolved call graph (register lifecycle rule) + loop typestate',
        ref='3 C06'),
    'C12': dict(
        level='other',
        text='Decides the error discipline of the whole decode call graph (every explicit raise/assert reachable from '
             'Decoder.process raises a PyBufrKitError subclass, apart from a frozen table of named exemptions), the '
             'who-may-call rule for the raw bit stream, and the handler shape of the stream scanner and the CLI (root error '
             'caught, re-raised unless continuing, scan position advanced on every handler path).',
        note='Implicit exceptions (IndexError, KeyError, ...) and the outcome of a particular truncation are runtime facts and '
             'are not decided; bitstring is trusted to raise a subclass of bitstring.Error on a short read.',
        technique='static analysis: call-graph reachability of raise/assert sites, who-may-call and handler-shape rules',
        ref='3 C12'),
}

# clauses added in the fourth round of strengthening (appended to the level text of the property)
EXTRA = {
    'C01': ' Also: operators in force end with the subset (register lifecycle fold, shared with C06.R1); the data section is read in the mode the header declares whatever '
           'the subset count; read_uint_or_none is folded for every width an 8-bit operand can give (0..255). End-to-end fold: the decoder walk, folded concretely on 24 templates with a scripted bit reader, asks for the same fields (kind, width), labels them alike, computes the same values and links as an independent FM-94 reading of each template.',
    'C02': ' Also: the encoder keeps nothing from one message to the next; the data section is written in the layout the header declares whatever the subset count. End-to-end fold: decode then encode on 24 concrete templates gives back exactly the fields that were read.',
    'C03': ' Also: marker values are written with the coding the bitmap of the subset being written designates; an encoder that compiles templates keys them by '
           'descriptor list and table group. End-to-end fold: decode then encode on 24 concrete templates gives back the fields that were read; off-grid values are written canonically (encode / decode / encode fixpoint).',
    'C04': ' Also: a section whose last parameter takes the rest of the section, declared shorter than its fixed part, is refused with the library error (the reader '
           'model refuses negative widths as bitstring does).',
    'C05': ' Also: all-equal columns of NUL strings. End-to-end fold: on 24 concrete templates the compressed encoder and decoder walks give back every subset (one, two equal, two different) with the labels and links of the uncompressed decoding; width 0 exactly on raw agreement, also for off-grid values.',
    'C06': ' Also: process_template_data folded on three uncompressed subsets with the real state (what reaches TemplateData are the state\'s own per-subset records, '
           'distinct objects each with its own entries, for templates with and without delayed replication or markers); every renderer shows subset k from the records of '
           'subset k.',
    'C07': ' Also: chains of bitmap operators folded call by call (237000 recalls the bitmap defined for reuse also after a later bitmap that is not for reuse; nothing to '
           'recall after 237255); the hierarchical views show every attribute under its owner (element or replication factor); two coder states of one process share no '
           'mutable register object. End-to-end fold: on 24 concrete templates the decoder\'s links and the attributes of the tree wire() builds are the same relation.',
    'C08': ' Also: the same Table D sequence met before, under and after each operator regime, inside and outside replications and around bitmaps; markers after 203000 and '
           'while 203 values are in force; thorough tier: the differential with every distinct sequence of every bundled Table D as the template (1330 structures).',
    'C09': ' Also: the hierarchical views show every attribute under its owner; every renderer shows subset k from the records of subset k (three differently shaped '
           'subsets); renderers keep no state. End-to-end fold: decode -> wire -> render -> read back on 24 concrete templates: every flat index has exactly one place in the tree and each rendering converts back to the flat values.',
    'C10': ' Also: the subset command builds decoder and encoder with the same tables and section layouts.',
    'C11': ' Also: a message of data category 11 in a layout other than a table definition is yielded like any other; the decoder keeps nothing from one message to the next.',
    'C12': ' Also: the stream commands (decode -m, info -m, split) folded with a lazy scripted scanner deliver every message before asking for the next one; '
           'Decoder.process_unexpanded_descriptors folded on concrete descriptor lists keeps every entry (000000 included); the raise/assert discipline reaches the '
           'table-definition processor; exception constructors of the repository are folded when an error is raised.',
    'C13': ' Also: a wire() that fails leaves the data unwired.',
    'C14': ' Also: forward references between Table D sequences at every nesting position; the descriptor list of section 3 reaches the template entry by entry; the NCEP '
           'repair leaves well-formed sequences as they are; an undefined descriptor is refused at every template position.',
    'C16': ' Also: a replication whose repetitions carry different descriptors (marker values) is matched repetition by repetition; parser and querent keep nothing between '
           'queries. End-to-end fold: child and attribute paths over the trees wired from the decoder walk equal the evaluation over their nested JSON rendering.',
    'C17': ' Also: no code reachable from the decoder assigns to the value of a named section parameter after it was read.',
    'C19': ' Also: the generic dispatchers read(type, n) / write(value, type, n) are the typed methods, for every typed method the reader and writer have. A signed field of one bit is read and written without asking bitstring for a zero-length integer.',
    'C20': ' Also: definitions of a message that a filter keeps from being yielded are registered all the same; no process-wide store other than the table-group cache can '
           'keep objects built from the old definitions; templates compiled before a definition message are not used after it; the NCEP repair keeps complete '
           'replications inside their sequence.',
}

# clauses added in the seventh round
EXTRA7 = {
    'C01': ' Seventh round: 237255 cancels the bitmap defined for reuse whatever was built since (operator table corrected; genuine defect repaired); a decoder that compiles its templates gives the fields, labels, values and links of the plain walk or the same error (concrete compile / replay fold), keyed by the whole descriptor list and table group; every subset has its own value list at every logging level.',
    'C02': ' Seventh round: the operator table and the bitmap-definition machine of the walk the encoder shares with the decoder; an encoder that compiles its templates writes the fields of the plain walk (concrete fold); compressed columns of off-grid values are quantised value by value.',
    'C03': ' Seventh round: every value of a compressed column reads back as the nearest multiple of the element precision (off-grid columns whose minimum and distance both round down); the round trip is the same with compiled templates; the missing rule for every element class.',
    'C04': ' Seventh round: the decoder consumes exactly the declared extent in editions 2, 3 and 4 (odd lengths included); the in-place patch of a length field sets exactly the bits of the field on a bit stream with concrete stale content (shared with C19.R2); an encoder created with its default options recomputes stale declared lengths; every edition publishes the presence flag of its optional section as a message property.',
    'C05': ' Seventh round: quantisation of off-grid compressed columns; the compressed writer stores the scaled integer of each value.',
    'C06': ' Seventh round: the values a query obtains for subset k come from the hierarchy of subset k.',
    'C07': ' Seventh round: the operator 237255 folded on the state (cancels the bitmap defined for reuse also after a later bitmap that is not for reuse; genuine defect repaired).',
    'C08': ' Seventh round: concrete compile / replay differential (C08.R9): TemplateCompiler.process_members and process_statements are folded concretely on 30 templates and on 7 templates whose data do not fit them (more marker operators or quality values than zero bits, bitmap longer than the elements, recall without bitmap): same fields read, descriptors, values and links or the same error, for the decoder, for the encoder, for compressed data whose subsets carry different bitmaps, for a second run of the same statements, after CompiledTemplate.to_dict -> JSON data -> loads_compiled_template, for a run that follows an interrupted run of the same statements, and for an encoder given one value too few.',
    'C09': ' Seventh round: the decode command folded for the eight combinations of -m / -a / -j: every message rendered once by the renderer of the requested format, nested formats only from wired data.',
    'C10': ' Seventh round: encoding the extract with compiled templates, the length back-patch and the typed reader / writer pairing (shared rules).',
    'C11': ' Seventh round: the stream model follows scanners that slice first and search inside the slice, and decoders that locate the signature themselves; a category-11 message of any other shape is refused by the definition processor with the library error only (12 shapes folded); the bytes of a message are taken when it is handed out (a consumer that empties them must not disturb the scan); every decoding pass of a scan gets the caller\'s options.',
    'C12': ' Seventh round: whatever shape a category-11 message has the definition processor fails with the library error only; every section parameter type is read with a sized format through the generic dispatcher.',
    'C13': ' Seventh round: a compiled template gives the same result every time it is run (second run of the same statement objects, concrete fold).',
    'C14': ' Seventh round: compiled templates are keyed by the whole descriptor list and table group.',
    'C15': ' Seventh round: the whole-parse fold runs on parser objects as the constructor leaves them (reading an attribute that has not been assigned yet is the AttributeError of the running code) and on parsers that have accepted and refused strings before.',
    'C16': ' Seventh round: paths that select no node keep every selected subset in the result (compressed and uncompressed, zero-count replications); attribute meanings, attributes in the nested JSON reference, per-subset wiring and compiled decoding as shared rules.',
    'C17': ' Seventh round: the configuration transformers change nothing but what they are for (compared as configure_section reads a layout: optional, end_of_message, index, parameters); a metadata-only decode never wires.',
    'C18': ' Seventh round: precedence of argument, pragma and default decided by folding the whole constructor on concrete scripts (level 0 as argument and as pragma).',
    'C19': ' Seventh round: set_uint folded on a bit stream with concrete content: afterwards exactly the nbits bits at bitpos hold the value, everything else and the length are unchanged, values that do not fit are refused - however the replacement is spelled.',
    'C20': ' Seventh round: each part of a definition message under fixed instead of delayed replication (genuine defect repaired: Table A offset); helper sequences recognised by their definition, not by their number; foreign category-11 shapes refused with the library error; the definitions of several definition messages of one stream accumulate (scan folded with the real table-group cache).',
}

NOT_APPLICABLE = {
    'C16': 'quantifies over runtime trees and values (query result == evaluation over the nested rendering of each message); '
           'no clause of it is visible in the shape of the code beyond what C09 already checks - a static proxy would be a '
           'brittle restatement of dataquery.py (DESIGN 5)',
}


def main():
    props = [json.loads(l)['id'] for l in open(os.path.join(VERIF, 'properties.jsonl')) if l.strip()]
    checks = []
    na = []
    for p in props:
        if p in CHECKS:
            c = CHECKS[p]
            checks.append({
                'property_id': p,
                'quick_cmd': '%s /verif/sa/run.py %s --tier quick' % (PY, p),
                'thorough_cmd': '%s /verif/sa/run.py %s --tier thorough' % (PY, p),
                'evidence_file': '/verif/evidence/%s.json' % p,
                'replay_cmd_template': '%s /verif/sa/run.py %s --replay {path}' % (PY, p),
                'engine': 'sa',
                'level_claimed': {'category': c['level'], 'text': c['text'] + EXTRA.get(p, '') + EXTRA7.get(p, ''), 'design_ref': 'DESIGN.md section ' + c['ref']},
                'level_note': c['note'],
                'technique': c['technique'],
            })
        else:
            na.append({'property_id': p, 'reason': NOT_APPLICABLE.get(p, 'check not built yet (build round in progress); see DESIGN.md section 3')})
    man = {
        'version': 1,
        'setup_cmd': '%s -m compileall -q /verif/sa' % PY,
        'hooks': {
            'guard': 'PYBUFRKIT_VERIF',
            'enable': 'none needed: the checks parse /repo\'s source and never import or run it; no source line consults the guard',
            'baseline_off_cmd': 'cd /repo && /venv/bin/python -m pytest -ra -q -p no:cacheprovider --timeout=900 --continue-on-collection-errors',
            'source_commits': [],
            'add_only': True,
        },
        'engines': [{
            'name': 'sa', 'path': '/verif/sa',
            'serves_properties': sorted(CHECKS),
            'kind_free_text': 'repository-specific static analyser over ast: source model + resolved call graph + attribute effect '
                              'sets (sa/model.py), path-sensitive constant propagation with events (sa/patheval.py), one rule module '
                              'per property (sa/rules), verdict/evidence/known-findings plumbing (sa/report.py)',
        }],
        'checks': checks,
        'notes': 'Every check is `sa/run.py <ID> --tier quick|thorough`; exit 0 ok / 1 VIOLATION / 2 ANALYSIS-ERROR. '
                 'Genuine defects repaired by fix: commits in /repo are listed in known_findings.json (fixed entries suppress nothing).',
        'not_applicable': na,
    }
    with open(os.path.join(VERIF, 'MANIFEST.json'), 'w') as f:
        json.dump(man, f, indent=1)
        f.write('\n')
    print('checks: %s; not_applicable: %s' % (', '.join(c['property_id'] for c in checks), ', '.join(x['property_id'] for x in na)))


if __name__ == '__main__':
    main()
