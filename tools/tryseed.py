#!/venv/bin/python
"""tryseed.py PATCH [PROP,PROP,...]   -- apply a seeded patch to a scratch copy of /repo/pybufrkit and run checks on it.
Without a property list every rule module present under sa/rules/cNN.py is run."""
import glob
import os
import shutil
import subprocess
import sys
import tempfile


def main():
    patch = os.path.abspath(sys.argv[1])
    if len(sys.argv) > 2:
        props = sys.argv[2].split(',')
    else:
        props = sorted(os.path.basename(p)[:-3].upper() for p in glob.glob('/verif/sa/rules/c[0-9][0-9].py'))
    d = tempfile.mkdtemp(prefix='seed_')
    try:
        shutil.copytree('/repo/pybufrkit', os.path.join(d, 'pybufrkit'), ignore=shutil.ignore_patterns('tables', '__pycache__'))
        r = subprocess.run(['patch', '-p1', '-s', '-i', patch], cwd=d, stdout=subprocess.PIPE, stderr=subprocess.STDOUT)
        if r.returncode != 0:
            print('patch failed: ' + r.stdout.decode())
            return 3
        hit = []
        for prop in props:
            r = subprocess.run(['/venv/bin/python', '/verif/sa/run.py', prop, '--repo', d], stdout=subprocess.PIPE, stderr=subprocess.STDOUT)
            out = r.stdout.decode().strip().splitlines()
            if r.returncode != 0:
                hit.append(prop)
                print('--- %s exit=%d' % (prop, r.returncode))
                for l in out[:7]:
                    print('   ' + l[:330])
        print('CAUGHT BY: %s' % (', '.join(hit) or 'nothing'))
        return 0
    finally:
        shutil.rmtree(d, ignore_errors=True)


if __name__ == '__main__':
    sys.exit(main())
