#!/venv/bin/python
"""seedmatrix.py [--jobs N]  -- runs every registered check against every confirmed seeded change (on a scratch copy of
/repo/pybufrkit with the patch applied; /repo itself is never touched) and writes /verif/seeded/MATRIX.md."""
import glob
import json
import multiprocessing
import os
import shutil
import subprocess
import sys
import tempfile

PROPS = sorted(os.path.basename(p)[:-3].upper() for p in glob.glob('/verif/sa/rules/c[0-9][0-9].py'))


def one(seed_dir):
    name = os.path.basename(seed_dir)
    d = tempfile.mkdtemp(prefix='sm_')
    try:
        shutil.copytree('/repo/pybufrkit', os.path.join(d, 'pybufrkit'), ignore=shutil.ignore_patterns('tables', '__pycache__'))
        r = subprocess.run(['patch', '-p1', '-s', '-i', os.path.join(seed_dir, 'patch.diff')], cwd=d, stdout=subprocess.PIPE, stderr=subprocess.STDOUT)
        if r.returncode != 0:
            return name, None, 'patch failed'
        res = {}
        for prop in PROPS:
            r = subprocess.run(['/venv/bin/python', '/verif/sa/run.py', prop, '--repo', d], stdout=subprocess.PIPE, stderr=subprocess.STDOUT)
            out = r.stdout.decode()
            rules = sorted(set(l.split('rule ')[1].split(' ')[0] for l in out.splitlines() if ': rule ' in l))
            res[prop] = (r.returncode, rules)
        return name, res, ''
    finally:
        shutil.rmtree(d, ignore_errors=True)


def main():
    jobs = 8
    if '--jobs' in sys.argv:
        jobs = int(sys.argv[sys.argv.index('--jobs') + 1])
    args = [a for a in sys.argv[1:] if a.startswith('/') or a.startswith('seeded/')]
    seeds = [os.path.abspath(a) for a in args] or sorted(d for d in glob.glob('/verif/seeded/C*-*') if os.path.exists(os.path.join(d, 'patch.diff')))
    with multiprocessing.Pool(jobs) as pool:
        results = pool.map(one, seeds)
    lines = ['# Seeded changes x checks', '',
             'Each row is one confirmed seeded change (written by an independent sub-agent from the property text alone; see meta.json).',
             'A cell lists the rules of that check that report a VIOLATION on the patched tree; `E` = the check ends as ANALYSIS-ERROR (exit 2).', '',
             '| seed | own property | caught by (check: rules) |', '|---|---|---|']
    missed = []
    for name, res, err in results:
        own = name.split('-')[0]
        if res is None:
            lines.append('| %s | %s | %s |' % (name, own, err))
            continue
        hits = []
        for prop in PROPS:
            rc, rules = res[prop]
            if rc == 1:
                hits.append('%s: %s' % (prop, ', '.join(rules)))
            elif rc == 2:
                hits.append('%s: E' % prop)
        own_hit = res.get(own, (0, []))[0] == 1
        any_hit = any(res[p][0] == 1 for p in PROPS)
        if not any_hit:
            missed.append(name)
        lines.append('| %s | %s%s | %s |' % (name, own, '' if own_hit else (' (not by its own check)' if any_hit else ' **MISSED**'), '; '.join(hits) or '-'))
    lines += ['', 'Seeds: %d; caught by at least one check: %d; missed: %s' % (len(results), len(results) - len(missed), ', '.join(missed) or 'none')]
    if args:
        print('\n'.join(lines[7:]))
    else:
        with open('/verif/seeded/MATRIX.md', 'w') as f:
            f.write('\n'.join(lines) + '\n')
        print('\n'.join(lines[-1:]))
    for name, res, err in results:
        if res is None:
            print(name, err)


if __name__ == '__main__':
    main()
