#!/venv/bin/python
"""mutscan.py [--jobs N] [--modules a.py,b.py] [--out FILE] [--limit N] [--stage checks|tests]

Systematic gap finder (a development tool; not one of the registered checks).

stage checks: generates syntax-tree mutants of /repo/pybufrkit/*.py (comparison / arithmetic / boolean operator
  swaps, small integer constants +-1, True/False, dropped statements, negated conditions, break/continue), writes each to a
  scratch copy (removed at once), runs the 20 quick checks on it and records per mutant: which checks report a VIOLATION,
  which end as ANALYSIS-ERROR.  Results: JSON lines in --out.
stage tests: for the mutants of --out that no check reported, runs the repository's test suite in a scratch worktree to
  separate "killed by the existing tests" (irrelevant for the task) from survivors that need triage by reading.
"""
import ast
import copy
import glob
import json
import multiprocessing
import os
import shutil
import subprocess
import sys
import tempfile

PROPS = ['C%02d' % i for i in range(1, 21)]
SKIP_MODULES = ('tablespreparer.py', '__main__.py')
CMP = {ast.Lt: ast.LtE, ast.LtE: ast.Lt, ast.Gt: ast.GtE, ast.GtE: ast.Gt, ast.Eq: ast.NotEq, ast.NotEq: ast.Eq,
       ast.Is: ast.IsNot, ast.IsNot: ast.Is, ast.In: ast.NotIn, ast.NotIn: ast.In}
BIN = {ast.Add: ast.Sub, ast.Sub: ast.Add, ast.Mult: ast.FloorDiv, ast.FloorDiv: ast.Mult, ast.Div: ast.Mult, ast.Mod: ast.FloorDiv,
       ast.LShift: ast.RShift, ast.RShift: ast.LShift, ast.BitAnd: ast.BitOr, ast.BitOr: ast.BitAnd, ast.Pow: ast.Mult}


class Site(object):
    def __init__(self, kind, path, detail):
        self.kind, self.path, self.detail = kind, path, detail


def walk_with_path(node, path=()):
    yield node, path
    for field, value in ast.iter_fields(node):
        if isinstance(value, list):
            for i, v in enumerate(value):
                if isinstance(v, ast.AST):
                    for x in walk_with_path(v, path + ((field, i),)):
                        yield x
        elif isinstance(value, ast.AST):
            for x in walk_with_path(value, path + ((field, None),)):
                yield x


def get(node, path):
    for field, i in path:
        node = getattr(node, field)
        if i is not None:
            node = node[i]
    return node


def set_(root, path, new):
    parent = get(root, path[:-1])
    field, i = path[-1]
    if i is None:
        setattr(parent, field, new)
    else:
        getattr(parent, field)[i] = new


def is_docstring(node, parent_body_index):
    return isinstance(node, ast.Expr) and isinstance(node.value, ast.Constant) and isinstance(node.value.value, str)


def enumerate_mutants(tree):
    """yields (kind, path, description, mutate(fresh_tree))"""
    out = []
    func_stack = {}
    for node, path in walk_with_path(tree):
        line = getattr(node, 'lineno', 0)
        if isinstance(node, ast.Compare):
            for k, op in enumerate(node.ops):
                if type(op) in CMP:
                    def m(t, path=path, k=k, new=CMP[type(op)]):
                        get(t, path).ops[k] = new()
                    out.append(('cmp', path, line, '%s->%s' % (type(op).__name__, CMP[type(op)].__name__), m))
        elif isinstance(node, ast.BinOp) and type(node.op) in BIN:
            if isinstance(node.op, ast.Mod) and isinstance(node.left, ast.Constant) and isinstance(node.left.value, str):
                continue
            if isinstance(node.op, ast.Add) and any(isinstance(x, ast.Constant) and isinstance(x.value, str) for x in (node.left, node.right)):
                continue

            def m(t, path=path, new=BIN[type(node.op)]):
                get(t, path).op = new()
            out.append(('bin', path, line, '%s->%s' % (type(node.op).__name__, BIN[type(node.op)].__name__), m))
        elif isinstance(node, ast.AugAssign) and type(node.op) in BIN:
            def m(t, path=path, new=BIN[type(node.op)]):
                get(t, path).op = new()
            out.append(('aug', path, line, '%s->%s' % (type(node.op).__name__, BIN[type(node.op)].__name__), m))
        elif isinstance(node, ast.BoolOp):
            def m(t, path=path, new=(ast.Or if isinstance(node.op, ast.And) else ast.And)):
                get(t, path).op = new()
            out.append(('bool', path, line, 'and<->or', m))
        elif isinstance(node, ast.UnaryOp) and isinstance(node.op, ast.Not):
            def m(t, path=path):
                set_(t, path, get(t, path).operand)
            out.append(('not', path, line, 'drop not', m))
        elif isinstance(node, ast.Constant) and not isinstance(node.value, bool) and isinstance(node.value, int) and 0 <= node.value <= 64:
            for d in (1, -1):
                if node.value + d < 0:
                    continue

                def m(t, path=path, v=node.value + d):
                    get(t, path).value = v
                out.append(('const', path, line, '%d->%d' % (node.value, node.value + d), m))
        elif isinstance(node, ast.Constant) and isinstance(node.value, bool):
            def m(t, path=path, v=not node.value):
                get(t, path).value = v
            out.append(('boolconst', path, line, '%r->%r' % (node.value, not node.value), m))
        elif isinstance(node, (ast.If, ast.While)) or isinstance(node, ast.IfExp):
            def m(t, path=path):
                n = get(t, path)
                n.test = ast.UnaryOp(op=ast.Not(), operand=n.test)
            out.append(('negate', path, line, 'negated test', m))
        elif isinstance(node, ast.Break):
            def m(t, path=path):
                set_(t, path, ast.Continue())
            out.append(('break', path, line, 'break->continue', m))
        elif isinstance(node, ast.Continue):
            def m(t, path=path):
                set_(t, path, ast.Break())
            out.append(('continue', path, line, 'continue->break', m))
        if isinstance(node, (ast.Expr, ast.Assign, ast.AugAssign, ast.Raise, ast.Return)) and path and path[-1][0] in ('body', 'orelse', 'finalbody'):
            if isinstance(node, ast.Expr) and isinstance(node.value, ast.Constant):
                continue   # docstring
            if isinstance(node, ast.Return) and node.value is None:
                continue
            if isinstance(node, ast.Expr) and isinstance(node.value, ast.Call):
                f = node.value.func
                txt = ast.unparse(f)
                if txt.startswith('log.') or txt.startswith('logging.') or txt == 'print':
                    continue

            def m(t, path=path):
                set_(t, path, ast.Pass())
            out.append(('drop', path, line, 'statement dropped: ' + ast.unparse(node)[:70], m))
    return out


def enclosing(tree, path):
    names = []
    node = tree
    for field, i in path:
        node = getattr(node, field)
        if i is not None:
            node = node[i]
        if isinstance(node, (ast.FunctionDef, ast.ClassDef)):
            names.append(node.name)
    return '.'.join(names)


def all_mutants(modules=None):
    res = []
    for p in sorted(glob.glob('/repo/pybufrkit/*.py')):
        name = os.path.basename(p)
        if name in SKIP_MODULES or (modules and name not in modules):
            continue
        src = open(p).read()
        tree = ast.parse(src)
        ms = enumerate_mutants(tree)
        for idx, (kind, path, line, desc, m) in enumerate(ms):
            scope = enclosing(tree, path)
            if not scope:
                continue    # module level (imports, constants): compile-time noise
            res.append({'id': '%s:%s:%d:%s:%s' % (name, scope, line, kind, desc), 'module': name, 'idx': idx})
    return res


def build_mutant(module, idx):
    p = os.path.join('/repo/pybufrkit', module)
    tree = ast.parse(open(p).read())
    ms = enumerate_mutants(tree)
    kind, path, line, desc, m = ms[idx]
    t2 = copy.deepcopy(tree)
    m(t2)
    ast.fix_missing_locations(t2)
    return ast.unparse(t2)


def run_checks(mut):
    d = tempfile.mkdtemp(prefix='ms_')
    try:
        shutil.copytree('/repo/pybufrkit', os.path.join(d, 'pybufrkit'), ignore=shutil.ignore_patterns('tables', '__pycache__'))
        try:
            src = build_mutant(mut['module'], mut['idx'])
            compile(src, mut['module'], 'exec')
        except Exception as e:
            return dict(mut, status='invalid', error=str(e)[:100])
        with open(os.path.join(d, 'pybufrkit', mut['module']), 'w') as f:
            f.write(src)
        viol, err = {}, []
        for prop in PROPS:
            r = subprocess.run(['/venv/bin/python', '/verif/sa/run.py', prop, '--repo', d], stdout=subprocess.PIPE, stderr=subprocess.STDOUT)
            out = r.stdout.decode()
            if r.returncode == 1:
                viol[prop] = sorted(set(l.split('rule ')[1].split(' ')[0] for l in out.splitlines() if ': rule ' in l))
            elif r.returncode != 0:
                err.append(prop)
        return dict(mut, status='checked', violations=viol, errors=err)
    finally:
        shutil.rmtree(d, ignore_errors=True)


def run_tests(mut):
    wt = tempfile.mkdtemp(prefix='mt_')
    os.rmdir(wt)
    try:
        subprocess.run(['git', '-C', '/repo', 'worktree', 'add', '-q', '--detach', wt, 'HEAD'], stdout=subprocess.DEVNULL, stderr=subprocess.DEVNULL)
        src = build_mutant(mut['module'], mut['idx'])
        with open(os.path.join(wt, 'pybufrkit', mut['module']), 'w') as f:
            f.write(src)
        r = subprocess.run('/venv/bin/python -m pytest -x -q -p no:cacheprovider --timeout=600 2>&1 | tail -3', cwd=wt, shell=True, stdout=subprocess.PIPE, stderr=subprocess.STDOUT)
        out = r.stdout.decode()
        passed = ' passed' in out and 'failed' not in out and 'error' not in out.lower()
        return dict(mut, tests='pass' if passed else 'fail', tests_tail=out[-160:])
    finally:
        subprocess.run(['git', '-C', '/repo', 'worktree', 'remove', '--force', wt], stdout=subprocess.DEVNULL, stderr=subprocess.DEVNULL)
        shutil.rmtree(wt, ignore_errors=True)


def main():
    args = sys.argv[1:]

    def opt(name, default=None):
        if name in args:
            i = args.index(name)
            v = args[i + 1]
            del args[i:i + 2]
            return v
        return default
    jobs = int(opt('--jobs', '12'))
    modules = opt('--modules')
    modules = modules.split(',') if modules else None
    out = opt('--out', '/tmp/mutscan.jsonl')
    limit = int(opt('--limit', '0'))
    stage = opt('--stage', 'checks')
    if stage == 'checks':
        muts = all_mutants(modules)
        done = set()
        if os.path.exists(out):
            done = set(json.loads(l)['id'] for l in open(out))
        muts = [m for m in muts if m['id'] not in done]
        if limit:
            muts = muts[:limit]
        print('%d mutants to check' % len(muts))
        with multiprocessing.Pool(jobs) as pool, open(out, 'a') as f:
            for k, r in enumerate(pool.imap_unordered(run_checks, muts)):
                f.write(json.dumps(r) + '\n')
                f.flush()
    else:
        rows = [json.loads(l) for l in open(out)]
        tout = out + '.tests'
        done = set()
        if os.path.exists(tout):
            done = set(json.loads(l)['id'] for l in open(tout))
        todo = [r for r in rows if r.get('status') == 'checked' and not r['violations'] and r['id'] not in done]
        if limit:
            todo = todo[:limit]
        print('%d unreported mutants to run the test suite on' % len(todo))
        with multiprocessing.Pool(jobs) as pool, open(tout, 'a') as f:
            for r in pool.imap_unordered(run_tests, todo):
                f.write(json.dumps(r) + '\n')
                f.flush()


if __name__ == '__main__':
    main()
