#!/venv/bin/python
"""confirm_seed.py PROP K [SRC_DIR]
Re-confirms a seeded change independently of the sub-agent that wrote it, in a fresh scratch worktree of /repo HEAD:
  1. the demo passes on the unmodified tree,   2. the patch applies,   3. the demo fails with the patch,
  4. the full existing suite still passes with the patch.
On success the change is stored as /verif/seeded/PROP-K/{patch.diff, demo.py, notes.md, meta.json}. The worktree is removed."""
import json
import os
import re
import shutil
import subprocess
import sys


def run(cmd, cwd, timeout=1500):
    p = subprocess.run(cmd, cwd=cwd, stdout=subprocess.PIPE, stderr=subprocess.STDOUT, timeout=timeout, shell=isinstance(cmd, str))
    return p.returncode, p.stdout.decode(errors='replace')


def main():
    prop, k = sys.argv[1], sys.argv[2]
    src = sys.argv[3] if len(sys.argv) > 3 else '/tmp/wt_%s/_out/%s' % (prop, k)
    store_as = sys.argv[4] if len(sys.argv) > 4 else k
    wt = '/tmp/cs_%s_%s' % (prop, k)
    out = {'property': prop, 'seed': k, 'source': src}
    subprocess.run(['git', '-C', '/repo', 'worktree', 'remove', '--force', wt], stdout=subprocess.DEVNULL, stderr=subprocess.DEVNULL)
    rc, o = run(['git', '-C', '/repo', 'worktree', 'add', '-q', '--detach', wt, 'HEAD'], '/')
    if rc != 0:
        print('%s-%s: cannot create worktree: %s' % (prop, k, o))
        return 2
    try:
        os.makedirs(os.path.join(wt, '_out', k))
        shutil.copy(os.path.join(src, 'demo.py'), os.path.join(wt, '_out', k, 'demo.py'))
        for extra in os.listdir(src):
            if extra not in ('demo.py', 'patch.diff', 'notes.md') and os.path.isfile(os.path.join(src, extra)):
                shutil.copy(os.path.join(src, extra), os.path.join(wt, '_out', k, extra))
        demo = ['/venv/bin/python', '_out/%s/demo.py' % k]
        rc0, o0 = run(demo, wt, 600)
        out['demo_unpatched_exit'] = rc0
        rc, o = run(['git', 'apply', os.path.join(src, 'patch.diff')], wt)
        out['patch_applies'] = rc == 0
        if rc != 0:
            out['error'] = 'patch does not apply to the current HEAD: ' + o[-300:]
            print('%s-%s: %s' % (prop, k, out['error']))
            return 1
        rc1, o1 = run(demo, wt, 600)
        out['demo_patched_exit'] = rc1
        out['demo_patched_tail'] = o1[-400:]
        rc2, o2 = run('/venv/bin/python -m pytest -q -p no:cacheprovider --timeout=900 -n 6 2>&1 | tail -3', wt, 1500)
        m = re.search(r'(\d+) passed', o2)
        out['suite_passed'] = int(m.group(1)) if m else 0
        out['suite_failed'] = 'failed' in o2 or 'error' in o2.lower()
        ok = rc0 == 0 and rc1 != 0 and out['suite_passed'] >= 45 and not out['suite_failed']
        out['confirmed'] = ok
        print('%s-%s: demo unpatched exit %d, patched exit %d, suite %d passed%s -> %s' % (
            prop, k, rc0, rc1, out['suite_passed'], ' WITH FAILURES' if out['suite_failed'] else '', 'CONFIRMED' if ok else 'REJECTED'))
        if ok:
            dst = '/verif/seeded/%s-%s' % (prop, store_as)
            os.makedirs(dst, exist_ok=True)
            for f in ('patch.diff', 'demo.py', 'notes.md'):
                if os.path.exists(os.path.join(src, f)):
                    shutil.copy(os.path.join(src, f), os.path.join(dst, f))
            notes = open(os.path.join(src, 'notes.md')).read() if os.path.exists(os.path.join(src, 'notes.md')) else ''
            meta = {
                'property': prop,
                'written_by': 'independent sub-agent given only the property text and its own scratch worktree',
                'needs_to_manifest': notes[:1500],
                'confirmed_by': 'tools/confirm_seed.py in a fresh scratch worktree of /repo HEAD',
                'what_was_run': {
                    'demo on unmodified tree': 'exit %d' % rc0,
                    'git apply patch.diff': 'ok',
                    'demo with patch': 'exit %d' % rc1,
                    'full suite with patch': '%d passed' % out['suite_passed'],
                },
                'repo_head': subprocess.check_output(['git', '-C', '/repo', 'rev-parse', '--short', 'HEAD']).decode().strip(),
            }
            with open(os.path.join(dst, 'meta.json'), 'w') as f:
                json.dump(meta, f, indent=1)
        return 0 if ok else 1
    finally:
        subprocess.run(['git', '-C', '/repo', 'worktree', 'remove', '--force', wt], stdout=subprocess.DEVNULL, stderr=subprocess.DEVNULL)
        shutil.rmtree(wt, ignore_errors=True)


if __name__ == '__main__':
    sys.exit(main())
