#!/bin/bash
# runall.sh [tier]: run all 20 checks in parallel against /repo, print summary lines
cd /verif
tier=${1:-quick}
for i in $(seq -w 1 20); do ( /venv/bin/python sa/run.py C$i --tier $tier --no-selftest > /tmp/runall_C$i.out 2>&1; echo "C$i exit=$? $(grep -v KNOWN /tmp/runall_C$i.out | tail -1 | cut -c1-200)" ) & done; wait
