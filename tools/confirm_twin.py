#!/venv/bin/python
"""confirm_twin.py PROP K [SRC_DIR] [STORE_AS]
Re-confirms a behaviour-preserving change ("twin") written by an independent sub-agent, in a fresh scratch worktree of /repo HEAD:
  1. its demo passes on the unmodified tree,  2. the patch applies,  3. the demo passes with the patch,
  4. the full existing suite passes with the patch.
On success the change is stored as /verif/twins/PROP-K/{patch.diff, demo.py, notes.md, meta.json}. The worktree is removed."""
import json
import os
import re
import shutil
import subprocess
import sys


def run(cmd, cwd, timeout=1500):
    p = subprocess.run(cmd, cwd=cwd, stdout=subprocess.PIPE, stderr=subprocess.STDOUT, timeout=timeout, shell=isinstance(cmd, str))
    return p.returncode, p.stdout.decode(errors='replace')


def main():
    prop, k = sys.argv[1], sys.argv[2]
    src = sys.argv[3] if len(sys.argv) > 3 else '/tmp/tw_%s/_out/%s' % (prop, k)
    store_as = sys.argv[4] if len(sys.argv) > 4 else k
    wt = '/tmp/ct_%s_%s' % (prop, k)
    subprocess.run(['git', '-C', '/repo', 'worktree', 'remove', '--force', wt], stdout=subprocess.DEVNULL, stderr=subprocess.DEVNULL)
    rc, o = run(['git', '-C', '/repo', 'worktree', 'add', '-q', '--detach', wt, 'HEAD'], '/')
    if rc != 0:
        print('%s-%s: cannot create worktree: %s' % (prop, k, o))
        return 2
    try:
        os.makedirs(os.path.join(wt, '_out', k))
        for extra in os.listdir(src):
            if extra not in ('patch.diff', 'notes.md') and os.path.isfile(os.path.join(src, extra)):
                shutil.copy(os.path.join(src, extra), os.path.join(wt, '_out', k, extra))
        demo = ['/venv/bin/python', '_out/%s/demo.py' % k]
        rc0, o0 = run(demo, wt, 900)
        rc, o = run(['git', 'apply', os.path.join(src, 'patch.diff')], wt)
        if rc != 0:
            print('%s-%s: patch does not apply: %s' % (prop, k, o[-300:]))
            return 1
        rc1, o1 = run(demo, wt, 900)
        rc2, o2 = run('/venv/bin/python -m pytest -q -p no:cacheprovider --timeout=900 -n 4 2>&1 | tail -3', wt, 1500)
        m = re.search(r'(\d+) passed', o2)
        passed = int(m.group(1)) if m else 0
        failed = 'failed' in o2 or 'error' in o2.lower()
        ok = rc0 == 0 and rc1 == 0 and passed >= 45 and not failed
        print('%s-%s: demo unpatched exit %d, patched exit %d, suite %d passed%s -> %s' % (
            prop, k, rc0, rc1, passed, ' WITH FAILURES' if failed else '', 'CONFIRMED' if ok else 'REJECTED'))
        if not ok:
            print(o1[-400:])
        if ok:
            dst = '/verif/twins/%s-%s' % (prop, store_as)
            os.makedirs(dst, exist_ok=True)
            for f in ('patch.diff', 'demo.py', 'notes.md'):
                if os.path.exists(os.path.join(src, f)):
                    shutil.copy(os.path.join(src, f), os.path.join(dst, f))
            notes = open(os.path.join(src, 'notes.md')).read() if os.path.exists(os.path.join(src, 'notes.md')) else ''
            meta = {
                'property': prop,
                'kind': 'behaviour-preserving refactor (every check must stay silent: exit 0)',
                'written_by': 'independent sub-agent given only the property text and its own scratch worktree',
                'summary': notes[:1200],
                'confirmed_by': 'tools/confirm_twin.py in a fresh scratch worktree of /repo HEAD',
                'what_was_run': {'demo on unmodified tree': 'exit %d' % rc0, 'git apply patch.diff': 'ok',
                                 'demo with patch': 'exit %d' % rc1, 'full suite with patch': '%d passed' % passed},
                'repo_head': subprocess.check_output(['git', '-C', '/repo', 'rev-parse', '--short', 'HEAD']).decode().strip(),
            }
            with open(os.path.join(dst, 'meta.json'), 'w') as f:
                json.dump(meta, f, indent=1)
        return 0 if ok else 1
    finally:
        subprocess.run(['git', '-C', '/repo', 'worktree', 'remove', '--force', wt], stdout=subprocess.DEVNULL, stderr=subprocess.DEVNULL)
        shutil.rmtree(wt, ignore_errors=True)


if __name__ == '__main__':
    sys.exit(main())
