#!/venv/bin/python
"""Ad-hoc mutant runner: trymut.py PROP[,PROP..] FILE OLD NEW [--count N]
Copies /repo/pybufrkit to a scratch dir, replaces OLD by NEW in FILE (must occur exactly once unless --count),
runs the checks against the copy, prints their output, removes the copy."""
import os
import shutil
import subprocess
import sys
import tempfile


def main():
    args = sys.argv[1:]
    count = 1
    if '--count' in args:
        i = args.index('--count')
        count = int(args[i + 1])
        del args[i:i + 2]
    props, fname, old, new = args
    old = old.encode().decode('unicode_escape')
    new = new.encode().decode('unicode_escape')
    d = tempfile.mkdtemp(prefix='mut_')
    try:
        shutil.copytree('/repo/pybufrkit', os.path.join(d, 'pybufrkit'), ignore=shutil.ignore_patterns('tables', '__pycache__'))
        p = os.path.join(d, 'pybufrkit', fname)
        s = open(p).read()
        if s.count(old) != count:
            print('OLD occurs %d times in %s (expected %d)' % (s.count(old), fname, count))
            return 3
        open(p, 'w').write(s.replace(old, new))
        subprocess.check_call(['/venv/bin/python', '-m', 'py_compile', p])
        rc = 0
        for prop in props.split(','):
            r = subprocess.run(['/venv/bin/python', '/verif/sa/run.py', prop, '--repo', d], stdout=subprocess.PIPE, stderr=subprocess.STDOUT)
            out = r.stdout.decode()
            lines = [l for l in out.strip().splitlines() if not l.startswith('KNOWN-FINDING')]
            print('--- %s exit=%d' % (prop, r.returncode))
            for l in lines[:12]:
                print('   ' + l[:400])
            if len(lines) > 12:
                print('   ... (%d more lines)' % (len(lines) - 12))
                print('   ' + lines[-1][:300])
            rc = max(rc, r.returncode)
        return rc
    finally:
        shutil.rmtree(d, ignore_errors=True)


if __name__ == '__main__':
    sys.exit(main())
