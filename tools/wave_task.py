#!/venv/bin/python
"""wave_task.py KIND WAVE PROP [N]  -- creates a scratch worktree /tmp/w<WAVE><k>_<PROP> of /repo HEAD and writes _TASK.md into it:
the text of the property, the titles of the changes already stored (so that the new ones differ), and the delivery format.
KIND = seed (changes that break the property) | twin (behaviour-preserving refactors).  Nothing of /verif's machinery is given."""
import glob
import json
import os
import subprocess
import sys

SEED = """# Task

You are working in a scratch git worktree of the Python library **pybufrkit** (a pure-Python decoder/encoder for WMO BUFR
messages): `{wt}`. Work only inside this directory. Never touch or read `/repo` or `/verif`. Do not commit. Never use `git stash` (the stash is shared by all worktrees of the repository; use `git diff > file` and `git apply` / `git checkout -- .` instead).
Python: `/venv/bin/python` (pybufrkit is installed in editable mode pointing somewhere else, so every script you write must
start with `import os, sys; sys.path.insert(0, os.getcwd())` and be run from the worktree root so that *this* copy is imported).
Test suite: `cd {wt} && /venv/bin/python -m pytest -q -p no:cacheprovider -n 4` (45 passed, about 40 s).

## The property

```json
{prop}
```

## What to deliver

{n} **independent** changes to the library source (`pybufrkit/*.py`, `pybufrkit/definitions/*.json`) each of which **breaks this
property** while

* the package still imports and byte-compiles,
* the **complete existing test suite still passes** (45 passed) with the change applied,
* a demonstration script shows the break: it exits 0 on the unmodified tree and non-zero (with a message saying what differs)
  on the changed tree. The demonstration must judge against the *specification / the property*, not against a recording of the
  old output where avoidable (e.g. build the message by hand, compute the expected values by hand, compare decoder with encoder,
  compiled with plain, etc.).

The changes must **need something specific to manifest** - a particular operand value, a particular order of descriptors, a
multi-step sequence of operations on one object or in one process, an unusual but legal input, a rarely used option, a crash or
fault at a particular point, or two cooperating sites that each look fine alone. Not changes that ordinary use would expose at
once. Realistic ones are best: a refactor that looks like a clean-up or an optimisation, a "simplification" of a condition, a
cache, a helper that is reused in one place too many, a default that moves, an off-by-one at a boundary, an exception type that
changes, a state variable that is not reset, handling that is right for uncompressed and wrong for compressed data (or the other
way round), right for the decoder and wrong for the encoder or for the compiled-template path, etc. Read the code the property
is anchored in first, and look for places where the *existing tests are blind*.

Changes already collected for this property in earlier rounds - **do not repeat these or close variants; go for different code
sites and different mechanisms**:

{prior}

## Format

For k = {first}..{last} create `{wt}/_out/<k>/` with

* `patch.diff` - `git diff` against HEAD of the worktree (must apply with `git apply` at the worktree root on a clean checkout),
* `demo.py` - run as `/venv/bin/python _out/<k>/demo.py` from the worktree root; exit 0 unpatched, non-zero patched; self-contained
  (may read the sample files under `tests/data`),
* `notes.md` - first line `# Change <k> - <title>`; then: what changed (file, function), which part of the property breaks,
  what it needs in order to manifest, why the existing tests do not notice.

After finishing each change run `git checkout -- . ` (and check `git status` is clean apart from `_out/`) so that the changes
are independent of one another. Before you finish, verify for each k, on a clean checkout: demo exits 0; `git apply
_out/<k>/patch.diff`; demo exits non-zero; full suite 45 passed; `git checkout -- .`.

If, while reading, you notice that the **unmodified** code already violates the property for some input, add a file
`_out/OBSERVATIONS.md` describing the input and what happens (with a small reproducing script) - that is valuable too.

Your final answer: one line per change (title, files touched, verified yes/no).
"""

TWIN = """# Task

You are working in a scratch git worktree of the Python library **pybufrkit** (a pure-Python decoder/encoder for WMO BUFR
messages): `{wt}`. Work only inside this directory. Never touch or read `/repo` or `/verif`. Do not commit. Never use `git stash` (the stash is shared by all worktrees of the repository; use `git diff > file` and `git apply` / `git checkout -- .` instead).
Python: `/venv/bin/python` (pybufrkit is installed in editable mode pointing somewhere else, so every script you write must
start with `import os, sys; sys.path.insert(0, os.getcwd())` and be run from the worktree root so that *this* copy is imported).
Test suite: `cd {wt} && /venv/bin/python -m pytest -q -p no:cacheprovider -n 4` (45 passed, about 40 s).

## The property

```json
{prop}
```

## What to deliver

{n} **independent behaviour-preserving refactors** of the code this property is anchored in (the files / functions named under
`anchors`, and their helpers). Each must be a change a maintainer could plausibly make - and must leave the behaviour the
property talks about **exactly unchanged for every input** (not only for the tests): extract or inline a helper, move code
between a base class and its subclasses, replace a loop by a comprehension or the other way round, rename locals / private
attributes / private methods consistently, reorder independent statements, replace `if/elif` chains by dictionaries of
handlers or early returns, replace a try/except by a test (or the other way round) where equivalent, change a data structure
for an equivalent one (list <-> tuple <-> deque, dict <-> OrderedDict), compute a value once instead of twice, turn a method
into a staticmethod / property / module function, split a function in two, merge two, use `functools` / `itertools` /
`operator`, use keyword arguments, introduce a small class or namedtuple for a group of variables, modernise the syntax
(f-strings, `super()` without arguments, `yield from`, walrus, conditional expressions, unpacking, `enumerate`, `zip`), etc.
Make them **substantial** (10-60 changed lines each, touching the central functions of the property, not comments or
docstrings) and different in kind from one another.

Refactors already collected for this property - **do something different in kind and location**:

{prior}

## Format

For k = {first}..{last} create `{wt}/_out/<k>/` with

* `patch.diff` - `git diff` against HEAD of the worktree (must apply with `git apply` at the worktree root on a clean checkout),
* `demo.py` - run as `/venv/bin/python _out/<k>/demo.py` from the worktree root; a differential demonstration that exercises the
  refactored code on inputs chosen to reach every branch you touched (build messages by hand where the sample files under
  `tests/data` do not reach a branch) and compares with expected results computed independently; exits 0 both unpatched and
  patched,
* `notes.md` - first line `# Refactor <k> - <title>`; then: what changed, the kind of rewrite, and the argument why behaviour is
  identical for every input (including error behaviour: same exception types on the same inputs).

After finishing each refactor run `git checkout -- .` so that they are independent. Before you finish, verify for each k, on a
clean checkout: demo exits 0; `git apply _out/<k>/patch.diff`; demo exits 0; full suite 45 passed; `git checkout -- .`.

Your final answer: one line per refactor (title, files touched, verified yes/no).
"""


def main():
    kind, wave, prop = sys.argv[1], sys.argv[2], sys.argv[3]
    n = int(sys.argv[4]) if len(sys.argv) > 4 else 3
    wt = '/tmp/w%s%s_%s' % (wave, kind[0], prop)
    subprocess.run(['git', '-C', '/repo', 'worktree', 'remove', '--force', wt], stdout=subprocess.DEVNULL, stderr=subprocess.DEVNULL)
    subprocess.check_call(['git', '-C', '/repo', 'worktree', 'add', '-q', '--detach', wt, 'HEAD'])
    line = [l for l in open('/verif/properties.jsonl') if json.loads(l)['id'] == prop][0]
    store = '/verif/seeded' if kind == 'seed' else '/verif/twins'
    prior = []
    ks = []
    for d in sorted(glob.glob('%s/%s-*' % (store, prop)), key=lambda p: int(p.rsplit('-', 1)[1])):
        ks.append(int(d.rsplit('-', 1)[1]))
        notes = os.path.join(d, 'notes.md')
        title = ''
        if os.path.exists(notes):
            for l in open(notes):
                if l.startswith('#'):
                    title = l.lstrip('# ').strip()
                    break
        prior.append('* ' + title)
    first = max(ks + [0]) + 1
    text = (SEED if kind == 'seed' else TWIN).format(wt=wt, prop=json.dumps(json.loads(line), indent=1), n=n, prior='\n'.join(prior) or '(none yet)',
                                                    first=first, last=first + n - 1)
    with open(os.path.join(wt, '_TASK.md'), 'w') as f:
        f.write(text)
    os.makedirs(os.path.join(wt, '_out'), exist_ok=True)
    print(wt, first, first + n - 1)


if __name__ == '__main__':
    main()
