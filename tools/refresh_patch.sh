#!/bin/bash
# refresh_patch.sh seeded|twins ID...  -- a stored patch that applies to /repo HEAD only with fuzz / offsets is re-written as a clean
# `git diff` against HEAD and re-confirmed (confirm_seed.py / confirm_twin.py).  Patches that do not apply even with fuzz are reported.
kind=$1; shift
for id in "$@"; do
  d=/verif/$kind/$id
  wt=/tmp/rf_$id
  git -C /repo worktree remove --force $wt 2>/dev/null
  git -C /repo worktree add -q --detach $wt HEAD || { echo "$id: no worktree"; continue; }
  if (cd $wt && patch -p1 -s --no-backup-if-mismatch -i $d/patch.diff >/dev/null 2>&1); then
    tmp=$(mktemp -d)
    cp $d/* $tmp/ 2>/dev/null
    (cd $wt && find . -name '*.orig' -delete; git diff) > $tmp/patch.diff
    git -C /repo worktree remove --force $wt
    prop=${id%-*}; k=${id#*-}
    if [ "$kind" = seeded ]; then /venv/bin/python /verif/tools/confirm_seed.py $prop $k $tmp $k 2>&1 | tail -1; else /venv/bin/python /verif/tools/confirm_twin.py $prop $k $tmp $k 2>&1 | tail -1; fi
    rm -rf $tmp
  else
    echo "$id: does not apply even with fuzz -> needs a manual rebase"
    git -C /repo worktree remove --force $wt
  fi
done
git -C /repo worktree prune
