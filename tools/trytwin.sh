#!/bin/bash
# trytwin.sh TWIN CHECK[,CHECK]  -- applies a stored twin to a scratch copy and prints the findings of the given checks
t=$1; shift
d=$(mktemp -d); cp -r /repo/pybufrkit $d/; rm -rf $d/pybufrkit/tables; (cd $d && patch -p1 -s -i /verif/twins/$t/patch.diff) || { echo patch failed; rm -rf $d; exit 3; }
for c in $(echo $1 | tr ',' ' '); do /venv/bin/python /verif/sa/run.py $c --repo $d | grep -v KNOWN | grep -v "^VIOLATION" | cut -c1-${2:-700}; done
rm -rf $d
