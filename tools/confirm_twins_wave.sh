#!/bin/bash
# confirm_twins_wave.sh WAVE PROP...  -- re-confirms every delivered refactor of the given wave / properties (tools/confirm_twin.py), 3 at a time
wave=$1; shift
for p in "$@"; do
  for d in /tmp/w${wave}t_$p/_out/[0-9]*; do
    k=$(basename $d)
    [ -f $d/patch.diff ] || continue
    [ -d /verif/twins/$p-$k ] && continue
    echo "$p $k $d"
  done
done | xargs -P 4 -L 1 bash -c '/venv/bin/python /verif/tools/confirm_twin.py $0 $1 $2 2>&1 | tail -1'
