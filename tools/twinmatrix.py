#!/venv/bin/python
"""twinmatrix.py [--jobs N] [DIR ...]  -- runs every registered check against every behaviour-preserving change (twin) on a
scratch copy of /repo/pybufrkit with the patch applied (/repo is never touched). Every check must exit 0. Writes
/verif/twins/MATRIX.md when run without DIR arguments (over /verif/twins/*)."""
import glob
import multiprocessing
import os
import shutil
import subprocess
import sys
import tempfile

PROPS = sorted(os.path.basename(p)[:-3].upper() for p in glob.glob('/verif/sa/rules/c[0-9][0-9].py'))


def one(twin_dir):
    name = os.path.basename(os.path.dirname(os.path.dirname(twin_dir))) + '/' + os.path.basename(twin_dir) if '/_out/' in twin_dir else os.path.basename(twin_dir)
    d = tempfile.mkdtemp(prefix='tm_')
    try:
        shutil.copytree('/repo/pybufrkit', os.path.join(d, 'pybufrkit'), ignore=shutil.ignore_patterns('tables', '__pycache__'))
        r = subprocess.run(['patch', '-p1', '-s', '-i', os.path.join(twin_dir, 'patch.diff')], cwd=d, stdout=subprocess.PIPE, stderr=subprocess.STDOUT)
        if r.returncode != 0:
            return name, None, 'patch failed: ' + r.stdout.decode()[-200:]
        res = {}
        for prop in PROPS:
            r = subprocess.run(['/venv/bin/python', '/verif/sa/run.py', prop, '--repo', d], stdout=subprocess.PIPE, stderr=subprocess.STDOUT)
            out = r.stdout.decode()
            if r.returncode != 0:
                keep = [l for l in out.splitlines() if ': rule ' in l or 'ANALYSIS' in l or 'Unsupported' in l][:6]
                res[prop] = (r.returncode, keep)
        return name, res, ''
    finally:
        shutil.rmtree(d, ignore_errors=True)


def main():
    jobs = 8
    args = sys.argv[1:]
    if '--jobs' in args:
        i = args.index('--jobs')
        jobs = int(args[i + 1])
        del args[i:i + 2]
    stored = not args
    twins = args or sorted(d for d in glob.glob('/verif/twins/C*-*') if os.path.exists(os.path.join(d, 'patch.diff')))
    with multiprocessing.Pool(jobs) as pool:
        results = pool.map(one, twins)
    lines = ['# Behaviour-preserving changes (twins) x checks', '',
             'Each row is one confirmed behaviour-preserving refactor written by an independent sub-agent (see meta.json). Every check must exit 0 on it;',
             'a cell lists the checks that did not (1 = VIOLATION, a false alarm; 2 = ANALYSIS-ERROR, the evaluator met a construct it does not model).', '',
             '| twin | noisy checks |', '|---|---|']
    noisy = 0
    for name, res, err in results:
        if res is None:
            lines.append('| %s | %s |' % (name, err))
            print(name, err)
            continue
        if res:
            noisy += 1
        lines.append('| %s | %s |' % (name, '; '.join('%s: exit %d' % (p, rc) for p, (rc, _) in sorted(res.items())) or 'silent'))
        for p, (rc, keep) in sorted(res.items()):
            print('%s %s exit %d' % (name, p, rc))
            for l in keep:
                print('     ' + l[:300])
    lines += ['', 'Twins: %d; noisy: %d' % (len(results), noisy)]
    print(lines[-1])
    if stored:
        with open('/verif/twins/MATRIX.md', 'w') as f:
            f.write('\n'.join(lines) + '\n')


if __name__ == '__main__':
    main()
