#!/bin/bash
# tryseeds.sh PROPS SEED...   run the checks PROPS against each seed, two header lines each
props=$1; shift
for s in "$@"; do echo "== $s"; /venv/bin/python /verif/tools/tryseed.py /verif/seeded/$s/patch.diff $props 2>&1 | grep -v "^---" | cut -c1-300 | head -${LINES_PER:-4}; done
