#!/bin/bash
# confirm_wave.sh WAVE PROP...  -- re-confirms every delivered change of the given wave / properties (tools/confirm_seed.py), 3 at a time
wave=$1; shift
for p in "$@"; do
  for d in /tmp/w${wave}s_$p/_out/[0-9]*; do
    k=$(basename $d)
    [ -f $d/patch.diff ] || continue
    [ -d /verif/seeded/$p-$k ] && continue
    echo "$p $k $d"
  done
done | xargs -P 3 -L 1 bash -c '/venv/bin/python /verif/tools/confirm_seed.py $0 $1 $2 2>&1 | tail -1'
