import os, sys; sys.path.insert(0, os.getcwd())
"""
Differential demonstration for refactor 5 (Decoder.process: the walk over the
sections becomes a generator, the search for the start signature a helper).

Everything that is expected below is computed without the decoder: from an
independent reading of the octets (section lengths, optional-section flag,
descriptor list), from the JSON renderings shipped under tests/data, or from
the statement of property C12. The script exits 0 on the unpatched and on the
patched tree.
"""
import contextlib
import io
import itertools
import json
import shutil
import tempfile

import pybufrkit
from pybufrkit.decoder import Decoder, generate_bufr_message
from pybufrkit.errors import PyBufrKitError, UnknownDescriptor, BitReadError

DATA = os.path.join('tests', 'data')
N_CHECKS = 0


def check(cond, what):
    global N_CHECKS
    N_CHECKS += 1
    if not cond:
        print('FAILED: {}'.format(what))
        sys.exit(1)


def read(name):
    with open(os.path.join(DATA, name), 'rb') as ins:
        return ins.read()


def u(b):
    return int.from_bytes(b, 'big')


# --------------------------------------------------------------------------
# Independent reading of the structure of a message (editions 2, 3 and 4)
# --------------------------------------------------------------------------
def layout(m):
    assert m[:4] == b'BUFR'
    total, edition = u(m[4:7]), m[7]
    off = 8
    len1 = u(m[off:off + 3])
    has2 = (m[off + (9 if edition == 4 else 7)] >> 7) == 1
    starts = {0: 0, 1: off}
    off += len1
    if has2:
        starts[2] = off
        off += u(m[off:off + 3])
    starts[3] = off
    len3 = u(m[off:off + 3])
    n_subsets = u(m[off + 4:off + 6])
    compressed = bool(m[off + 6] & 0x40)
    descriptors = read_descriptors(m, off)
    off += len3
    starts[4] = off
    off += u(m[off:off + 3])
    starts[5] = off
    assert m[off:off + 4] == b'7777' and off + 4 == total == len(m), 'sample is not a single clean message'
    return dict(total=total, edition=edition, has2=has2, starts=starts, len3=len3,
                end4=starts[5], n_subsets=n_subsets, compressed=compressed,
                descriptors=descriptors)


def read_descriptors(m, off3):
    """The descriptor list of the section 3 that starts at the given offset."""
    descriptors = []
    for k in range((u(m[off3:off3 + 3]) - 7) // 2):
        w = u(m[off3 + 7 + 2 * k: off3 + 9 + 2 * k])
        descriptors.append((w >> 14) * 100000 + ((w >> 8) & 0x3f) * 1000 + (w & 0xff))
    return descriptors


def split_stream(s):
    """Cut a file into messages using the declared total lengths only."""
    out, i = [], 0
    while True:
        i = s.find(b'BUFR', i)
        if i < 0:
            return out
        n = u(s[i + 4:i + 7])
        out.append(s[i:i + n])
        i += n


def first(name):
    """The first message of a sample file, without what follows it."""
    return split_stream(read(name))[0]


def section_indices(bufr_message):
    return [section.get_metadata('index') for section in bufr_message.sections]


def values_of(bufr_message):
    td = bufr_message.template_data.value
    return [list(v) for v in td.decoded_values_all_subsets]


def plain(v):
    return v.decode('latin-1') if isinstance(v, bytes) else v


decoder = Decoder()

# --------------------------------------------------------------------------
# 1. Whole messages: sections walked, bytes consumed, values (against the JSON files)
# --------------------------------------------------------------------------
JSON_STUBS = ['207003', 'uegabe', 'profiler_european', 'b002_95', 'IUSK73_AMMC_182300',
              'jaso_214', 'g2nd_208', 'rado_250', 'mpco_217', 'b005_89']
seen_has2 = set()
seen_editions = set()
for stub in JSON_STUBS:
    m = first(stub + '.bufr')
    lay = layout(m)
    seen_has2.add(lay['has2'])
    seen_editions.add(lay['edition'])
    with open(os.path.join(DATA, stub + '.json')) as ins:
        expected = json.load(ins)
    want_indices = [0, 1] + ([2] if lay['has2'] else []) + [3, 4, 5]

    for kwargs in ({}, {'wire_template_data': False}, {'ignore_value_expectation': True},
                   {'start_signature': None}, {'start_signature': b'BUFR', 'file_path': 'x'}):
        bm = decoder.process(m, **kwargs)
        check(section_indices(bm) == want_indices, '{} {}: sections {}'.format(stub, kwargs, section_indices(bm)))
        check(bm.serialized_bytes == m, '{} {}: serialized bytes'.format(stub, kwargs))
        check(bm.length.value == lay['total'], '{}: length'.format(stub))
        check(bm.unexpanded_descriptors.value == lay['descriptors'], '{}: descriptors'.format(stub))
        check(bm.n_subsets.value == lay['n_subsets'], '{}: n_subsets'.format(stub))
        check(bm.is_compressed.value == lay['compressed'], '{}: compressed'.format(stub))
        check(len(expected) == len(bm.sections), '{}: number of sections against json'.format(stub))
        for sec_json, sec in zip(expected, bm.sections):
            got = [p.value for p in sec]
            check(len(got) == len(sec_json), '{}: section size'.format(stub))
            for p, a, b in zip(sec, sec_json, got):
                if p.name in ('template_data', 'local_bits'):
                    continue
                check(a == plain(b), '{}: {} {!r} != {!r}'.format(stub, p.name, a, b))
        got_values = [[plain(v) for v in subset] for subset in values_of(bm)]
        check(got_values == expected[-2][-1], '{} {}: values against json'.format(stub, kwargs))
        wired = bm.template_data.value._is_wired
        check(wired == (kwargs.get('wire_template_data', True)), '{} {}: wired {}'.format(stub, kwargs, wired))
        check(bm.filename == kwargs.get('file_path', '<string>'), '{}: file path'.format(stub))

    # info only, with and without the expectations: the data of section 4 are skipped, section 5 is not read
    for kwargs in ({'info_only': True}, {'info_only': True, 'ignore_value_expectation': True},
                   {'info_only': 1, 'wire_template_data': True}):
        bm = decoder.process(m, **kwargs)
        check(section_indices(bm) == want_indices[:-1], '{} {}: sections {}'.format(stub, kwargs, section_indices(bm)))
        check(bm.serialized_bytes == m[:lay['end4']], '{} {}: bytes of an info-only decoding'.format(stub, kwargs))
        check(bm.unexpanded_descriptors.value == lay['descriptors'], '{}: descriptors (info)'.format(stub))
        check(not hasattr(bm, 'template_data'), '{}: no data decoded'.format(stub))

    # what precedes the signature is dropped, what follows the message is not looked at
    reference = values_of(decoder.process(m))
    for before, after in ((b'', b'\xff' * 7), (b'\r\r\n123 ISXX', b''), (b'junk BUF junk', b'BUFR7777 trailing'),
                          (b'', m)):
        bm = decoder.process(before + m + after)
        check(bm.serialized_bytes == m and values_of(bm) == reference,
              '{}: surrounded by {!r} {!r}'.format(stub, before, after))
        bm = decoder.process(before + m + after, info_only=True)
        check(bm.serialized_bytes == m[:lay['end4']], '{}: surrounded, info only'.format(stub))

check(seen_has2 == {True, False}, 'both an absent and a present optional section were met')
check(seen_editions == {3, 4}, 'editions 3 and 4 were met')

# --------------------------------------------------------------------------
# 2. The start signature
# --------------------------------------------------------------------------
m = first('207003.bufr')
lay = layout(m)
reference = values_of(decoder.process(m))
for bad in (b'', b'BUF', b'no signature here 7777', b'bufr' + m[4:]):
    for kwargs in ({}, {'info_only': True}, {'ignore_value_expectation': True}):
        try:
            decoder.process(bad, **kwargs)
            check(False, 'no signature in {!r}: should fail'.format(bad[:12]))
        except PyBufrKitError as e:
            check(type(e) is PyBufrKitError and str(e) == "Error: Cannot find start signature: b'BUFR'",
                  'message of the missing signature: {}'.format(e))
try:
    decoder.process(m, start_signature=b'ZCZC')
    check(False, 'custom signature absent')
except PyBufrKitError as e:
    check(type(e) is PyBufrKitError and str(e) == "Error: Cannot find start signature: b'ZCZC'", str(e))

# a custom signature is looked for and decoding starts there; its value is then checked against BUFR
renamed = b'ZCZC' + m[4:]
try:
    decoder.process(b'xx' + renamed, start_signature=b'ZCZC')
    check(False, 'renamed signature must fail the expectation')
except PyBufrKitError as e:
    check(type(e) is PyBufrKitError and str(e) == "Error: Value (b'ZCZC') not as expected (b'BUFR')", str(e))
bm = decoder.process(b'xx' + renamed + b'yy', start_signature=b'ZCZC', ignore_value_expectation=True)
check(bm.serialized_bytes == renamed and values_of(bm) == reference, 'renamed signature, expectations ignored')
bm = decoder.process(b'xx' + renamed + b'yy', start_signature=b'ZCZC', ignore_value_expectation=True, info_only=True)
check(bm.serialized_bytes == renamed[:lay['end4']], 'renamed signature, expectations ignored, info only')

# no search at all: decoding starts at the first octet
try:
    decoder.process(b'x' + m, start_signature=None)
    check(False, 'no search: must fail on the first octets')
except PyBufrKitError as e:
    check(type(e) is PyBufrKitError and str(e) == "Error: Value (b'xBUF') not as expected (b'BUFR')", str(e))
bm = decoder.process(renamed, start_signature=None, ignore_value_expectation=True)
check(bm.serialized_bytes == renamed and values_of(bm) == reference, 'no search, expectations ignored')

# the stop signature is an expectation of the last section
broken_stop = m[:-4] + b'7778'
try:
    decoder.process(broken_stop)
    check(False, 'stop signature')
except PyBufrKitError as e:
    check(type(e) is PyBufrKitError and str(e) == "Error: Value (b'7778') not as expected (b'7777')", str(e))
bm = decoder.process(broken_stop, ignore_value_expectation=True)
check(bm.serialized_bytes == broken_stop and values_of(bm) == reference, 'stop signature ignored on request')
bm = decoder.process(broken_stop, info_only=True)
check(bm.serialized_bytes == m[:lay['end4']], 'stop signature not reached by an info-only decoding')

# --------------------------------------------------------------------------
# 3. Every truncation point (exhaustive for the small messages)
# --------------------------------------------------------------------------
small = [read(n) for n in ('207003.bufr', 'contrived.bufr', 'profiler_european.bufr', 'uegabe.bufr')]
small += split_stream(read('multi_invalid_messages.bufr'))[-1:]
for m in small:
    lay = layout(m)
    for n in range(len(m)):
        prefix = m[:n]
        try:
            decoder.process(prefix)
            check(False, 'prefix of {} octets out of {} decodes'.format(n, len(m)))
        except PyBufrKitError:
            check(True, '')
        # info only: succeeds exactly when sections 0 to 4 are complete (the data are skipped, not read)
        try:
            bm = decoder.process(prefix, info_only=True)
            ok = bm.serialized_bytes == m[:lay['end4']]
        except PyBufrKitError:
            ok = None
        check(ok == (True if n >= lay['end4'] else None), 'info-only prefix of {} octets'.format(n))
for m in (first('jaso_214.bufr'), first('b002_95.bufr')):
    for n in itertools.chain(range(0, len(m), 37), range(len(m) - 40, len(m))):
        try:
            decoder.process(m[:n])
            check(False, 'prefix of {} octets out of {} decodes'.format(n, len(m)))
        except PyBufrKitError:
            check(True, '')

# --------------------------------------------------------------------------
# 4. Streams: damage isolated to one message
# --------------------------------------------------------------------------
def damage_stop(m, lay):
    return m[:-4] + b'XXXX'


def damage_element(m, lay):  # 0 63 255 is in no table
    o = lay['starts'][3] + 7
    return m[:o] + bytes([63, 255]) + m[o + 2:]


def damage_sequence(m, lay):  # 3 63 255 is in no table
    o = lay['starts'][3] + 7
    return m[:o] + bytes([0xc0 | 63, 255]) + m[o + 2:]


def damage_shorter(m, lay):  # section 4 declared 2 octets shorter
    o = lay['starts'][4]
    return m[:o] + (u(m[o:o + 3]) - 2).to_bytes(3, 'big') + m[o + 3:]


def damage_longer(m, lay):  # section 4 declared 2 octets longer
    o = lay['starts'][4]
    return m[:o] + (u(m[o:o + 3]) + 2).to_bytes(3, 'big') + m[o + 3:]


DAMAGES = [damage_stop, damage_element, damage_sequence, damage_shorter, damage_longer]
EXACT_TYPE = {damage_stop: PyBufrKitError, damage_element: UnknownDescriptor,
              damage_sequence: UnknownDescriptor, damage_shorter: PyBufrKitError}

pool = [first('contrived.bufr'), first('207003.bufr'), first('uegabe.bufr')]
layouts = [layout(m) for m in pool]
references = [values_of(decoder.process(m)) for m in pool]


def run(stream, **kwargs):
    """Messages delivered, and the error that ended the scan if any."""
    delivered, error = [], None
    err = io.StringIO()
    with contextlib.redirect_stderr(err):
        try:
            for bm in generate_bufr_message(decoder, stream, **kwargs):
                delivered.append(bm)
        except Exception as e:
            error = e
    return delivered, error, err.getvalue()


for order in ((0, 1, 2), (2, 0, 1), (1, 1, 0), (0, 2)):
    n = len(order)
    for damaged in itertools.chain.from_iterable(itertools.combinations(range(n), k) for k in range(n + 1)):
        for damage in (DAMAGES if damaged else DAMAGES[:1]):
            parts = []
            for pos, k in enumerate(order):
                parts.append(damage(pool[k], layouts[k]) if pos in damaged else pool[k])
            stream = b'\r\r\n'.join(parts) + b'\r\r\n'
            what = '{} {} {}'.format(order, damaged, damage.__name__)

            # full scan, errors skipped: the undamaged ones, unchanged and in order
            delivered, error, err = run(stream, continue_on_error=True)
            check(error is None, what + ': no error escapes')
            want = [pos for pos in range(n) if pos not in damaged]
            check([bm.serialized_bytes for bm in delivered] == [pool[order[pos]] for pos in want],
                  what + ': delivered messages')
            check([values_of(bm) for bm in delivered] == [references[order[pos]] for pos in want],
                  what + ': delivered values')
            check(err.count('Continuing on next message') == len(damaged), what + ': one notice per skipped message')

            # full scan, errors fatal: the ones before the first damaged one, then the library's error
            delivered, error, err = run(stream)
            first_bad = min(damaged) if damaged else n
            check([bm.serialized_bytes for bm in delivered] == [pool[k] for k in order[:first_bad]],
                  what + ': delivered before the failure')
            if damaged:
                check(isinstance(error, PyBufrKitError), what + ': library error, got {!r}'.format(error))
                if damage in EXACT_TYPE:
                    check(type(error) is EXACT_TYPE[damage], what + ': type {}'.format(type(error).__name__))
                else:
                    check(type(error) in (PyBufrKitError, BitReadError), what + ': type {}'.format(type(error).__name__))
            else:
                check(error is None, what + ': nothing to report')

            # info-only scan: none of these damages prevents the walk up to the end of section 4, nor touches the total
            # length, so that every message is listed, each with its own octets
            delivered, error, err = run(stream, info_only=True, continue_on_error=True)
            check(error is None and [bm.serialized_bytes for bm in delivered] == parts, what + ': info-only scan')
            for bm, part, k in zip(delivered, parts, order):
                check(bm.unexpanded_descriptors.value == read_descriptors(part, layouts[k]['starts'][3]),
                      what + ': descriptors listed')

# --------------------------------------------------------------------------
# 5. The command line reports the library's error without a traceback
# --------------------------------------------------------------------------
tmp = tempfile.mkdtemp()
try:
    for damage in DAMAGES:
        path = os.path.join(tmp, damage.__name__ + '.bufr')
        with open(path, 'wb') as outs:
            outs.write(pool[0] + damage(pool[1], layouts[1]) + pool[2])
        for argv, n_ok in ((['decode', '-m', path], 1), (['decode', '-m', '--continue-on-error', path], 2), (['decode', path], 1),
                           (['info', '-m', path], 3)):
            out, err = io.StringIO(), io.StringIO()
            old_argv = sys.argv
            sys.argv = ['pybufrkit'] + argv
            try:
                with contextlib.redirect_stdout(out), contextlib.redirect_stderr(err):
                    pybufrkit.main()  # must return normally
            finally:
                sys.argv = old_argv
            what = '{} {}'.format(damage.__name__, argv[:-1])
            check('Traceback' not in err.getvalue() and 'Traceback' not in out.getvalue(), what + ': no traceback')
            if argv[0] == 'decode':
                check(out.getvalue().count('<<<<<< section 0 >>>>>>') == n_ok, what + ': messages shown')
                if '-m' in argv:
                    check(err.getvalue().count('Error: ') == 1, what + ': one error reported: ' + err.getvalue())
                else:
                    check(err.getvalue() == '', what + ': single message mode stops after the first message')
            else:
                check(err.getvalue() == '', what + ': nothing to report for a listing')

    # ----------------------------------------------------------------------
    # 6. Errors that are not the library's pass through the section walk untouched
    # ----------------------------------------------------------------------
    class Probe(Decoder):
        """Fails in the n-th section with the given exception."""

        def __init__(self, n, exc):
            super(Probe, self).__init__()
            self.n, self.exc, self.calls = n, exc, []

        def process_section(self, bufr_message, bit_reader, section):
            self.calls.append(section.get_metadata('index'))
            if len(self.calls) == self.n:
                raise self.exc
            return super(Probe, self).process_section(bufr_message, bit_reader, section)

    m = first('uegabe.bufr')  # has the optional section
    for n in range(1, 7):
        for exc in (StopIteration('probe'), KeyError('probe'), GeneratorExit(), PyBufrKitError('probe')):
            probe = Probe(n, exc)
            try:
                probe.process(m)
                check(False, 'probe must fail')
            except BaseException as e:
                check(e is exc, 'section {}: {!r} comes out as {!r}'.format(n, exc, e))
            check(probe.calls == [0, 1, 2, 3, 4, 5][:n], 'sections tried before the failure: {}'.format(probe.calls))

    # a set of definitions in which no section ends the message: the walk runs off the
    # end of the definitions, which is a KeyError for the section index 6
    defs = os.path.join(tmp, 'definitions')
    shutil.copytree(os.path.join('pybufrkit', 'definitions'), defs)
    with open(os.path.join(defs, 'section5.json')) as ins:
        section5 = json.load(ins)
    del section5['end_of_message']
    with open(os.path.join(defs, 'section5.json'), 'w') as outs:
        json.dump(section5, outs)
    endless = Decoder(definitions_dir=defs)
    try:
        endless.process(m)
        check(False, 'endless definitions')
    except KeyError as e:
        check(e.args == (6,), 'KeyError of the missing section 6: {!r}'.format(e))
    bm = endless.process(m, info_only=True)  # the end is then put by the info configuration
    check(section_indices(bm) == [0, 1, 2, 3, 4], 'endless definitions, info only')
finally:
    shutil.rmtree(tmp)

print('OK: {} checks'.format(N_CHECKS))
