import os, sys; sys.path.insert(0, os.getcwd())
import pybufrkit
assert os.path.dirname(os.path.abspath(pybufrkit.__file__)) == os.path.join(os.getcwd(), 'pybufrkit'), pybufrkit.__file__

# ---- independent reference for the documented grammar (regex based) --------
import itertools, re, string
from pybufrkit.dataquery import NodePathParser, NodePath, PathComponent
from pybufrkit.errors import PathExprParsingError

_EL = r'[^@\[\]:/.>]*'
_ID = r'[^@\[\]:/.>]+'
_SL = r'\[%s(?::%s)*\]' % (_EL, _EL)
_WHOLE = re.compile(r'^(?:@(?P<ss>%s)(?=[/>])|(?=[/>0-9A-Z]))(?P<rest>.*)$' % _SL, re.S)
_COMP = re.compile(r'(?P<sep>[/.>])(?P<id>%s)(?P<sl>%s)?' % (_ID, _SL))
_INT = re.compile(r'^-?[0-9]+$')


def ref_slice(text, default):
    """text is '[...]' or None; returns (ok, object)"""
    if text is None:
        return True, default
    parts = text[1:-1].split(':')
    if len(parts) > 3 or not all(p == '' or _INT.match(p) for p in parts):
        return False, None
    nums = [None if p == '' else int(p) for p in parts]
    if len(nums) == 1:
        n = nums[0]
        if n is None:
            return False, None
        return True, (n if n >= 0 else slice(n, None if n == -1 else n + 1, None))
    return True, slice(*nums)


def reference(s, bare=True):
    """None if s is not in the language, else (subset_slice, [(sep, id, slice), ...])"""
    default = slice(None, None, None) if bare else 0
    t = ''.join(c for c in s if c not in string.whitespace)
    m = _WHOLE.match(t)
    if not t or not m:
        return None
    ok, subset = ref_slice(m.group('ss'), default)
    if not ok:
        return None
    rest = m.group('rest')
    if rest[0] not in '/>':
        rest = '>' + rest
    comps, pos = [], 0
    while pos < len(rest):
        cm = _COMP.match(rest, pos)
        if not cm:
            return None
        ok, slc = ref_slice(cm.group('sl'), default)
        if not ok:
            return None
        comps.append((cm.group('sep'), cm.group('id'), slc))
        pos = cm.end()
    return subset, comps


def observe(s, bare=True):
    """Same shape as reference(); anything but the parsing error propagates."""
    try:
        p = NodePathParser(bare_id_matches_all=bare).parse(s)
    except PathExprParsingError:
        return None
    assert isinstance(p, NodePath) and p.path_string == s
    assert all(type(c) is PathComponent for c in p.components)
    return p.subset_slice, [tuple(c) for c in p.components]


def same(a, b):
    """equality that also distinguishes 0 / False / 0.0 and 1 / True"""
    return repr(a) == repr(b)
# -----------------------------------------------------------------------------

ALPHA = '@[]:/.>-01A '


def check(s, bare=True):
    r, o = reference(s, bare), observe(s, bare)
    assert same(r, o), (s, bare, r, o)
    return o


def main():
    # 1. every way a slice can be written, as subset selector and as component slice
    ints = ['', '0', '1', '7', '12', '-1', '-2', '-3', '-10', '007', '-0', '-', '1-', '--1', 'A', '1A']
    n_ok = 0
    for k in range(0, 5):
        for combo in itertools.product(ints, repeat=k) if k < 3 else itertools.product(ints[:8], repeat=k):
            text = '[' + ':'.join(combo) + ']' if k else ''
            for bare in (True, False):
                for s in ('A' + text, '@' + text + '/A', '@' + text + '>B' + text, '/A' + text + '.B' + text, ' A ' + ' '.join(text)):
                    n_ok += check(s, bare) is not None

    # 2. the exact objects the grammar dictates (type matters: int stays int)
    def one(s, bare=True):
        p = NodePathParser(bare_id_matches_all=bare).parse(s)
        return p.subset_slice, p.components[0].slice
    expect = {
        'A': (slice(None, None, None), slice(None, None, None)),
        'A[0]': (slice(None, None, None), 0),
        'A[5]': (slice(None, None, None), 5),
        'A[-1]': (slice(None, None, None), slice(-1, None, None)),
        'A[-2]': (slice(None, None, None), slice(-2, -1, None)),
        'A[-12]': (slice(None, None, None), slice(-12, -11, None)),
        'A[:]': (slice(None, None, None), slice(None, None)),
        'A[1:]': (slice(None, None, None), slice(1, None)),
        'A[:-1]': (slice(None, None, None), slice(None, -1)),
        'A[::2]': (slice(None, None, None), slice(None, None, 2)),
        'A[1:2:3]': (slice(None, None, None), slice(1, 2, 3)),
        '@[3]/A[-1:]': (3, slice(-1, None)),
        '@[-1]>A': (slice(-1, None, None), slice(None, None, None)),
        '@[-4]>A[2]': (slice(-4, -3, None), 2),
        '@[::-1]/A[-0]': (slice(None, None, -1), 0),
    }
    for s, want in expect.items():
        got = one(s)
        assert same(got, want), (s, got, want)
        for g in got:
            assert type(g) in (int, slice), (s, g)
    assert same(one('A', bare=False), (0, 0))
    assert same(one('/A', bare=False), (0, 0))
    assert same(one('@[2]/A', bare=False), (2, 0))
    assert same(one('@[1:2]/A[3]', bare=False), (slice(1, 2, None), 3))

    # a negative single index selects exactly the element python indexing selects
    data = list(range(10))
    for n in range(-10, 10):
        slc = one('A[%d]' % n)[1]
        picked = [data[slc]] if isinstance(slc, int) else data[slc]
        assert picked == [data[n]], (n, slc)

    # 3. more than three indices: the path-parsing error and nothing else
    for s in ('A[1:2:3:4]', 'A[:::]', '@[::::]/A', '@[1:2:3:4]>A', 'A[0]/B[1:1:1:1]', 'A[]', '@[]/A', 'A[1', 'A[1:', '@[1]'):
        for bare in (True, False):
            try:
                NodePathParser(bare).parse(s)
            except PathExprParsingError:
                pass
            else:
                raise AssertionError('accepted: %r' % s)

    # 4. create_slice_object itself: consumes the collected elements, each call a fresh list
    for bare in (True, False):
        p = NodePathParser(bare_id_matches_all=bare)
        p.reset()
        for elements, want in [([], slice(None, None, None) if bare else 0), ([0], 0), ([4], 4), ([-1], slice(-1, None, None)),
                               ([-5], slice(-5, -4, None)), ([None, None], slice(None, None, None)), ([2, None], slice(2, None, None)),
                               ([None, 9, 2], slice(None, 9, 2)), ([10 ** 20], 10 ** 20), ([-10 ** 20], slice(-10 ** 20, 1 - 10 ** 20, None))]:
            given = list(elements)
            p.current_slice_elements = given
            got = p.create_slice_object()
            assert same(got, want) and type(got) is type(want), (elements, got, want)
            assert p.current_slice_elements == [] and p.current_slice_elements is not given
            assert given == elements  # the list handed in is not modified
        four = [1, 2, 3, 4]
        p.current_slice_elements = four
        try:
            p.create_slice_object()
        except PathExprParsingError as e:
            assert 'at most three' in str(e)
        else:
            raise AssertionError('four indices accepted')
        assert p.current_slice_elements is four and four == [1, 2, 3, 4]

    # 5. slices survive printing and re-parsing
    for s in list(expect) + ['@[-3]/A[-7].B[1:-1:2]>C']:
        p = NodePathParser().parse(s)
        q = NodePathParser().parse(str(p))
        assert same((q.subset_slice, q.components), (p.subset_slice, p.components)), s
        assert str(q) == str(p)

    # 6. exhaustive agreement with the reference on short strings
    n = acc = 0
    for length in range(0, 5):
        for t in itertools.product(ALPHA, repeat=length):
            n += 1
            acc += check(''.join(t)) is not None
    print('demo 1 ok: %d slice spellings accepted, %d/%d short strings accepted' % (n_ok, acc, n))


main()
