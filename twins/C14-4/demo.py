"""
Demo for refactor 4: get_tables_sn / normalize_tables_sn (table version selection and fall-back).

Run as: cd /tmp/tw_C14 && /venv/bin/python _out/4/demo.py
"""
import os, sys; sys.path.insert(0, os.getcwd())

import logging
import shutil
import tempfile

import pybufrkit.tables as tables
from pybufrkit.constants import DEFAULT_TABLES_DIR
from pybufrkit.tables import (TableGroupCacheManager, TableGroupKey, get_tables_sn, normalize_tables_sn)
from pybufrkit.descriptors import flat_member_ids


# --- capture what gets logged and which directories get probed --------------------------
class ListHandler(logging.Handler):
    def __init__(self):
        logging.Handler.__init__(self)
        self.records = []

    def emit(self, record):
        self.records.append((record.levelname, record.getMessage()))


handler = ListHandler()
tables.log.addHandler(handler)
tables.log.propagate = False

probed = []
real_isdir = os.path.isdir


def recording_isdir(path):
    probed.append(path)
    return real_isdir(path)


os.path.isdir = recording_isdir


def normalize(root, *args):
    """returns (result, warnings, probed paths relative to root)"""
    del handler.records[:]
    del probed[:]
    result = normalize_tables_sn(root, *args)
    assert all(level == 'WARNING' for level, _ in handler.records)
    return result, [m for _, m in handler.records], [os.path.relpath(p, root) for p in probed]


W_NUMBER = 'Fallback to default master table number: 0 ({} not found)'
W_VERSION = 'Fallback to default master table version 33 ({} not found)'
W_SUBCENTRE = 'Fallback to default local sub-centre 0 ({} not found)'
W_NO_LOCAL = 'Cannot find sub-centre {} nor valid default. Local table not in use.'
J = os.path.join

# ---------------------------------------------------------------------------
# get_tables_sn: no checks at all
# ---------------------------------------------------------------------------
assert get_tables_sn(0, 0, 0, 33, 0) == (('0', '0_0', '33'), None)
assert get_tables_sn(0, 98, 0, 13, 1) == (('0', '0_0', '13'), ('0', '98_0', '1'))
assert get_tables_sn(7, 254, 3, 99, 12) == (('7', '0_0', '99'), ('7', '254_3', '12'))
assert get_tables_sn(None, None, None, None, None) == (('None', '0_0', 'None'), ('None', 'None_None', 'None'))
assert get_tables_sn('0', '98', '1', '25', '0') == (('0', '0_0', '25'), ('0', '98_1', '0'))  # '0' is not 0
assert get_tables_sn(0, 98, 1, 25, 0.0) == (('0', '0_0', '25'), None)
assert get_tables_sn(0, 98, 1, 25, False) == (('0', '0_0', '25'), None)
wmo_sn, local_sn = get_tables_sn(0, 98, 0, 13, 1)
assert type(wmo_sn) is tuple and type(local_sn) is tuple

# ---------------------------------------------------------------------------
# normalize_tables_sn on the bundled tables: every version selection
# ---------------------------------------------------------------------------
available = set(os.listdir(J(DEFAULT_TABLES_DIR, '0', '0_0')))
assert len(available) == 36 and '33' in available
for version in list(range(0, 60)) + [255, -1, '13', '013', 'latest']:
    result, warnings, paths = normalize(DEFAULT_TABLES_DIR, 0, 0, 0, version, 0)
    if str(version) in available:
        assert result == (('0', '0_0', str(version)), None)
        assert warnings == []
    else:
        assert result == (('0', '0_0', '33'), None)
        assert warnings == [W_VERSION.format(version)]
    assert paths == ['0', J('0', '0_0', str(version))]
    assert type(result) is tuple and type(result[0]) is tuple

# unknown master table number
result, warnings, paths = normalize(DEFAULT_TABLES_DIR, 10, 0, 0, 25, 0)
assert result == (('0', '0_0', '25'), None)
assert warnings == [W_NUMBER.format(10)]
assert paths == ['10', J('0', '0_0', '25')]
result, warnings, paths = normalize(DEFAULT_TABLES_DIR, 10, 0, 0, 77, 0)
assert result == (('0', '0_0', '33'), None)
assert warnings == [W_NUMBER.format(10), W_VERSION.format(77)]

# local tables
for local_version in (1, 2, 3, 101):
    result, warnings, paths = normalize(DEFAULT_TABLES_DIR, 0, 98, 0, 13, local_version)
    assert result == (('0', '0_0', '13'), ('0', '98_0', str(local_version)))
    assert warnings == []
    assert paths == ['0', J('0', '0_0', '13'), J('0', '98_0', str(local_version))]
# other sub-centre -> the one of sub-centre 0
result, warnings, paths = normalize(DEFAULT_TABLES_DIR, 0, 98, 7, 13, 1)
assert result == (('0', '0_0', '13'), ('0', '98_0', '1'))
assert warnings == [W_SUBCENTRE.format(7)]
assert paths == ['0', J('0', '0_0', '13'), J('0', '98_7', '1'), J('0', '98_0', '1')]
# no such local version / no such centre -> no local tables
result, warnings, paths = normalize(DEFAULT_TABLES_DIR, 0, 98, 0, 13, 4)
assert result == (('0', '0_0', '13'), None)
assert warnings == [W_NO_LOCAL.format(0)]
assert paths == ['0', J('0', '0_0', '13'), J('0', '98_0', '4'), J('0', '98_0', '4')]  # probed twice
result, warnings, paths = normalize(DEFAULT_TABLES_DIR, 0, 7, 5, 13, 1)
assert result == (('0', '0_0', '13'), None)
assert warnings == [W_NO_LOCAL.format(5)]
assert paths == ['0', J('0', '0_0', '13'), J('0', '7_5', '1'), J('0', '7_0', '1')]
# all fall-backs at once, in this order
result, warnings, paths = normalize(DEFAULT_TABLES_DIR, 3, 98, 7, 99, 1)
assert result == (('0', '0_0', '33'), ('0', '98_0', '1'))
assert warnings == [W_NUMBER.format(3), W_VERSION.format(99), W_SUBCENTRE.format(7)]
assert paths == ['3', J('0', '0_0', '99'), J('0', '98_7', '1'), J('0', '98_0', '1')]
result, warnings, paths = normalize(DEFAULT_TABLES_DIR, 3, 97, 7, 99, 1)
assert result == (('0', '0_0', '33'), None)
assert warnings == [W_NUMBER.format(3), W_VERSION.format(99), W_NO_LOCAL.format(7)]
# local version zero: the centre does not matter and is not probed
result, warnings, paths = normalize(DEFAULT_TABLES_DIR, 0, 98, 7, 13, 0)
assert result == (('0', '0_0', '13'), None) and warnings == [] and paths == ['0', J('0', '0_0', '13')]
# '0' is not 0: taken as a local version (which does not exist)
result, warnings, paths = normalize(DEFAULT_TABLES_DIR, 0, 98, 0, 13, '0')
assert result == (('0', '0_0', '13'), None) and warnings == [W_NO_LOCAL.format(0)]
# arguments as strings
result, warnings, paths = normalize(DEFAULT_TABLES_DIR, '0', '98', '0', '13', '1')
assert result == (('0', '0_0', '13'), ('0', '98_0', '1')) and warnings == []
# None for everything (normalize_tables_sn itself does not apply the defaults)
result, warnings, paths = normalize(DEFAULT_TABLES_DIR, None, None, None, None, None)
assert result == (('0', '0_0', '33'), None)
assert warnings == [W_NUMBER.format(None), W_VERSION.format(None), W_NO_LOCAL.format(None)]
assert paths == ['None', J('0', '0_0', 'None'), J('0', 'None_None', 'None'), J('0', 'None_0', 'None')]

# ---------------------------------------------------------------------------
# roots made for the purpose
# ---------------------------------------------------------------------------
tmp = tempfile.mkdtemp(prefix='c14_demo4_')
try:
    for parts in (('0', '0_0', '20'), ('0', '44_3', '5'), ('0', '44_0', '6'), ('2', '0_0', '9'), ('2', '44_0', '5')):
        os.makedirs(J(tmp, *parts))
    # a file is not a directory
    with open(J(tmp, '0', '0_0', '21'), 'w') as outs:
        outs.write('')

    assert normalize(tmp, 0, 0, 0, 20, 0) == ((('0', '0_0', '20'), None), [], ['0', J('0', '0_0', '20')])
    # the default version is the answer even if it does not exist under this root
    result, warnings, _ = normalize(tmp, 0, 0, 0, 21, 0)
    assert result == (('0', '0_0', '33'), None) and warnings == [W_VERSION.format(21)]
    # exact sub-centre preferred, no warning
    result, warnings, paths = normalize(tmp, 0, 44, 3, 20, 5)
    assert result == (('0', '0_0', '20'), ('0', '44_3', '5')) and warnings == []
    assert paths == ['0', J('0', '0_0', '20'), J('0', '44_3', '5')]
    result, warnings, paths = normalize(tmp, 0, 44, 3, 20, 6)
    assert result == (('0', '0_0', '20'), ('0', '44_0', '6')) and warnings == [W_SUBCENTRE.format(3)]
    # another master table number which exists is kept for both
    result, warnings, paths = normalize(tmp, 2, 44, 1, 9, 5)
    assert result == (('2', '0_0', '9'), ('2', '44_0', '5')) and warnings == [W_SUBCENTRE.format(1)]
    assert paths == ['2', J('2', '0_0', '9'), J('2', '44_1', '5'), J('2', '44_0', '5')]
    result, warnings, paths = normalize(tmp, 2, 44, 3, 20, 5)
    assert result == (('2', '0_0', '33'), ('2', '44_0', '5'))
    assert warnings == [W_VERSION.format(20), W_SUBCENTRE.format(3)]
    # a root which does not exist at all
    nowhere = J(tmp, 'nowhere')
    result, warnings, paths = normalize(nowhere, 1, 44, 3, 20, 5)
    assert result == (('0', '0_0', '33'), None)
    assert warnings == [W_NUMBER.format(1), W_VERSION.format(20), W_NO_LOCAL.format(3)]
    assert paths == ['1', J('0', '0_0', '20'), J('0', '44_3', '5'), J('0', '44_0', '5')]
finally:
    shutil.rmtree(tmp)

# a root which is no path
for bad_root in (None, 5):
    try:
        normalize_tables_sn(bad_root, 0, 0, 0, 33, 0)
    except TypeError:
        pass
    else:
        raise AssertionError('no TypeError')

# ---------------------------------------------------------------------------
# the table groups that come out of the selection
# ---------------------------------------------------------------------------
os.path.isdir = real_isdir
default_group = TableGroupCacheManager.get_table_group()
assert default_group.key == TableGroupKey(DEFAULT_TABLES_DIR, ('0', '0_0', '33'), None)
# fall back to the defaults gives the very same (cached) group
del handler.records[:]
for kwargs in ({'master_table_version': 99}, {'master_table_number': 9}, {'master_table_version': 0},
               {'originating_centre': 98, 'local_table_version': 0},
               {'originating_centre': 7, 'originating_subcentre': 1, 'local_table_version': 2},
               {'tables_root_dir': None}, {'tables_root_dir': ''}):
    assert TableGroupCacheManager.get_table_group(**kwargs) is default_group, kwargs
assert [m for _, m in handler.records] == [W_VERSION.format(99), W_NUMBER.format(9), W_NO_LOCAL.format(1)]

for version in sorted(available, key=int):
    group = TableGroupCacheManager.get_table_group(master_table_version=int(version))
    assert group.key.wmo_tables_sn == ('0', '0_0', version) and group.key.local_tables_sn is None
    assert group.B.tables_dir_wmo == J(DEFAULT_TABLES_DIR, '0', '0_0', version)
    assert group.B.tables_dir_local is None
    assert (group is default_group) == (version == '33')
    assert flat_member_ids(group.lookup(301011)) == [4001, 4002, 4003]

local_group = TableGroupCacheManager.get_table_group(originating_centre=98, originating_subcentre=9,
                                                     master_table_version=13, local_table_version=1)
assert local_group.key == TableGroupKey(DEFAULT_TABLES_DIR, ('0', '0_0', '13'), ('0', '98_0', '1'))
assert local_group.D.tables_dir_local == J(DEFAULT_TABLES_DIR, '0', '98_0', '1')
assert 301193 in local_group.D.descriptors  # a local sequence
assert flat_member_ids(local_group.lookup(301193)) == [1007, 1031, 2196, 2221, 2222]

# without normalisation nothing is checked up to the point where the files are read
assert TableGroupCacheManager.get_table_group(master_table_number=0, originating_centre=0, originating_subcentre=0,
                                              master_table_version=33, local_table_version=0,
                                              normalize=False) is default_group
try:
    TableGroupCacheManager.get_table_group(master_table_number=0, originating_centre=0, originating_subcentre=0,
                                           master_table_version=99, local_table_version=0, normalize=False)
except IOError:
    pass
else:
    raise AssertionError('tables of version 99 found')
try:
    TableGroupCacheManager.get_table_group(master_table_number=0, originating_centre=98, originating_subcentre=9,
                                           master_table_version=33, local_table_version=1, normalize=False)
except IOError:
    pass
else:
    raise AssertionError('local tables 98_9 found')

print('demo 4 OK')
