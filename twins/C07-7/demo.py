import os, sys; sys.path.insert(0, os.getcwd())
"""
Differential demonstration for refactor 7 (CoderState: the per-subset reset of the
operator / bitmap bookkeeping and the "link the next bitmapped descriptor" step).

Part 1 drives CoderState directly: every field is made dirty, then the constructor and
switch_subset_context must leave exactly the values listed here by hand; add_bitmap_link
and Coder.process_bitmapped_descriptor must consume the same cursor and write the same link.

Part 2 builds messages by hand (several subsets, a different bitmap in each subset, templates
whose tail leaves every operator "open": 201, 202, 203, 204, 206, 207, 208, 221, 222 with the
run of class 33 still open, a bitmap definition that is still counting, a bitmap kept for
reuse) and compares what the library decodes / encodes with a small reference model written
here (REFERENCE MODEL below) that knows nothing about the library.
"""
import itertools
import json
import math

from pybufrkit.coder import CoderState, Coder, BSRModifier
from pybufrkit.decoder import Decoder
from pybufrkit.encoder import Encoder
from pybufrkit.renderer import NestedJsonRenderer
from pybufrkit.errors import PyBufrKitError
from pybufrkit.descriptors import ElementDescriptor, MarkerDescriptor, OperatorDescriptor

N_CHECKS = [0]


def check(cond, what):
    N_CHECKS[0] += 1
    if not cond:
        print('FAILED: {}'.format(what))
        sys.exit(1)


# ---------------------------------------------------------------------------------------
# REFERENCE MODEL
# ---------------------------------------------------------------------------------------
# Table B as far as the demonstration needs it: id -> (nbits, scale, refval, kind)
# kind: N numeric, C code / flag table, S string
TABLE_B = {
    1001: (7, 0, 0, 'N'), 1002: (10, 0, 0, 'N'), 1015: (160, 0, 0, 'S'),
    4001: (12, 0, 0, 'N'), 4002: (4, 0, 0, 'N'), 4003: (6, 0, 0, 'N'),
    4004: (5, 0, 0, 'N'), 4005: (6, 0, 0, 'N'),
    10004: (14, -1, 0, 'N'), 11001: (9, 0, 0, 'N'), 11002: (12, 1, 0, 'N'),
    12001: (12, 1, 0, 'N'),
    8023: (6, 0, 0, 'C'), 8024: (6, 0, 0, 'C'),
    31000: (1, 0, 0, 'N'), 31001: (8, 0, 0, 'N'), 31002: (16, 0, 0, 'N'),
    31021: (6, 0, 0, 'C'), 31031: (1, 0, 0, 'C'),
    33007: (7, 0, 0, 'N'),
}
TABLE_D = {
    301001: [1001, 1002],
    301011: [4001, 4002, 4003],
    301012: [4004, 4005],
}
MARKER_PREFIX = {223255: 'T', 224255: 'F', 225255: 'D', 232255: 'R'}
MARKER_KIND = {223255: 'SUB', 224255: 'FOS', 225255: 'DIF', 232255: 'REP'}


def parse(ids):
    """Unexpanded descriptors -> tree of ('E', id) / ('O', id) / ('S', id, members) /
    ('R', id, n, factor_id or None, members)"""
    ids = list(ids)
    out = []
    while ids:
        i = ids.pop(0)
        f = i // 100000
        if f == 0:
            out.append(('E', i))
        elif f == 2:
            out.append(('O', i))
        elif f == 3:
            out.append(('S', i, parse(TABLE_D[i])))
        else:
            x, y = i // 1000 % 100, i % 1000
            factor = ids.pop(0) if y == 0 else None
            members, ids = ids[:x], ids[x:]
            out.append(('R', i, y, factor, parse(members)))
    return out


class Model(object):
    """
    One subset. `bits` are the values the 031031 take (in order), `counts` the values of the
    delayed replication factors (in order). All other values are invented here.
    """

    def __init__(self, ids, bits, counts, seed):
        self.bits, self.counts, self.seed = list(bits), list(counts), seed
        self.slots = []  # (label, nbits, value, tolerance)
        self.kinds = []  # 'E' exact element, or something else
        self.ids = []
        self.links = {}
        self.attrs = {}  # owner index -> [(kind, attribute index, meaning index)]
        self.marker_facts = {}  # index -> (nbits, refval)
        # operators
        self.d201 = self.d202 = 0
        self.n203 = 0
        self.refvals = {}
        self.assoc = []
        self.n206 = 0
        self.y207 = 0
        self.n208 = 0
        self.n221 = 0
        # 222000: None, 'waiting', 'running'
        self.qa = None
        # bitmaps
        self.pending = None  # None, 'indicator', 'bits'
        self.n_bits = 0
        self.for_reuse = False
        self.boundary = 0
        self.back_refs = None
        self.reusable = None
        self.designated = None  # iterator over the indices the zero bits designate
        # hierarchical view
        self.v_qa = False
        self.v_fos = self.v_dif = False
        self.m_assoc = self.m_fos = self.m_dif = None
        self.walk(parse(ids))

    # -- values
    def put(self, label, nbits, kind, id_, value=None, scale=0, refval=0, numeric=True):
        j = len(self.slots)
        tolerance = 0
        if value is None:
            if numeric:
                raw = (7 * j + 3 * self.seed + 1) % (2 ** nbits - 1)
                value = raw + refval
                if scale != 0:
                    value = value / 10.0 ** scale
                    tolerance = 0.5 / 10.0 ** scale
            else:
                value = ('%d%d' % (j, self.seed))[-(nbits // 8):].ljust(nbits // 8).encode('ascii')
        self.slots.append((label, nbits, value, tolerance))
        self.kinds.append(kind)
        self.ids.append(id_)
        return j

    # -- bitmaps
    def finish_bitmap(self):
        bitmap = [s[2] for s in self.slots[-self.n_bits:]]
        if self.for_reuse:
            self.reusable = bitmap
        self.designate(bitmap)
        self.pending = None

    def designate(self, bitmap):
        if not self.back_refs:
            exact = [j for j in range(self.boundary) if self.kinds[j] == 'E']
            self.back_refs = exact[len(exact) - len(bitmap):] if len(bitmap) <= len(exact) else exact
        assert len(self.back_refs) == len(bitmap), 'the demonstration only builds well formed messages'
        self.designated = iter([j for j, bit in zip(self.back_refs, bitmap) if bit == 0])

    def link(self):
        owner = next(self.designated)
        self.links[len(self.slots)] = owner
        return owner

    # -- walking
    def walk(self, members):
        for m in members:
            if self.n221:
                self.n221 -= 1
                if m[0] == 'E' and not (1 <= m[1] // 1000 % 100 <= 9 or m[1] // 1000 % 100 == 31):
                    continue
            if self.n203 and m[0] == 'E':
                self.refvals[m[1]] = v = -(len(self.slots) + 1)
                self.put('%06d' % m[1], self.n203, 'E', m[1], value=v)
                continue
            if self.n206:
                self.put('S%05d' % m[1], self.n206, 'skipped', m[1])
                self.n206 = 0
                continue
            if self.pending == 'indicator':
                if m[1] == 237000:
                    self.pending = None
                else:
                    self.for_reuse = m[1] == 236000
                    self.pending, self.n_bits = 'bits', 0
            elif self.pending == 'bits':
                if m[1] == 31031:
                    self.n_bits += 1
                elif self.n_bits:
                    self.finish_bitmap()
            if m[0] == 'E':
                self.element(m[1])
            elif m[0] == 'O':
                self.operator(m[1])
            elif m[0] == 'S':
                self.walk(m[2])
            else:
                n = m[2]
                if m[3] is not None:
                    n = self.counts.pop(0)
                    self.element(m[3], value=n)
                for _ in range(n):
                    self.walk(m[4])

    def element(self, id_, value=None, marker=None, owner=None):
        nbits, scale, refval, kind = TABLE_B[id_]
        x = id_ // 1000 % 100
        if id_ == 31031 and marker is None:
            value = self.bits.pop(0)
        has_assoc = bool(self.assoc) and x != 31
        if has_assoc:
            a = self.put('A%05d' % id_, sum(self.assoc), 'assoc', id_)
        if marker is None:
            if x == 33:
                if self.qa == 'waiting':
                    self.qa = 'running'
                if self.qa == 'running':
                    self.link()
            elif self.qa == 'running':
                self.qa = None
        else:
            if self.qa == 'running':
                self.qa = None
            if marker == 225255:
                refval, nbits = -2 ** nbits, nbits + 1
        label = '%06d' % id_ if marker is None else '%s%05d' % (MARKER_PREFIX[marker], id_)
        if kind == 'S':
            j = self.put(label, (self.n208 or nbits // 8) * 8, 'E' if marker is None else 'marker', id_, numeric=False)
        elif kind == 'C':
            j = self.put(label, nbits, 'E' if marker is None else 'marker', id_, value=value)
        else:
            nbits = nbits + self.d201 + (10 * self.y207 + 2) // 3
            scale = scale + self.d202 + self.y207
            refval = self.refvals.get(id_, refval) * 10 ** self.y207
            j = self.put(label, nbits, 'E' if marker is None else 'marker', id_,
                         value=value, scale=scale, refval=refval)
        if marker is not None:
            self.marker_facts[j] = (nbits, refval)
            return j
        # the hierarchical view
        if has_assoc:
            self.attrs.setdefault(j, []).append(('ASSOC', a, self.m_assoc))
        elif x == 33 and self.v_qa:
            if j in self.links:
                self.attrs.setdefault(self.links[j], []).append(('QA', j, None))
            else:
                self.v_qa = False
        elif id_ == 31021 and self.assoc:
            self.m_assoc = j
        elif id_ == 8023 and self.v_fos:
            self.m_fos, self.v_fos = j, False
        elif id_ == 8024 and self.v_dif:
            self.m_dif, self.v_dif = j, False
        return j

    def operator(self, id_):
        code, operand = id_ // 1000, id_ % 1000
        if code == 201:
            self.d201 = operand - 128 if operand else 0
        elif code == 202:
            self.d202 = operand - 128 if operand else 0
        elif code == 203:
            self.n203 = 0 if operand == 255 else operand
            if operand == 0:
                self.refvals = {}
        elif code == 204:
            if operand:
                self.assoc.append(operand)
            else:
                self.assoc.pop()
        elif code == 206:
            self.n206 = operand
        elif code == 207:
            self.y207 = operand
        elif code == 208:
            self.n208 = operand
        elif code == 221:
            self.n221 = operand
        elif code in (222, 223, 224, 225, 232):
            if code != 222:
                self.v_qa = False
            if operand == 0:
                self.pending = 'indicator'
                self.boundary = len(self.slots)
                self.put('%06d' % id_, 0, 'op', id_, value=0)
                if code == 222:
                    self.qa = 'waiting'
                    self.v_qa = True
                elif code == 224:
                    self.v_fos = True
                elif code == 225:
                    self.v_dif = True
            else:
                assert not self.assoc, 'the demonstration does not put markers under 204YYY'
                owner = self.link()
                j = self.element(self.ids[owner], marker=id_)
                meaning = {224255: self.m_fos, 225255: self.m_dif}.get(id_)
                self.attrs.setdefault(owner, []).append((MARKER_KIND[id_], j, meaning))
        elif code == 235:
            self.v_qa = False
            self.back_refs = self.reusable = None
        elif code == 236:
            self.put('%06d' % id_, 0, 'op', id_, value=0)
        elif code == 237:
            if operand == 0:
                assert self.reusable is not None
                self.designate(self.reusable)
            else:
                self.reusable = None
            self.put('%06d' % id_, 0, 'op', id_, value=0)
        else:
            raise AssertionError(id_)


# ---------------------------------------------------------------------------------------
# Library side
# ---------------------------------------------------------------------------------------
NODE_KIND = {'AssociatedFieldNode': 'ASSOC', 'QualityInfoNode': 'QA', 'SubstitutionNode': 'SUB',
             'FirstOrderStatsNode': 'FOS', 'DifferenceStatsNode': 'DIF', 'ReplacementNode': 'REP'}


def attrs_of_nodes(nodes, out):
    for node in nodes:
        if hasattr(node, 'factor'):
            attrs_of_nodes([node.factor], out)
        if hasattr(node, 'members'):
            attrs_of_nodes(node.members, out)
        # The nodes of the marker operators are met here as well, what they carry is their meaning
        if hasattr(node, 'attributes') and type(node).__name__ not in NODE_KIND:
            out[node.index] = [
                (NODE_KIND[type(a).__name__], a.index,
                 a.attributes[0].index if hasattr(a, 'attributes') else None)
                for a in node.attributes]
            for a in node.attributes:
                check(len(getattr(a, 'attributes', [])) <= 1, 'an attribute has at most its meaning')
    return out


def rendered_attributes(rendered, out):
    """Document order list of (id, value, [(id, value, [(id, value)])]) of the rendered nodes with attributes"""
    for x in rendered:
        if isinstance(x, list):
            rendered_attributes(x, out)
            continue
        if 'factor' in x:
            rendered_attributes([x['factor']], out)
        if 'members' in x:
            rendered_attributes(x['members'], out)
        # The nodes of the marker operators are met here as well, what they carry is their meaning
        if 'attributes' in x and x['id'][0].isdigit():
            out.append((x['id'], x['value'], [
                (a['id'], a['value'], [(b['id'], b['value']) for b in a.get('attributes', [])])
                for a in x['attributes']]))
    return out


def same_value(got, slot):
    label, nbits, value, tolerance = slot
    if isinstance(value, bytes) or value is None or got is None:
        return got == value
    return abs(got - value) <= tolerance


def message_json(ids, models, compressed):
    return [["BUFR", 0, 4],
            [22, 0, 89, 0, 0, False, "0000000", 0, 2, 0, 13, 0, 2007, 11, 21, 12, 0, 0],
            [0, "00000000", len(models), True, compressed, "000000", list(ids)],
            [0, "00000000", [[s[2] for s in m.slots] for m in models]],
            ["7777"]]


def run_case(name, ids, per_subset, compressed=False):
    """per_subset: list of (bits, counts)"""
    models = [Model(ids, bits, counts, seed) for seed, (bits, counts) in enumerate(per_subset)]
    js = message_json(ids, models, compressed)
    for cache in (None, 10):
        encoder = Encoder(compiled_template_cache_max=cache)
        decoder = Decoder(compiled_template_cache_max=cache)
        # twice: the second time the compiled template comes out of the cache
        for _ in range(2 if cache else 1):
            encoded = encoder.process(json.loads(json.dumps(js, default=lambda b: b.decode('ascii'))))
            td = encoded.template_data.value
            check(td.bitmap_links_all_subsets == [m.links for m in models],
                  '{}: encoder links {} != {}'.format(name, td.bitmap_links_all_subsets, [m.links for m in models]))
            decoded = decoder.process(encoded.serialized_bytes)
            td = decoded.template_data.value
            check(td.bitmap_links_all_subsets == [m.links for m in models],
                  '{}: decoder links {} != {}'.format(name, td.bitmap_links_all_subsets, [m.links for m in models]))
            check(len(td.decoded_descriptors_all_subsets) == len(models), name + ': number of subsets')
            if not compressed:
                nbits = sum(s[1] for m in models for s in m.slots)
                length = [p.value for p in decoded.sections[-2] if p.name == 'section_length'][0]
                check(length == 4 + int(math.ceil(nbits / 8.0)),
                      '{}: section 4 is {} octets for {} bits'.format(name, length, nbits))
            for k, m in enumerate(models):
                descriptors = td.decoded_descriptors_all_subsets[k]
                values = td.decoded_values_all_subsets[k]
                check([str(d) for d in descriptors] == [s[0] for s in m.slots],
                      '{}: subset {} descriptors {} != {}'.format(name, k, descriptors, [s[0] for s in m.slots]))
                check(len(values) == len(m.slots) and all(same_value(v, s) for v, s in zip(values, m.slots)),
                      '{}: subset {} values {} != {}'.format(name, k, values, [s[2] for s in m.slots]))
                for j, (w, r) in m.marker_facts.items():
                    d = descriptors[j]
                    check(type(d) is MarkerDescriptor and d.id == m.ids[j], name + ': marker descriptor')
                    if str(d).startswith('D'):
                        owner = descriptors[m.links[j]]
                        check((d.nbits, d.refval) == (owner.nbits + 1, -2 ** owner.nbits),
                              name + ': 225255 is coded with width+1 and reference -2^width')
                check(attrs_of_nodes(td.decoded_nodes_all_subsets[k], {}) == m.attrs,
                      '{}: subset {} attributes {} != {}'.format(
                          name, k, attrs_of_nodes(td.decoded_nodes_all_subsets[k], {}), m.attrs))
            # The hierarchical view as rendered
            rendered = NestedJsonRenderer().render(decoded)[-2][-1]['value']
            for k, m in enumerate(models):
                expected = []
                for owner in sorted(m.attrs):
                    expected.append((m.slots[owner][0], owner, [
                        (m.slots[a][0], a, [] if mm is None else [(m.slots[mm][0], mm)])
                        for _, a, mm in m.attrs[owner]]))
                got = rendered_attributes(rendered[k], [])
                check(len(got) == len(expected), '{}: rendered subset {}: {} != {}'.format(name, k, got, expected))
                for (gid, gv, gattrs), (eid, ej, eattrs) in zip(got, expected):
                    ok = gid == eid and same_value(gv, m.slots[ej]) and len(gattrs) == len(eattrs)
                    for (aid, av, ameaning), (bid, bj, bmeaning) in zip(gattrs, eattrs):
                        ok = ok and aid == bid and same_value(av, m.slots[bj])
                        ok = ok and [x[0] for x in ameaning] == [x[0] for x in bmeaning]
                        ok = ok and all(same_value(x[1], m.slots[y[1]]) for x, y in zip(ameaning, bmeaning))
                    check(ok, '{}: rendered subset {}: {} != {}'.format(name, k, got, expected))
    return models


# ---------------------------------------------------------------------------------------
# Part 1: CoderState directly
# ---------------------------------------------------------------------------------------
def fresh_fields():
    """What a subset starts from, written down by hand"""
    return dict(
        idx_value=0, new_refvals={},
        nbits_offset=0, scale_offset=0, nbits_of_new_refval=0, nbits_of_associated=[],
        nbits_of_skipped_local_descriptor=0,
        bsr_modifier=(0, 0, 1), new_nbytes=0, data_not_present_count=0, status_qa_info_follows=0,
        bitmap=None, bitmapped_descriptors=None, bitmap_definition_state=0,
        most_recent_bitmap_is_for_reuse=False, n_031031=0, next_bitmapped_descriptor=None,
        back_reference_boundary=0, back_referenced_descriptors=None)


def dirty(state):
    state.idx_value = 17
    state.new_refvals = {12001: -5}
    state.nbits_offset, state.scale_offset = 3, -2
    state.nbits_of_new_refval = 12
    state.nbits_of_associated.extend([4, 6])
    state.nbits_of_skipped_local_descriptor = 9
    state.bsr_modifier = BSRModifier(7, 2, 100)
    state.new_nbytes = 5
    state.data_not_present_count = 4
    state.status_qa_info_follows = 2
    state.bitmap = [0, 1]
    state.bitmapped_descriptors = [(0, None)]
    state.bitmap_definition_state = 5
    state.most_recent_bitmap_is_for_reuse = True
    state.n_031031 = 2
    state.next_bitmapped_descriptor = lambda: (0, None)
    state.back_reference_boundary = 6
    state.back_referenced_descriptors = [(0, None), (1, None)]


def check_fresh(state, what, extra):
    expected = fresh_fields()
    expected.update(extra)
    got = vars(state)
    # nothing but the fields of the state, and all of them
    others = {'is_compressed', 'n_subsets', 'idx_subset', 'decoded_descriptors_all_subsets',
              'bitmap_links_all_subsets', 'decoded_values_all_subsets', 'decoded_descriptors',
              'bitmap_links', 'decoded_values'}
    check(set(got) == set(expected) | others, '{}: fields {}'.format(what, sorted(set(got) ^ (set(expected) | others))))
    for k, v in expected.items():
        check(got[k] == v and type(got[k]) is type(v) or (k == 'bsr_modifier' and got[k] == v),
              '{}: {} is {!r}, expected {!r}'.format(what, k, got[k], v))
    check(isinstance(state.bsr_modifier, BSRModifier), what + ': bsr_modifier type')


def part1():
    for compressed in (False, True):
        for n_subsets in (0, 1, 3):
            state = CoderState(compressed, n_subsets)
            check_fresh(state, 'constructor', dict(idx_subset=0))
            check(state.is_compressed is compressed and state.n_subsets == n_subsets, 'constructor arguments')
            if n_subsets:
                check(state.decoded_descriptors is state.decoded_descriptors_all_subsets[0], 'constructor: descriptors')
                check(state.bitmap_links is state.bitmap_links_all_subsets[0], 'constructor: links')
                check(state.decoded_values is state.decoded_values_all_subsets[0], 'constructor: values')
            else:
                check(state.decoded_descriptors == [] and state.bitmap_links == [] and state.decoded_values == [],
                      'constructor: no subset')
            for idx in range(n_subsets):
                dirty(state)
                old_assoc, old_refvals = state.nbits_of_associated, state.new_refvals
                state.switch_subset_context(idx)
                check_fresh(state, 'switch_subset_context', dict(idx_subset=idx))
                check(state.nbits_of_associated is not old_assoc and state.new_refvals is not old_refvals,
                      'fresh containers')
                check(state.decoded_descriptors is state.decoded_descriptors_all_subsets[idx], 'switch: descriptors')
                check(state.bitmap_links is state.bitmap_links_all_subsets[idx], 'switch: links')
                check(state.decoded_values is state.decoded_values_all_subsets[idx], 'switch: values')
            if n_subsets == 0:
                try:
                    state.switch_subset_context(0)
                    check(False, 'switch_subset_context without subsets')
                except IndexError:
                    check(state.idx_subset == 0 and state.new_refvals == {}, 'state after the failure')

    # Values given to the encoder are kept
    given = [[1, 2], [3, 4]]
    state = CoderState(False, 2, given)
    check(state.decoded_values_all_subsets is given and state.decoded_values is given[0], 'values of the encoder')
    check_fresh(state, 'constructor with values', dict(idx_subset=0))

    # The cursor: add_bitmap_link and process_bitmapped_descriptor take turns on the same cursor
    def element(id_, nbits):
        return ElementDescriptor(id_, 'E%d' % id_, 'K', 1, 5, nbits, 'C', 0, 3)

    class Recorder(Coder):
        """Only records what process_element_descriptor is asked to do"""

        def __init__(self):
            self.calls = []

        def process_element_descriptor(self, state, bit_operator, descriptor):
            self.calls.append((bit_operator, descriptor))
            state.decoded_descriptors.append(descriptor)

    for compressed in (False, True):
        state = CoderState(compressed, 2)
        descriptors = [element(12001, 12), element(12002, 10), element(12003, 8), element(12004, 6)]
        state.decoded_descriptors.extend(descriptors)
        state.back_reference_boundary = 4
        state.build_bitmapped_descriptors([0, 1, 0, 0])
        coder = Recorder()
        state.add_bitmap_link()  # -> 0
        check(state.bitmap_links == {4: 0}, 'add_bitmap_link writes at the current length')
        state.decoded_descriptors.append(element(33007, 7))
        for marker_id in (225255, 224255):
            Coder.process_bitmapped_descriptor(coder, state, 'bits', OperatorDescriptor(marker_id))
        check(state.bitmap_links == {4: 0, 5: 2, 6: 3}, 'links {}'.format(state.bitmap_links))
        check(state.bitmap_links_all_subsets[0] is state.bitmap_links, 'links of the subset')
        check((state.bitmap_links_all_subsets[1] == {4: 0, 5: 2, 6: 3}) is compressed, 'links shared when compressed')
        (op1, d1), (op2, d2) = coder.calls
        check(op1 == op2 == 'bits', 'bit operator passed on')
        check(type(d1) is MarkerDescriptor and type(d2) is MarkerDescriptor, 'marker descriptors')
        check((d1.id, d1.marker_id, d1.nbits, d1.refval, d1.scale, d1.unit, d1.name) ==
              (12003, 225255, 9, -256, 1, 'K', 'E12003'), 'difference statistics of 012003')
        check((d2.id, d2.marker_id, d2.nbits, d2.refval, d2.scale, d2.unit, d2.name) ==
              (12004, 224255, 6, 5, 1, 'K', 'E12004'), 'first order statistics of 012004')
        check(str(d1) == 'D12003' and str(d2) == 'F12004', 'marker names')
        # exhausted cursor: same exception from both, nothing is written
        for attempt in (state.add_bitmap_link,
                        lambda: Coder.process_bitmapped_descriptor(coder, state, 'bits', OperatorDescriptor(223255))):
            try:
                attempt()
                check(False, 'exhausted cursor')
            except StopIteration:
                check(state.bitmap_links == {4: 0, 5: 2, 6: 3} and len(coder.calls) == 2, 'nothing written')
        # no cursor at all
        state = CoderState(compressed, 1)
        for attempt in (state.add_bitmap_link,
                        lambda: Coder.process_bitmapped_descriptor(coder, state, 'bits', OperatorDescriptor(223255))):
            try:
                attempt()
                check(False, 'no cursor')
            except TypeError:
                check(state.bitmap_links == {} and len(coder.calls) == 2, 'nothing written')
        # recall / cancel still act on the bitmap kept for reuse only
        try:
            state.recall_bitmap()
            check(False, 'recall without bitmap')
        except PyBufrKitError:
            pass
        state.decoded_descriptors.extend(descriptors)
        state.back_reference_boundary = 4
        state.bitmap = [1, 1, 0, 1]
        check(state.recall_bitmap() is state.bitmap, 'recall returns the bitmap')
        check(state.bitmapped_descriptors == [(2, descriptors[2])], 'recalled bitmap designates 012003')
        state.cancel_bitmap()
        check(state.bitmap is None and state.bitmapped_descriptors == [(2, descriptors[2])] and
              state.back_referenced_descriptors == list(enumerate(descriptors)), 'cancel_bitmap')
        state.add_bitmap_link()
        check(state.bitmap_links == {4: 2}, 'cursor survives cancel_bitmap')
        state.cancel_all_back_references()
        check(state.bitmap is None and state.bitmapped_descriptors is None and
              state.back_referenced_descriptors is None and state.back_reference_boundary == 4 and
              state.next_bitmapped_descriptor is not None, 'cancel_all_back_references')


# ---------------------------------------------------------------------------------------
# Part 2: messages
# ---------------------------------------------------------------------------------------
def part2():
    base = [301001, 12001, 10004, 11001, 11002]  # six elements
    all6 = list(itertools.product((0, 1), repeat=6))

    # A different bitmap in every subset; 222000 whose run of class 33 is still open at the end of the subset
    for patterns in (all6[0:3], all6[21:24], all6[40:44], [all6[63], all6[0], all6[62]]):
        # as many 033007 as there are zero bits: a delayed replication for them as well
        ids = base + [222000, 101000, 31001, 31031, 101000, 31001, 33007]
        run_case('qa open at the end', ids,
                 [(p, [6, p.count(0)]) for p in patterns])

    # All the operators are left open by the tail of the template; markers of every kind share one bitmap
    # The template starts with what shows a left over 221YYY / run of class 33 (033007), 201 / 202 / 207 / 203
    # (012001) and 208 (001015)
    ids = ([33007, 12001, 1015] + base +
           [224000, 236000, 101006, 31031, 8023, 224255, 224255,
            225000, 237000, 8024, 225255, 225255,
            223000, 237000, 223255,
            232000, 237000, 232255, 232255,
            # from here on nothing is closed
            203010, 12001, 203255, 12001,
            204007, 31021, 12001,
            201130, 202129, 207002, 208003, 12001, 1015,
            222000, 236000, 101006, 31031, 33007,
            221004, 12001, 203010, 206011])
    for patterns in ([(0, 1, 0, 1, 1, 1), (1, 1, 0, 0, 1, 1)],
                     [(1, 0, 1, 1, 0, 1), (0, 1, 1, 1, 1, 0), (1, 0, 0, 1, 1, 1)]):
        # the second bitmap (for the 033007) is over the same six elements: no 235000 in between
        run_case('everything left open', ids,
                 [(p + (1, 1, 1, 1, 1, 0), []) for p in patterns])

    # A bitmap definition that is still counting when the subset ends, 235000, redefinition
    ids = base + [224000, 101003, 31031, 8023, 224255,
                  235000, 12001, 11001,
                  223000, 236000, 101002, 31031, 223255,
                  232000, 101002, 31031]
    for b1, b2, b3 in (((1, 0, 1), (0, 1), (0, 0)), ((0, 1, 1), (1, 0), (1, 1))):
        run_case('definition open at the end', ids, [(b1 + b2 + b3, []), (b1[::-1] + b2[::-1] + b3, [])])

    # Compressed: the same structure for every subset, only one processing of the template
    ids = base + [222000, 236000, 101006, 31031, 33007, 33007,
                  224000, 237000, 8023, 224255, 224255,
                  225000, 237000, 8024, 225255, 225255, 237255]
    for p in ((0, 1, 1, 0, 1, 1), (1, 1, 1, 0, 0, 1)):
        run_case('compressed', ids, [(p, []), (p, []), (p, [])], compressed=True)
        run_case('same uncompressed', ids, [(p, []), (p[::-1], [])])


if __name__ == '__main__':
    part1()
    part2()
    print('OK ({} checks)'.format(N_CHECKS[0]))
