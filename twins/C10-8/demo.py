import os, sys; sys.path.insert(0, os.getcwd())
"""
Differential demonstration for refactor 8 (Encoder.process_template_data and the
uncompressed writers of the Encoder).

The expected octets of the hand-made messages are packed here bit by bit from
raw field values written down by hand (Table B of master table version 25:
width, scale and reference value of each element are stated in TEMPLATE below),
without any code of the library. The expected subsets are picked with plain
Python. The sample files give the expected octets of the uncompressed samples.

Branches of the refactored code that are reached:
  * process_template_data: plain template and compiled template, compressed
    (one pass) and uncompressed (one pass per subset, the cursor into the values
    starts again at every subset), no subset at all,
  * numeric: missing / scale 0 (no scaling) / scale != 0 / reference value 0 /
    reference value != 0 / negative scale,
  * string: missing / short (padded) / exact / too long (cut) / width changed by 208,
  * code and flag: missing / present; also through 204 (associated field) and
    206 (skipped local descriptor) of the samples,
  * new reference value (203): positive, negative, zero, then used by the element;
    missing one refused (AssertionError),
  * values that run out (IndexError), subsets that run out (IndexError).
"""
import copy
import logging

logging.disable(logging.CRITICAL)

from pybufrkit.decoder import Decoder
from pybufrkit.encoder import Encoder

DATA = os.path.join('tests', 'data')
N_CHECKS = [0]


def check(cond, what):
    N_CHECKS[0] += 1
    if not cond:
        print('FAILED: {}'.format(what))
        sys.exit(1)


def expect_raise(exc_type, func, what):
    N_CHECKS[0] += 1
    try:
        func()
    except Exception as e:
        if type(e) is not exc_type:
            print('FAILED: {}: {} instead of {}'.format(what, type(e).__name__, exc_type.__name__))
            sys.exit(1)
    else:
        print('FAILED: {}: no {}'.format(what, exc_type.__name__))
        sys.exit(1)


def u(bs):
    n = 0
    for b in bytearray(bs):
        n = n * 256 + b
    return n


def read(name):
    with open(os.path.join(DATA, name), 'rb') as ins:
        octets = ins.read()
    start = octets.find(b'BUFR')
    return octets[start:start + u(octets[start + 4:start + 7])]


# ---------------------------------------------------------------------------
# A bit packer and a message builder that owe nothing to the library
# ---------------------------------------------------------------------------
def bits_uint(raw, nbits):
    assert 0 <= raw < 2 ** nbits, (raw, nbits)
    return '{:0{}b}'.format(raw, nbits) if nbits else ''


def bits_text(octets):
    return ''.join('{:08b}'.format(b) for b in bytearray(octets))


def bits_to_octets(bits):
    bits += '0' * (-len(bits) % 8)
    return bytes(bytearray(int(bits[i:i + 8], 2) for i in range(0, len(bits), 8)))


def octets_of(n, width):
    return bytes(bytearray((n >> (8 * i)) & 0xff for i in range(width - 1, -1, -1)))


SECTION1 = [22, 0, 0, 0, 0, False, '0000000', 0, 0, 0, 25, 0, 2020, 1, 2, 3, 4, 5]
SECTION1_OCTETS = (octets_of(22, 3) + b'\x00' + octets_of(0, 2) + octets_of(0, 2) + b'\x00' +
                   b'\x00' + b'\x00\x00\x00' + octets_of(25, 1) + b'\x00' +
                   octets_of(2020, 2) + b'\x01\x02\x03\x04\x05')


def fxy(descriptor_id):
    s = '{:06d}'.format(descriptor_id)
    return octets_of((int(s[0]) << 14) + (int(s[1:3]) << 8) + int(s[3:]), 2)


def expected_message(descriptors, n_subsets, compressed, data_bits):
    section3 = (b'\x00' + octets_of(n_subsets, 2) + octets_of(0x80 | (0x40 if compressed else 0), 1) +
                b''.join(fxy(d) for d in descriptors))
    section3 = octets_of(len(section3) + 3, 3) + section3
    section4 = b'\x00' + bits_to_octets(data_bits)
    section4 = octets_of(len(section4) + 3, 3) + section4
    body = SECTION1_OCTETS + section3 + section4 + b'7777'
    return b'BUFR' + octets_of(len(body) + 8, 3) + b'\x04' + body


def json_message(descriptors, subsets, compressed=False, n_subsets=None):
    return [
        ['BUFR', 0, 4],
        list(SECTION1),
        [0, '00000000', len(subsets) if n_subsets is None else n_subsets, True, compressed, '000000',
         list(descriptors)],
        [0, '00000000', copy.deepcopy(subsets)],
        ['7777'],
    ]


# ---------------------------------------------------------------------------
# 1. A hand-made uncompressed message that visits every writer
# ---------------------------------------------------------------------------
# descriptor, kind, width in bits -- scale and reference value in the comment
TEMPLATE = [
    (1001, 'num', 7),     # WMO block number, scale 0, reference 0: neither scaled nor shifted
    (1015, 'str', 160),   # station or site name, 20 characters
    (2001, 'code', 2),    # type of station, code table
    (12101, 'num', 16),   # temperature, scale 2, reference 0
    (7030, 'num', 17),    # height of station ground, scale 1, reference -4000
    (7001, 'num', 15),    # height of station, scale 0, reference -400
    (10004, 'num', 14),   # pressure, scale -1, reference 0
    (203014, None, 0),    # new reference values of 14 bits follow
    (7030, 'refval', 14),
    (203255, None, 0),    # end of the definition
    (7030, 'num', 17),    # scale 1, reference as defined in the data
    (203000, None, 0),    # back to the table
    (7030, 'num', 17),    # scale 1, reference -4000 again
    (208003, None, 0),    # character fields of 3 characters from here
    (1015, 'str', 24),
    (208000, None, 0),
    (20003, 'code', 9),   # present weather, code table
]
DESCRIPTORS = [d for d, _, _ in TEMPLATE]
FIELDS = [(kind, nbits) for _, kind, nbits in TEMPLATE if kind]

# value given to the encoder, raw field expected in the message
SUBSETS = [
    [(11, 11), ('PRAHA', b'PRAHA' + b' ' * 15), (1, 1), (273.15, 27315), (123.4, 5234), (-50, 350),
     (101320, 10132), (-5000, (1, 5000)), (100.0, 6000), (100.0, 5000), ('ABCDEF', b'ABC'), (508, 508)],
    [(None, 127), (None, b'\xff' * 20), (None, 3), (None, 65535), (None, 131071), (None, 32767),
     (None, 16383), (0, (0, 0)), (None, 131071), (None, 131071), (None, b'\xff' * 3), (None, 511)],
    [(99, 99), ('ABCDEFGHIJKLMNOPQRST', b'ABCDEFGHIJKLMNOPQRST'), (0, 0), (0.01, 1), (-400.0, 0), (-400, 0),
     (10, 1), (8191, (0, 8191)), (900.0, 809), (900.0, 13000), ('XY', b'XY '), (0, 0)],
]


def subset_bits(subset):
    bits = ''
    for (kind, nbits), (_, raw) in zip(FIELDS, subset):
        if kind == 'str':
            assert len(raw) * 8 == nbits
            bits += bits_text(raw)
        elif kind == 'refval':
            sign, magnitude = raw
            bits += str(sign) + bits_uint(magnitude, nbits - 1)
        else:
            bits += bits_uint(raw, nbits)
    return bits


def values(subset):
    return [v for v, _ in subset]


def decoded(subset):
    """What a decoder gives back for a subset: for characters the octets of the field
    (cut or padded; all ones when missing), otherwise the value."""
    return [raw if kind == 'str' else v for (kind, _), (v, raw) in zip(FIELDS, subset)]


check(len(FIELDS) == len(SUBSETS[0]) == len(SUBSETS[1]) == len(SUBSETS[2]), 'demo tables are consistent')

decoder = Decoder()
ENCODERS = [('plain', Encoder()), ('compiled', Encoder(compiled_template_cache_max=10))]


def values_of(message):
    return [list(vs) for vs in message.template_data.value.decoded_values_all_subsets]


for label, encoder in ENCODERS:
    check(bool(encoder.compiled_template_manager) == (label == 'compiled'), 'kind of encoder')
    for chosen in ([0, 1, 2], [0], [1], [2], [2, 0], [1, 1, 0], []):
        subsets = [SUBSETS[i] for i in chosen]
        expected = expected_message(DESCRIPTORS, len(subsets), False, ''.join(subset_bits(s) for s in subsets))
        given = [values(s) for s in subsets]
        data = json_message(DESCRIPTORS, given)
        for _ in range(2):  # the second time the compiled template comes from the cache
            m = encoder.process(copy.deepcopy(data), wire_template_data=False)
            check(m.serialized_bytes == expected, '{}: hand-made message with subsets {}'.format(label, chosen))
        check(values_of(m) == given, '{}: values kept by the message'.format(label))
        check(len(m.template_data.value.decoded_descriptors_all_subsets) == len(subsets),
              '{}: descriptors kept by the message'.format(label))
        for ds in m.template_data.value.decoded_descriptors_all_subsets:
            check([d.id for d in ds] == [d for d, kind, _ in TEMPLATE if kind], '{}: descriptors in order'.format(label))
        check(m.template_data.value.is_compressed is False, 'compression flag of the template data')
        check(m.n_subsets.value == len(subsets), 'number of subsets')
        back = decoder.process(m.serialized_bytes, wire_template_data=False)
        got = values_of(back)
        check(len(got) == len(subsets), 'subsets decoded')
        for g, s in zip(got, subsets):
            check(len(g) == len(s), 'number of values decoded')
            for a, b in zip(g, decoded(s)):
                check(a == b or (isinstance(a, float) and b is not None and abs(a - b) < 1e-6),
                      'decoded value {!r} {!r}'.format(a, b))

    # Subsetting the hand-made message gives the message made of the chosen subsets
    full = decoder.process(
        expected_message(DESCRIPTORS, 3, False, ''.join(subset_bits(s) for s in SUBSETS)), wire_template_data=False)
    for indices in ([2, 0], [1], (1, 2, 1), [0, 1, 2], {0, 2}):
        wanted = sorted(set(indices))
        expected = expected_message(DESCRIPTORS, len(wanted), False, ''.join(subset_bits(SUBSETS[i]) for i in wanted))
        m = encoder.process(full.subset(indices), wire_template_data=False)
        check(m.serialized_bytes == expected, '{}: subset {} of the hand-made message'.format(label, indices))

    # Errors
    good = [values(s) for s in SUBSETS]
    short = copy.deepcopy(good)
    short[1] = short[1][:-1]
    expect_raise(IndexError, lambda: encoder.process(json_message(DESCRIPTORS, short)), 'a value too few')
    for k in (0, 3, 7):
        short = copy.deepcopy(good)
        short[2] = short[2][:k]
        expect_raise(IndexError, lambda: encoder.process(json_message(DESCRIPTORS, short)), 'values run out')
    expect_raise(IndexError, lambda: encoder.process(json_message(DESCRIPTORS, good[:2], n_subsets=3)),
                 'a subset too few')
    no_refval = copy.deepcopy(good)
    no_refval[0][7] = None
    expect_raise(AssertionError, lambda: encoder.process(json_message(DESCRIPTORS, no_refval)),
                 'missing new reference value')
    # more values or more subsets than needed are left alone
    longer = copy.deepcopy(good)
    longer[0].append(5)
    check(encoder.process(json_message(DESCRIPTORS, longer)).serialized_bytes ==
          expected_message(DESCRIPTORS, 3, False, ''.join(subset_bits(s) for s in SUBSETS)), 'a value too many')
    check(encoder.process(json_message(DESCRIPTORS, good, n_subsets=2)).serialized_bytes ==
          expected_message(DESCRIPTORS, 2, False, ''.join(subset_bits(s) for s in SUBSETS[:2])), 'a subset too many')

# With the root logger at DEBUG the values sit in lists that log every access:
# same octets (the records themselves are discarded here)
logging.root.setLevel(logging.DEBUG)
try:
    from pybufrkit.coder import AuditedList
    expected = expected_message(DESCRIPTORS, 3, False, ''.join(subset_bits(s) for s in SUBSETS))
    for label, encoder in ENCODERS:
        m = encoder.process(json_message(DESCRIPTORS, [values(s) for s in SUBSETS]), wire_template_data=False)
        check(m.serialized_bytes == expected, '{}: hand-made message with audited lists'.format(label))
        check(all(type(vs) is AuditedList for vs in m.template_data.value.decoded_values_all_subsets),
              'audited lists in use')
finally:
    logging.root.setLevel(logging.WARNING)

# ---------------------------------------------------------------------------
# 2. A hand-made compressed message (one pass through the template for all subsets)
# ---------------------------------------------------------------------------
CDESC = [1001, 2001]
# 001001: 11, 12, missing -> minimum 11, 2 bits of difference (1 bit would make the
#         difference 1 read as missing): 0, 1, missing (3)
# 002001: 1, 1, 1 -> 1, no difference
cbits = (bits_uint(11, 7) + bits_uint(2, 6) + bits_uint(0, 2) + bits_uint(1, 2) + bits_uint(3, 2) +
         bits_uint(1, 2) + bits_uint(0, 6))
cvalues = [[11, 1], [12, 1], [None, 1]]
for label, encoder in ENCODERS:
    m = encoder.process(json_message(CDESC, cvalues, compressed=True), wire_template_data=False)
    check(m.serialized_bytes == expected_message(CDESC, 3, True, cbits), '{}: hand-made compressed message'.format(label))
    check(m.template_data.value.is_compressed is True, 'compression flag of the template data')
    check(values_of(m) == cvalues, 'values kept')
    # subsets 0 and 1 only: minimum 11, 2 bits of difference (0, 1); then 1 without difference
    sub = decoder.process(m.serialized_bytes, wire_template_data=False).subset([1, 0])
    cbits2 = bits_uint(11, 7) + bits_uint(2, 6) + bits_uint(0, 2) + bits_uint(1, 2) + bits_uint(1, 2) + bits_uint(0, 6)
    check(encoder.process(sub, wire_template_data=False).serialized_bytes == expected_message(CDESC, 2, True, cbits2),
          '{}: subset of the compressed message'.format(label))
    # subset 2 only: all missing, no difference
    sub = decoder.process(m.serialized_bytes, wire_template_data=False).subset([2])
    cbits1 = bits_uint(127, 7) + bits_uint(0, 6) + bits_uint(1, 2) + bits_uint(0, 6)
    check(encoder.process(sub, wire_template_data=False).serialized_bytes == expected_message(CDESC, 1, True, cbits1),
          '{}: single subset of the compressed message'.format(label))
    # no subset: nothing to take a value from
    expect_raise(IndexError, lambda: encoder.process(json_message(CDESC, [], compressed=True)),
                 'compressed message without subsets')
    # no subset, uncompressed: the template is not applied at all
    check(encoder.process(json_message(CDESC, [])).serialized_bytes == expected_message(CDESC, 0, False, ''),
          '{}: uncompressed message without subsets'.format(label))

# ---------------------------------------------------------------------------
# 3. The samples: uncompressed ones come back octet for octet (associated fields,
#    skipped local descriptors, bitmaps, strings, delayed replications); the
#    compressed ones come back value for value
# ---------------------------------------------------------------------------
for name in ('contrived', 'b002_95', 'profiler_european', 'uegabe', 'rado_250', 'IUSK73_AMMC_182300'):
    octets = read(name + '.bufr')
    source = decoder.process(octets, wire_template_data=False)
    n = source.n_subsets.value
    check(not source.is_compressed.value, 'uncompressed sample')
    for label, encoder in ENCODERS:
        m = encoder.process(source.subset(range(n)), wire_template_data=False)
        if name == 'uegabe':
            # the sample carries a spare octet in one of its sections: value for value only
            back = decoder.process(m.serialized_bytes, wire_template_data=False)
            check(values_of(back) == values_of(source), '{} {}: sample comes back'.format(label, name))
        else:
            check(m.serialized_bytes == octets, '{} {}: sample comes back'.format(label, name))
        check(values_of(m) == values_of(source), '{} {}: values kept'.format(label, name))
        m.wire()

# two subsets, uncompressed, with different delayed replication factors
octets = read('contrived.bufr')
source = decoder.process(octets, wire_template_data=False)
all_values = values_of(source)
check(len(all_values) == 2 and all_values[0] != all_values[1], 'contrived: two different subsets')
for label, encoder in ENCODERS:
    for indices in ([0], [1], [1, 0], [0, 0, 1]):
        wanted = sorted(set(indices))
        m = encoder.process(source.subset(indices), wire_template_data=False)
        back = decoder.process(m.serialized_bytes, wire_template_data=False)
        check(values_of(back) == [all_values[i] for i in wanted], '{} contrived {}'.format(label, indices))
        check(back.n_subsets.value == len(wanted) and not back.is_compressed.value, 'contrived: header')
    # section 4 of the full message is the two subsets back to back: either subset
    # alone is a run of those bits
    whole = bits_text(octets)
    for i in (0, 1):
        m = encoder.process(source.subset([i]), wire_template_data=False)
        bs = m.serialized_bytes
        start4 = 8 + 22 + u(bs[30:33])
        nbits = (u(bs[start4:start4 + 3]) - 4) * 8
        run = bits_text(bs[start4 + 4:start4 + 4 + nbits // 8]).rstrip('0')
        check(run in whole, '{} contrived: bits of subset {} are bits of the sample'.format(label, i))

for name in ('207003', 'g2nd_208', 'jaso_214', 'ISMD01_OKPR', 'amv2_87'):
    source = decoder.process(read(name + '.bufr'), wire_template_data=False)
    n = source.n_subsets.value
    all_values = values_of(source)
    check(bool(source.is_compressed.value), 'compressed sample')
    for label, encoder in ENCODERS:
        for indices in (list(range(n)), [n - 1, 0], [n // 2]):
            wanted = sorted(set(indices))
            m = encoder.process(source.subset(indices), wire_template_data=False)
            back = decoder.process(m.serialized_bytes, wire_template_data=False)
            check(values_of(back) == [all_values[i] for i in wanted], '{} {} {}'.format(label, name, indices))
            check(back.n_subsets.value == len(wanted) and bool(back.is_compressed.value), 'header')

print('refactor 8 demo: {} checks passed'.format(N_CHECKS[0]))
