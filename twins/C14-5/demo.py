import os, sys; sys.path.insert(0, os.getcwd())
"""
Differential demonstration for refactor 5 (descriptor look-up of the tables).

Everything is observed through the public `lookup` methods of TableB / TableC /
TableR / TableD and of the table group, through `template_from_ids`,
`flat_member_ids` and through the decoder. The expectations are computed from
the JSON table files by a model written here, which shares no code with
pybufrkit.tables.
"""
import json
import random
import struct

import pybufrkit
assert os.path.dirname(os.path.dirname(os.path.abspath(pybufrkit.__file__))) == os.getcwd(), pybufrkit.__file__

from pybufrkit.tables import TableGroupCacheManager, BaseTable
from pybufrkit.descriptors import (ElementDescriptor, FixedReplicationDescriptor, DelayedReplicationDescriptor,
                                   OperatorDescriptor, SequenceDescriptor, UndefinedElementDescriptor,
                                   UndefinedSequenceDescriptor, BufrTemplate, flat_member_ids)
from pybufrkit.errors import PyBufrKitError, UnknownDescriptor
from pybufrkit.decoder import Decoder

TABLES_ROOT = os.path.join(os.getcwd(), 'pybufrkit', 'tables')
n_checks = 0


def check(cond, *what):
    global n_checks
    n_checks += 1
    if not cond:
        print('FAILED:', *what)
        sys.exit(1)


def raised(func, *args):
    try:
        func(*args)
    except Exception as e:
        return type(e), str(e)
    return None


def read_json(*parts):
    with open(os.path.join(TABLES_ROOT, *parts)) as ins:
        return json.load(ins)


# ----------------------------------------------------------------------------
# An independent model of the tables, made from the JSON files
# ----------------------------------------------------------------------------
class Node(object):
    def __init__(self, id_, member_ids):
        self.id, self.member_ids, self.refs = id_, [int(i) for i in member_ids], {}


def model_of(sn_dirs):
    """
    :param sn_dirs: the directories (WMO, then local if any) the tables are made of
    :return: (Table B fields by id, Table D nodes by id)
    """
    b, d = {}, {}
    for parts in sn_dirs:
        for k, fields in read_json(*(parts + ('TableB.json',))).items():
            b[int(k)] = fields
    for parts in sn_dirs:
        data = read_json(*(parts + ('TableD.json',)))
        nodes = dict((int(k), Node(int(k), v[1])) for k, v in data.items())
        d.update(nodes)
        # a sequence sees what is defined when its own file has been read, and keeps seeing that
        for node in nodes.values():
            for mid in node.member_ids:
                if mid >= 300000:
                    node.refs[mid] = d.get(mid)
    return b, d


def model_flat(node, memo):
    if node.id in memo and memo[node.id][0] is node:
        return memo[node.id][1]
    out = []
    for mid in node.member_ids:
        ref = node.refs.get(mid) if mid >= 300000 else None
        if ref is not None:
            out.extend(model_flat(ref, memo))
        else:
            out.append(mid)
    memo[node.id] = (node, out)
    return out


class ModelNoFactor(Exception):
    pass


def model_template(ids):
    """
    FM-94 ownership, written over positions in the flat list: a replication at position p owns the positions
    [p + 1 (+ 1 for the factor), ... + X), cut at the end of what the enclosing replication owns. Returns a tree
    of (id, factor id, members) tuples.
    """
    def take(pos, end):
        items = []
        while pos < end:
            id_ = ids[pos]
            pos += 1
            if 100000 <= id_ < 200000:
                factor = None
                if id_ % 1000 == 0:
                    if pos >= end:
                        raise ModelNoFactor(id_)
                    factor = ids[pos]
                    pos += 1
                sub, pos = take(pos, min(end, pos + id_ // 1000 % 100))
                items.append((id_, factor, sub))
            else:
                items.append((id_, None, None))
        return items, pos

    items, pos = take(0, len(ids))
    assert pos == len(ids)
    return items


def tree_of(members):
    out = []
    for m in members:
        if isinstance(m, DelayedReplicationDescriptor):
            out.append((m.id, m.factor.id, tree_of(m.members)))
        elif isinstance(m, FixedReplicationDescriptor):
            out.append((m.id, None, tree_of(m.members)))
        else:
            out.append((m.id, None, None))
    return out


def get_group(master_version, centre=0, subcentre=0, local_version=0, normalize=0):
    return TableGroupCacheManager.get_table_group(
        tables_root_dir=TABLES_ROOT, master_table_number=0, originating_centre=centre,
        originating_subcentre=subcentre, master_table_version=master_version,
        local_table_version=local_version, normalize=normalize)


# ----------------------------------------------------------------------------
# 1. The four tables, one by one, on every kind of ID
# ----------------------------------------------------------------------------
class MyInt(int):
    pass


class MyStr(str):
    pass


tg = get_group(33)
mb, md = model_of([('0', '0_0', '33')])

check(not hasattr(tg.A, 'lookup'), 'Table A has no lookup')
for table in (tg.B, tg.C, tg.D, tg.R):
    check(isinstance(table, BaseTable), table)

# Table B: defined -> the one cached instance; undefined -> a new placeholder each time
for spelled in (1001, '001001', '1001', u'001001', MyInt(1001), MyStr('001001'), ' 1001 ', 1001.0, 1001.9, True):
    want = 1 if spelled is True else 1001
    got = tg.B.lookup(spelled)
    if want in mb:
        check(type(got) is ElementDescriptor and got is tg.B.descriptors[want] and got.id == want, 'B', spelled)
        check(got.as_list() == [want] + mb[want][:5], 'B fields', spelled)
    else:
        check(type(got) is UndefinedElementDescriptor and got.id == want, 'B undefined', spelled)
for undefined in (63255, '063255', 0, -1, 999999, 100000, 301001, MyInt(63254)):
    check(int(undefined) not in mb, undefined)
    got, again = tg.B.lookup(undefined), tg.B.lookup(undefined)
    check(type(got) is UndefinedElementDescriptor and got.id == int(undefined), 'B undefined', undefined)
    check(type(got.id) is (MyInt if type(undefined) is MyInt else int), 'B undefined id type', undefined)
    check(got is not again and got == again, 'B placeholder is not cached', undefined)
    check(int(undefined) not in tg.B.descriptors, 'B placeholder is not stored', undefined)

# Table D: the same, with its own placeholder
for spelled in (301001, '301001', u'301001', MyInt(301001), MyStr('301001')):
    got = tg.D.lookup(spelled)
    check(type(got) is SequenceDescriptor and got is tg.D.descriptors[301001], 'D', spelled)
    check([m.id for m in got.members] == md[301001].member_ids, 'D members', spelled)
for undefined in (363255, '363255', 1001, 0, -5, 400000):
    check(int(undefined) not in md, undefined)
    got, again = tg.D.lookup(undefined), tg.D.lookup(undefined)
    check(type(got) is UndefinedSequenceDescriptor and got.id == int(undefined), 'D undefined', undefined)
    check(got is not again and got == again, 'D placeholder is not cached', undefined)
    check(int(undefined) not in tg.D.descriptors, 'D placeholder is not stored', undefined)
    check(not hasattr(got, 'members'), 'D placeholder has no members')

# Table C: created on first use, the same instance afterwards, whatever the spelling
for id_ in (201129, 222000, 206008, 299999, 5, -7):
    first = tg.C.lookup(id_)
    check(type(first) is OperatorDescriptor and first.id == id_, 'C', id_)
    for spelled in (id_, str(id_), MyInt(id_), MyStr(str(id_)), float(id_)):
        check(tg.C.lookup(spelled) is first, 'C cached', spelled)
tg_other = get_group(13)
check(tg_other.C.lookup(201129) is not tg.C.lookup(201129), 'C cache is per table')

# Table R: a new instance for every call, delayed when YYY is zero
for id_ in (101000, 101001, 163000, 163255, 100000, 112999, 0, 1000, 1001, -1000, 331000):
    for spelled in (id_, str(id_), MyInt(id_), float(id_)):
        got, again = tg.R.lookup(spelled), tg.R.lookup(spelled)
        want_type = DelayedReplicationDescriptor if id_ % 1000 == 0 else FixedReplicationDescriptor
        check(type(got) is want_type and got.id == id_ and got is not again, 'R', spelled)
        check(got.members is None, 'R members')
        if want_type is DelayedReplicationDescriptor:
            check(got.factor is None, 'R factor')

# Error behaviour on what cannot be made an integer: the same from every table and from the group
for table in (tg.B, tg.C, tg.D, tg.R, tg):
    for bad, exc in (('abc', ValueError), ('', ValueError), ('1.5', ValueError), (None, TypeError),
                     ([1001], TypeError), ((1001,), TypeError), (float('nan'), ValueError),
                     (float('inf'), OverflowError), (1j, TypeError)):
        r = raised(table.lookup, bad)
        check(r is not None and r[0] is exc, 'bad id', table, bad, r)
        try:
            int(bad)
        except Exception as e:
            check(str(e) == r[1], 'message of int()', bad, r)

# ----------------------------------------------------------------------------
# 2. The table group: which table serves which ID
# ----------------------------------------------------------------------------
boundaries = [-300000, -100001, -100000, -99999, -1, 0, 1, 1001, 63255, 99999, 100000, 100001, 101000, 163255,
              199999, 200000, 200001, 201129, 299999, 300000, 300001, 301001, 363255, 399999, 400000, 400001,
              500000, 999999, 1000000, 10 ** 12, True, False]
rnd = random.Random(514)
boundaries += [rnd.randrange(-200000, 600000) for _ in range(3000)]
for id_ in boundaries:
    for spelled in (id_, str(int(id_)), MyInt(id_)):
        got = tg.lookup(spelled)
        n = int(id_)
        if n >= 300000:
            want = SequenceDescriptor if n in md else UndefinedSequenceDescriptor
            check(type(got) is want, 'group D', spelled, got)
            if n in md:
                check(got is tg.D.descriptors[n], 'group D instance')
        elif n >= 200000:
            check(type(got) is OperatorDescriptor and got is tg.C.lookup(n), 'group C', spelled)
        elif n >= 100000:
            want = DelayedReplicationDescriptor if n % 1000 == 0 else FixedReplicationDescriptor
            check(type(got) is want and got.members is None, 'group R', spelled)
        else:
            want = ElementDescriptor if n in mb else UndefinedElementDescriptor
            check(type(got) is want, 'group B', spelled, got)
            if n in mb:
                check(got is tg.B.descriptors[n], 'group B instance')
        check(got.id == n, 'group id', spelled)

# ----------------------------------------------------------------------------
# 3. Every sequence of every bundled table version, against the model
# ----------------------------------------------------------------------------
def check_whole_group(group, sn_dirs):
    b, d = model_of(sn_dirs)
    check(set(group.B.descriptors) == set(b), 'B ids', sn_dirs)
    check(set(group.D.descriptors) == set(d), 'D ids', sn_dirs)
    for id_, fields in b.items():
        e = group.B.lookup(id_)
        check(e is group.lookup('%06d' % id_), 'B by group', id_)
        check([e.name, e.unit, e.scale, e.refval, e.nbits, e.crex_unit, e.crex_scale, e.crex_nchars] == fields,
              'B attributes', sn_dirs, id_)
    memo = {}
    seen = set()

    def walk(members):
        for m in members:
            if id(m) in seen:
                continue
            if type(m) is ElementDescriptor:
                seen.add(id(m))
                check(m is group.B.descriptors[m.id], 'element in a tree is the Table B instance', m)
            elif type(m) is OperatorDescriptor:
                seen.add(id(m))
                check(m is group.C.lookup(m.id), 'operator in a tree is the Table C instance', m)
            elif isinstance(m, (FixedReplicationDescriptor, DelayedReplicationDescriptor)):
                if type(m) is DelayedReplicationDescriptor:
                    check(m.id % 1000 == 0 and type(m.factor) in (ElementDescriptor, UndefinedElementDescriptor),
                          'factor', m)
                else:
                    check(m.id % 1000 != 0, 'fixed', m)
                walk(m.members)
            elif type(m) is SequenceDescriptor:
                seen.add(id(m))
                walk(m.members)
            else:
                check(type(m) in (UndefinedElementDescriptor, UndefinedSequenceDescriptor), 'placeholder', m)
                table = b if type(m) is UndefinedElementDescriptor else d
                check(m.id not in table or type(m) is UndefinedSequenceDescriptor, 'placeholder is undefined', m)

    for id_, node in d.items():
        seq = group.lookup(id_)
        check(seq is group.D.lookup(str(id_)), 'D by group', id_)
        check(flat_member_ids(seq) == model_flat(node, memo), 'flat expansion', sn_dirs, id_)
        check(tree_of(seq.members) == model_template(node.member_ids), 'ownership inside the sequence', sn_dirs, id_)
        walk(seq.members)
    return len(b), len(d)


n_b = n_d = 0
versions = sorted(os.listdir(os.path.join(TABLES_ROOT, '0', '0_0')), key=int)
for v in versions:
    nb, nd = check_whole_group(get_group(int(v)), [('0', '0_0', v)])
    n_b, n_d = n_b + nb, n_d + nd
for centres in sorted(os.listdir(os.path.join(TABLES_ROOT, '0'))):
    if centres == '0_0':
        continue
    centre, subcentre = centres.split('_')
    for lv in sorted(os.listdir(os.path.join(TABLES_ROOT, '0', centres)), key=int):
        for v in ('13', '33'):
            group = get_group(int(v), int(centre), int(subcentre), int(lv))
            nb, nd = check_whole_group(group, [('0', '0_0', v), ('0', centres, lv)])
            n_b, n_d = n_b + nb, n_d + nd
print('table entries checked: B', n_b, ' D', n_d)

# ----------------------------------------------------------------------------
# 4. Templates from random well-formed and ill-formed lists
# ----------------------------------------------------------------------------
elements = [i for i in sorted(mb) if i // 1000 != 31][:400] + [63255, 63254]
factors = [31000, 31001, 31002, 31011, 31012]
operators = [201129, 201000, 202130, 202000, 204008, 204000, 222000, 236000, 237000, 237255]
sequences = sorted(md)[:300] + [363255]


def random_list(rnd, depth, budget):
    out = []
    while len(out) < budget:
        r = rnd.random()
        if r < 0.25 and depth < 4:
            inner = random_list(rnd, depth + 1, rnd.randint(0, min(63, budget)))
            x = len(inner)
            if rnd.random() < 0.15:  # ill-formed on purpose: claims more or fewer than follow
                x = max(0, min(63, x + rnd.choice((-2, -1, 1, 2, 30))))
            if rnd.random() < 0.5:
                out += [100000 + x * 1000, rnd.choice(factors)] + inner
            else:
                out += [100000 + x * 1000 + rnd.randint(1, 255)] + inner
        elif r < 0.4:
            out.append(rnd.choice(sequences))
        elif r < 0.5:
            out.append(rnd.choice(operators))
        else:
            out.append(rnd.choice(elements))
    return out


rnd = random.Random(5)
n_templates = n_no_factor = 0
for _ in range(1500):
    ids = random_list(rnd, 0, rnd.randint(0, 25))
    try:
        want_tree = model_template(ids)
    except ModelNoFactor as e:
        # a delayed replication at the end of the list, or at the end of what an enclosing replication owns
        n_no_factor += 1
        for func in (tg.template_from_ids, tg.descriptors_from_ids):
            r = raised(func, *ids)
            check(r == (PyBufrKitError, 'Error: Delayed replication descriptor {} is not followed by a '
                                        'replication factor'.format(e.args[0])), 'no factor', ids, r)
        continue
    spelled = [rnd.choice((i, str(i), '%06d' % i, MyInt(i))) for i in ids]
    template = tg.template_from_ids(*spelled)
    check(type(template) is BufrTemplate, 'template')
    check(template.original_descriptor_ids == ids, 'round trip', ids)
    check(tree_of(template.members) == want_tree, 'ownership', ids)
    check(tree_of(tg.descriptors_from_ids(*ids)) == want_tree, 'descriptors_from_ids', ids)
    n_templates += 1
print('random templates checked:', n_templates, ' lists without a factor:', n_no_factor)


# ----------------------------------------------------------------------------
# 5. Decoding: a descriptor that is in no table is an UnknownDescriptor error
# ----------------------------------------------------------------------------
def build_bufr(ids, payload, master_version=33, local_version=0, centre=0, subcentre=0):
    sec1 = struct.pack('>BHHBBBBBBBHBBBBB', 0, centre, subcentre, 0, 0, 0, 0, 0, master_version, local_version,
                       2020, 1, 2, 3, 4, 5)
    sec1 = struct.pack('>I', len(sec1) + 3)[1:] + sec1
    sec3 = b'\x00' + struct.pack('>HB', 1, 0x80)
    for i in ids:
        sec3 += struct.pack('>H', (i // 100000) << 14 | (i // 1000 % 100) << 8 | i % 1000)
    sec3 = struct.pack('>I', len(sec3) + 3)[1:] + sec3
    sec4 = b'\x00' + payload
    sec4 = struct.pack('>I', len(sec4) + 3)[1:] + sec4
    total = 8 + len(sec1) + len(sec3) + len(sec4) + 4
    return b'BUFR' + struct.pack('>I', total)[1:] + b'\x04' + sec1 + sec3 + sec4 + b'7777'


def bits(*pairs):
    s = ''.join(format(value, '0{}b'.format(nbits)) for value, nbits in pairs)
    s += '0' * (-len(s) % 8)
    return bytes(bytearray(int(s[i:i + 8], 2) for i in range(0, len(s), 8)))


decoder = Decoder(tables_root_dir=TABLES_ROOT)

# the control: 001001 (7 bits), 101002 001002 (10 bits), 301001 = 001001 001002
message = decoder.process(build_bufr([1001, 101002, 1002, 301001], bits((5, 7), (6, 10), (7, 10), (8, 7), (9, 10))))
check(message.template_data.value.decoded_values_all_subsets == [[5, 6, 7, 8, 9]], 'control message')
check(message.unexpanded_descriptors.value == [1001, 101002, 1002, 301001], 'control ids')

for ids, culprit, kind in (
        ([1001, 63255], '063255', 'UndefinedElementDescriptor'),
        ([63255], '063255', 'UndefinedElementDescriptor'),
        ([1001, 363255], '363255', 'UndefinedSequenceDescriptor'),
        ([1001, 101002, 63255], '063255', 'UndefinedElementDescriptor'),
        ([101000, 31001, 363255], '363255', 'UndefinedSequenceDescriptor'),
        ([101000, 31255, 1001], '031255', 'UndefinedElementDescriptor'),  # the factor itself is unknown
):
    payload = bits((5, 7), (1, 8), (5, 7), (5, 7), (5, 7))
    r = raised(decoder.process, build_bufr(ids, payload))
    check(r == (UnknownDescriptor, 'Error: Cannot process descriptor {} of type: {}'.format(culprit, kind)),
          'unknown descriptor', ids, r)
    # and it is there in the template, not skipped
    template = tg.template_from_ids(*ids)
    check(template.original_descriptor_ids == ids, 'unknown kept in the template', ids)
# A version that is not bundled falls back to the default one, and the look-up works the same there
message = decoder.process(build_bufr([1001, 301001], bits((5, 7), (8, 7), (9, 10)), master_version=99))
check(message.template_data.value.decoded_values_all_subsets == [[5, 8, 9]], 'fall-back message')
fallback = TableGroupCacheManager.get_table_group(tables_root_dir=TABLES_ROOT, master_table_version=99)
check(fallback is tg or fallback == tg, 'fall-back group is version 33')
check(fallback.key.wmo_tables_sn == ('0', '0_0', '33'), fallback.key)

print('OK: {} checks'.format(n_checks))
