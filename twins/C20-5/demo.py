import os, sys; sys.path.insert(0, os.getcwd())
import logging
logging.disable(logging.CRITICAL)


# ---------------------------------------------------------------------------
# Hand-made BUFR (edition 3, NCEP layout) - nothing of pybufrkit is used here
# ---------------------------------------------------------------------------
class Bits(object):
    def __init__(self):
        self.bits = []

    def uint(self, value, width):
        assert 0 <= value < (1 << width), (value, width)
        self.bits.append(format(value, '0{}b'.format(width)) if width else '')
        return self

    def text(self, s, nchars):
        s = s.ljust(nchars)
        assert len(s) == nchars, (s, nchars)
        for ch in s:
            self.uint(ord(ch), 8)
        return self

    def tobytes(self):
        s = ''.join(self.bits)
        s += '0' * (-len(s) % 8)
        return bytes(int(s[i:i + 8], 2) for i in range(0, len(s), 8))


def message(data_category, descriptors, payload, n_subsets=1, local_version=0, master_version=13):
    sec1 = (Bits().uint(18, 24).uint(0, 8).uint(3, 8).uint(7, 8).uint(0, 8).uint(0, 8)
            .uint(data_category, 8).uint(1, 8).uint(master_version, 8).uint(local_version, 8)
            .uint(0, 8).uint(0, 8).uint(0, 8).uint(0, 8).uint(0, 8).uint(0, 8)).tobytes()
    body = Bits().uint(0, 8).uint(n_subsets, 16).uint(0b10000000, 8)
    for d in descriptors:
        body.uint(d // 100000, 2).uint(d // 1000 % 100, 6).uint(d % 1000, 8)
    body = body.tobytes()
    body += b'\x00' * ((len(body) + 3) % 2)
    sec3 = Bits().uint(len(body) + 3, 24).tobytes() + body
    data = b'\x00' + payload
    data += b'\x00' * ((len(data) + 3) % 2)
    sec4 = Bits().uint(len(data) + 3, 24).tobytes() + data
    total = 8 + len(sec1) + len(sec3) + len(sec4) + 4
    return b'BUFR' + Bits().uint(total, 24).uint(3, 8).tobytes() + sec1 + sec3 + sec4 + b'7777'


DEFINITION_TEMPLATE = [103000, 31001, 1, 2, 3, 101000, 31001, 300004,
                       105000, 31001, 300003, 205064, 101000, 31001, 30]


def definition_message(elements, sequences):
    """
    elements: [(id, name, unit, scale, refval, width)], sequences: [(id, name, [member ids])]
    """
    p = Bits().uint(1, 8).text('250', 3).text('DEMO A ENTRY', 32).text('', 32)
    p.uint(len(elements), 8)
    for id_, name, unit, scale, refval, width in elements:
        fxy = '{:06d}'.format(id_)
        p.text(fxy[0], 1).text(fxy[1:3], 2).text(fxy[3:], 3)
        p.text(name[:32], 32).text(name[32:], 32).text(unit, 24)
        p.text('-' if scale < 0 else '+', 1).text(str(abs(scale)), 3)
        p.text('-' if refval < 0 else '+', 1).text(str(abs(refval)), 10)
        p.text(str(width), 3)
    p.uint(len(sequences), 8)
    for id_, name, members in sequences:
        fxy = '{:06d}'.format(id_)
        p.text(fxy[0], 1).text(fxy[1:3], 2).text(fxy[3:], 3).text(name, 64)
        p.uint(len(members), 8)
        for member in members:
            p.text('{:06d}'.format(member), 6)
    return message(11, DEFINITION_TEMPLATE, p.tobytes(), local_version=1)


# ---------------------------------------------------------------------------
# Independent reading of a template: elements / sequences are plain dicts kept
# by the demo; replication-only sequences (NCEP) replicate what follows them.
# ---------------------------------------------------------------------------
STANDARD = {1001: (7, 0, 0, 'Numeric'), 1002: (10, 0, 0, 'Numeric'), 31001: (8, 0, 0, 'Numeric'),
            31000: (1, 0, 0, 'Numeric'), 31002: (16, 0, 0, 'Numeric'), 12001: (12, 1, 0, 'K')}


class Reference(object):
    def __init__(self):
        self.elements = dict(STANDARD)
        self.sequences = {}
        self.defined_elements = {}
        self.sequence_names = {}
        self.seed = 0

    def define(self, elements, sequences):
        for id_, name, unit, scale, refval, width in elements:
            self.elements[id_] = (width, scale, refval, unit)
            self.defined_elements[id_] = (width, scale, refval, unit.strip(), name[:32].rstrip() + name[32:].rstrip())
        for id_, name, members in sequences:
            self.sequences[id_] = list(members)
            self.sequence_names[id_] = name

    def subset(self, ids, counts):
        """
        -> payload bits, expected (id, value) pairs
        """
        self.bits, self.expected, self.counts = Bits(), [], list(counts)
        self.walk(ids)
        assert not self.counts
        return self.bits, self.expected

    def walk(self, ids):
        ids = list(ids)
        while ids:
            id_ = ids.pop(0)
            if id_ >= 300000:
                members = self.sequences[id_]
                if 100000 <= members[0] < 200000 and len(members) == (2 if members[0] % 1000 == 0 else 1):
                    ids = members + ids  # replication only: it replicates what follows the sequence
                else:
                    self.walk(members)
            elif id_ >= 100000:
                n_items, n_repeats = id_ // 1000 % 100, id_ % 1000
                if n_repeats == 0:
                    n_repeats = self.counts.pop(0)
                    self.leaf(ids.pop(0), n_repeats)
                group, ids = ids[:n_items], ids[n_items:]
                for _ in range(n_repeats):
                    self.walk(group)
            else:
                self.leaf(id_)

    def leaf(self, id_, raw=None):
        width, scale, refval, unit = self.elements[id_]
        if unit.strip() == 'CCITT IA5':
            self.seed += 1
            s = ''.join(chr(65 + (self.seed * 7 + i) % 26) for i in range(width // 8))
            self.bits.text(s, width // 8)
            self.expected.append((id_, s.encode()))
            return
        if raw is None:
            self.seed += 1
            raw = (self.seed * 2654435761) % ((1 << width) - 1)
        self.bits.uint(raw, width)
        value = raw + refval
        if scale != 0:
            value = value / 10 ** scale
        self.expected.append((id_, value))


def decoded_pairs(bufr_message):
    td = bufr_message.template_data.value
    return [list(zip([d.id for d in ds], vs))
            for ds, vs in zip(td.decoded_descriptors_all_subsets, td.decoded_values_all_subsets)]


def check(label, got, expected):
    if got != expected:
        print('FAIL', label, '\n  got     ', got, '\n  expected', expected)
        sys.exit(1)
    print('ok  ', label)


def end_to_end(decoder_kwargs):
    from pybufrkit.decoder import Decoder, generate_bufr_message
    ref = Reference()
    stream, expectations = b'', []

    def add_definitions(elements, sequences):
        nonlocal stream
        ref.define(elements, sequences)
        stream += b'junk' + definition_message(elements, sequences)
        expectations.append(None)

    def add_data(ids, counts_per_subset, master_version=13):
        nonlocal stream
        payload, expected = Bits(), []
        for counts in counts_per_subset:
            bits, pairs = ref.subset(ids, counts)
            payload.bits.extend(bits.bits)
            expected.append(pairs)
        stream += message(250, ids, payload.tobytes(), n_subsets=len(counts_per_subset),
                          master_version=master_version)
        expectations.append(expected)

    # before any definition: standard descriptors only
    add_data([1001, 102002, 1002, 12001], [[]])
    add_definitions(
        [(48001, 'ALPHA', 'NUMERIC', 1, -100, 12),
         (48002, 'BETA' + ' ' * 28 + 'SECOND LINE', 'M', 0, 0, 7),
         (48003, 'GAMMA', 'PA', -1, 5, 10),
         (63001, 'TEXT', 'CCITT IA5', 0, 0, 24),
         (63255, 'PAD', 'NONE', 0, 0, 1)],
        [(348001, 'SEQ WITH FIXED REPLICATION', [48001, 102002, 48002, 48003]),
         (348002, 'REPLICATION ONLY', [101000, 31001]),
         (348003, 'OUTER', [348001, 348002, 63001, 101000, 31001, 48002, 1001]),
         (363004, 'NESTED REPLICATION', [103000, 31001, 48003, 101002, 48001, 12001])]
    )
    add_data([348003, 1002], [[2, 1], [0, 3]])
    add_data([363004, 348002, 63255, 48002], [[2, 3]])
    # another table group (master table version 33) gets the definitions as well
    add_data([348003, 1002], [[1, 1]], master_version=33)
    add_data([1001, 102002, 1002, 12001], [[]])
    # a later definition message overrides 048002 and 348001, adds 049007 / 350001
    add_definitions(
        [(48002, 'BETA WIDER', 'M', 2, -3, 9),
         (49007, 'DELTA', 'NUMERIC', 0, 1000000, 20)],
        [(348001, 'SEQ REDEFINED', [49007, 48002]),
         (350001, 'NEW', [101000, 31000, 348001])]
    )
    add_data([348003, 1002], [[1, 2]])
    add_data([350001, 48001, 350001], [[1, 0], [0, 1]])
    add_data([350001, 348002, 48002, 12001], [[1, 2]], master_version=33)

    decoder = Decoder(**decoder_kwargs)
    messages = list(generate_bufr_message(decoder, stream))
    check('number of messages', len(messages), len(expectations))
    for i, (bufr_message, expected) in enumerate(zip(messages, expectations)):
        if expected is None:
            check('message {} is a definition message'.format(i), bufr_message.data_category.value, 11)
        else:
            check('message {} values'.format(i), decoded_pairs(bufr_message), expected)
    return ref



# ---------------------------------------------------------------------------
# Independent resolution of a list of IDs into a tree. It works with absolute
# positions in a list (no iterators): every ID taken by an inner replication
# also counts against the enclosing ones, hence the "end" limits.
# ---------------------------------------------------------------------------
import json

TABLES_13 = os.path.join(os.getcwd(), 'pybufrkit', 'tables', '0', '0_0', '13')
with open(os.path.join(TABLES_13, 'TableB.json')) as ins:
    KNOWN_B = set(int(k) for k in json.load(ins))
with open(os.path.join(TABLES_13, 'TableD.json')) as ins:
    KNOWN_D = set(int(k) for k in json.load(ins))


class NoFactor(Exception):
    pass


def class_name_of(id_):
    if id_ >= 300000:
        return 'SequenceDescriptor' if id_ in KNOWN_D else 'UndefinedSequenceDescriptor'
    if id_ >= 200000:
        return 'OperatorDescriptor'
    if id_ >= 100000:
        return 'FixedReplicationDescriptor' if id_ % 1000 else 'DelayedReplicationDescriptor'
    return 'ElementDescriptor' if id_ in KNOWN_B else 'UndefinedElementDescriptor'


def element_name_of(id_):
    return 'ElementDescriptor' if id_ in KNOWN_B else 'UndefinedElementDescriptor'


def read_id(ids, pos):
    raw = ids[pos]
    return raw if isinstance(raw, int) else int(raw)  # ValueError: only when the bad ID is reached


def resolve(ids, pos, end):
    nodes = []
    while pos < end:
        id_ = read_id(ids, pos)
        pos += 1
        if 100000 <= id_ < 200000:
            factor = None
            if id_ % 1000 == 0:
                if pos >= end:
                    raise NoFactor(id_)
                factor = (element_name_of(read_id(ids, pos)), read_id(ids, pos))
                pos += 1
            members, pos = resolve(ids, pos, min(end, pos + id_ // 1000 % 100))
            nodes.append((class_name_of(id_), id_, factor, members))
        else:
            nodes.append((class_name_of(id_), id_))
    return nodes, pos


def expected_tree(raw_ids):
    """
    -> ('ok', tree) | ('error', exception class name)
    """
    try:
        return 'ok', resolve(raw_ids, 0, len(raw_ids))[0]
    except NoFactor:
        return 'error', 'PyBufrKitError'
    except ValueError:
        return 'error', 'ValueError'


def tree_of(descriptors):
    from pybufrkit.descriptors import ReplicationDescriptor, DelayedReplicationDescriptor
    nodes = []
    for descriptor in descriptors:
        if isinstance(descriptor, ReplicationDescriptor):
            factor = None
            if isinstance(descriptor, DelayedReplicationDescriptor):
                factor = (type(descriptor.factor).__name__, descriptor.factor.id)
            nodes.append((type(descriptor).__name__, descriptor.id, factor, tree_of(descriptor.members)))
        else:
            nodes.append((type(descriptor).__name__, descriptor.id))
    return nodes


def actual_tree(function, raw_ids):
    from pybufrkit.errors import PyBufrKitError
    try:
        return 'ok', tree_of(function(raw_ids))
    except (PyBufrKitError, ValueError) as e:
        return 'error', type(e).__name__


CASES = [
    [],
    [1001, '001002', 201129, 301001, 63254, 399999, '-5', 0],
    [102002, 1001, 1002, 12001],
    [101000, 31001, 1001],
    ['101000', '031001', '001001', 1002],
    [101000],
    [1001, 102000],
    [102002, 1001, 101000],
    [102002, 1001, 101000, 31001, 1002],
    [105003, 1001, 1002],
    [100003, 1001],
    [100000, 31001, 1001],
    [103002, 1001, 102003, 1002, 12001],
    [104002, 1001, 102000, 31001, 1002, 12001, 4001],
    [103000, 31002, 301001, 201129, 1001, 222000],
    [101000, 301001, 1001],
    [101000, 63254, 1001],
    [199999] + [1001] * 120,
    ['abc'],
    [1001, 'abc', 1002],
    [102002, 1001, 'x'],
    [102002, 1001, 101000, 'x'],
    [101000, 'x'],
    [101001, 101000],
    [1001.0, 102002.9, 1001, 1002],
    [99999, 200000, 299999, 300000, 100000, 31001, 199999, 1001],
    [102001, 200000, 101001, 300000, 101001, 99999],
]


def random_cases(n):
    import random
    rnd = random.Random(20)
    pool = [1001, 1002, 12001, 31001, 31002, 63254, 201129, 206008, 301001, 301011, 399999, '001001', '301001',
            99999, 200000, 299999, 300000]
    for _ in range(n):
        ids = []
        for _ in range(rnd.randint(0, 9)):
            if rnd.random() < 0.4:
                id_ = 100000 + rnd.randint(0, 4) * 1000 + rnd.choice([0, 0, 1, 2, 3])
                ids.append(rnd.choice([id_, str(id_)]))
            elif rnd.random() < 0.03:
                ids.append('zz')
            else:
                ids.append(rnd.choice(pool))
        yield ids


def structural_checks():
    from pybufrkit import tables
    group = tables.TableGroupCacheManager.get_table_group(master_table_version=13)
    functions = [
        ('BufrTableGroup.descriptors_from_ids', lambda ids: group.descriptors_from_ids(*ids)),
        ('tables._descriptors_from_ids', lambda ids: tables._descriptors_from_ids(group.B, group.C, group.R, group.D, ids)),
        ('tables._descriptors_from_ids (generator)',
         lambda ids: tables._descriptors_from_ids(group.B, group.C, group.R, group.D, (i for i in ids))),
    ]
    cases = CASES + list(random_cases(400))
    n_errors = 0
    for name, function in functions:
        for ids in cases:
            expected = expected_tree(ids)
            n_errors += expected[0] == 'error'
            got = actual_tree(function, ids)
            if got != expected:
                check('{} {}'.format(name, ids), got, expected)
        print('ok  ', name, len(cases), 'lists of IDs')
    assert n_errors > 30, n_errors

    # Only what was needed is taken from an iterator: the rest stays there after an error
    it = iter([102002, 1001, 101000, 31001, 1002])
    check('error on the shared iterator', actual_tree(
        lambda ids: tables._descriptors_from_ids(group.B, group.C, group.R, group.D, ids), it),
          ('error', 'PyBufrKitError'))
    check('IDs left after the error', list(it), [31001, 1002])

    # Simple lookup through the group: no members, no factor
    for id_ in [1001, '001001', 63254, -7, 99999, 100000, '101000', 103002, 199999, 200000, 201129, '222000',
                299999, 300000, 301001, '301011', 399999, 1001.5]:
        descriptor = group.lookup(id_)
        int_id = int(id_)
        got = (type(descriptor).__name__, descriptor.id,
               getattr(descriptor, 'factor', 'n/a'),
               getattr(descriptor, 'members', 'n/a') if int_id < 300000 else 'n/a')
        is_replication = 100000 <= int_id < 200000
        expected = (class_name_of(int_id), int_id,
                    None if is_replication and int_id % 1000 == 0 else 'n/a',
                    None if is_replication else 'n/a')
        if got != expected:
            check('lookup({!r})'.format(id_), got, expected)
    for bad in ['abc', None]:
        try:
            group.lookup(bad)
        except (ValueError, TypeError) as e:
            check('lookup({!r}) error'.format(bad), type(e).__name__, 'ValueError' if bad == 'abc' else 'TypeError')
        else:
            check('lookup({!r}) error'.format(bad), 'no error', 'error')
    print('ok   BufrTableGroup.lookup')
    # identity: cached descriptors for B / D / C, fresh ones for replication
    check('B identity', group.lookup(1001) is group.B.lookup('001001'), True)
    check('D identity', group.lookup(301001) is group.D.lookup(301001), True)
    check('C identity', group.lookup(201129) is group.C.lookup(201129), True)
    check('R fresh', group.lookup(101000) is group.lookup(101000), False)
    check('members share cached descriptors',
          group.descriptors_from_ids(102001, 1001, 301001)[0].members[0] is group.B.lookup(1001), True)


def in_stream_tables_checks(ref):
    """
    The tables built from the definitions read in the stream: member lists arrive as strings.
    """
    from pybufrkit import tables
    group = tables.TableGroupCacheManager.get_table_group(master_table_version=13)
    KNOWN_B.update(ref.defined_elements)
    KNOWN_D.update(ref.sequences)
    for id_, (width, scale, refval, unit, name) in sorted(ref.defined_elements.items()):
        d = group.B.lookup(id_)
        check('B entry {:06d}'.format(id_), (type(d).__name__, d.id, d.nbits, d.scale, d.refval, d.unit, d.name),
              ('ElementDescriptor', id_, width, scale, refval, unit, name))
    for id_, members in sorted(ref.sequences.items()):
        d = group.D.lookup(id_)
        check('D entry {:06d}'.format(id_), ('ok', tree_of(d.members)), expected_tree(members))
        check('D entry {:06d} via group.lookup'.format(id_), group.lookup(str(id_)) is d, True)
    # and the unmentioned ones keep their standard meaning
    d = group.B.lookup(12001)
    check('B entry 012001', (d.nbits, d.scale, d.refval, d.unit), (12, 1, 0, 'K'))
    check('D entry 301001', ('ok', tree_of(group.D.lookup(301001).members)), ('ok', [('ElementDescriptor', 1001), ('ElementDescriptor', 1002)]))


if __name__ == '__main__':
    structural_checks()
    ref = end_to_end({})
    in_stream_tables_checks(ref)
    end_to_end({'compiled_template_cache_max': 10})
    structural_checks()
    print('all fine')
