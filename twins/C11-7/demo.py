import os, sys; sys.path.insert(0, os.getcwd())
"""
Differential demonstration for refactor 7 (generate_bufr_message on a stream cursor).

Streams are put together from messages built by hand (and a few sample files) and
separators, so the expected pieces are known by construction; for the info-only
scan a tiny independent splitter (signature search + the 3 length octets) is the
reference. Exits 0 on the unpatched and on the patched tree.
"""
import contextlib
import io
import itertools
import logging
import random

import pybufrkit.decoder as decoder_module
from pybufrkit.decoder import Decoder, generate_bufr_message
from pybufrkit.encoder import Encoder
from pybufrkit.errors import PyBufrKitError, BitReadError
from pybufrkit.tables import TableGroupCacheManager

assert decoder_module.__file__.startswith(os.getcwd()), decoder_module.__file__

N_CHECKS = [0]
logging.getLogger().addHandler(logging.NullHandler())  # no warnings of the library on the terminal


def check(condition, what):
    N_CHECKS[0] += 1
    if not condition:
        print('FAILED: {}'.format(what))
        sys.exit(1)


# ----------------------------------------------------------------------------------------
# Messages
# ----------------------------------------------------------------------------------------
class Msg(object):
    def __init__(self, data, edition, category, n_subsets, compressed, values=None, name=''):
        self.data, self.edition, self.category, self.n_subsets = data, edition, category, n_subsets
        self.compressed, self.values, self.name = compressed, values, name
        self.length = len(data)


ENCODER = Encoder()


def build(edition, category, descriptors, subsets, compressed=False, name=''):
    if edition == 4:
        s1 = [22, 0, 98, 0, 0, False, '0000000', category, 0, 0, 13, 0, 2020, 1, 2, 3, 4, 5]
    elif edition == 3:
        s1 = [18, 0, 0, 98, 0, False, '0000000', category, 0, 13, 0, 20, 1, 2, 3, 4, 0]
    else:
        s1 = [18, 0, 98, 0, False, '0000000', category, 0, 13, 0, 20, 1, 2, 3, 4, 0]
    j = [['BUFR', 0, edition], s1, [0, '00000000', len(subsets), True, compressed, '000000', descriptors],
         [0, '00000000', subsets], ['7777']]
    data = ENCODER.process(j).serialized_bytes
    assert data[:4] == b'BUFR' and data[-4:] == b'7777' and int.from_bytes(data[4:7], 'big') == len(data)
    return Msg(data, edition, category, len(subsets), compressed, subsets, name)


def sample(file_name, edition, category, n_subsets, compressed):
    with open(os.path.join('tests', 'data', file_name), 'rb') as ins:
        raw = ins.read()
    i = raw.find(b'BUFR')
    data = raw[i: i + int.from_bytes(raw[i + 4: i + 7], 'big')]
    assert data[-4:] == b'7777' and data[7] == edition
    return Msg(data, edition, category, n_subsets, compressed, None, file_name)


M_SIG = build(4, 0, [1015], [[b'BUFR7777BUFR 7777   ']], name='payload with signatures')
M_E3 = build(3, 2, [1001, 1002], [[11, 423], [12, 5]], name='edition 3')
M_E2 = build(2, 6, [1015, 1001, 1002], [[b'7777BUFR            ', 1, 2]], name='edition 2')
M_CMP = build(4, 2, [1001, 1002, 1015], [[11, 1, b'BUFRa               '], [12, 2, b'BUFRb               '],
                                         [13, 3, b'BUFRc               ']], compressed=True, name='compressed')
M_ONE = build(4, 7, [1001], [[99]], name='short')
M_OKPR = sample('ISMD01_OKPR.bufr', 4, 0, 7, True)
M_207 = sample('207003.bufr', 3, 21, 2, True)
assert M_SIG.data.count(b'BUFR') == 3 and M_SIG.data.count(b'7777') == 3 and b'7777BUFR' in M_E2.data

POOL = [M_SIG, M_E3, M_E2, M_CMP, M_ONE, M_OKPR, M_207]
SEPARATORS = [b'', b'\r\r\n123\r\r\nISMD01 OKPR 211200\r\r\n', b'\x00\xff\x07\x80BUF\x01', b'BUF', b'BUFBUF',
              b'7777', b'B', b'UFR', b'\x0377\x01BU']


def reset_tables():
    cache = TableGroupCacheManager._TABLE_GROUP_CACHE
    cache.extra_b_entries.clear()
    cache.extra_d_entries.clear()
    cache.invalidate()


def scan(stream, decoder=None, **kwargs):
    """Run the generator to its end; returns (messages, error or None, what went to stderr)"""
    messages, error = [], None
    err = io.StringIO()
    with contextlib.redirect_stderr(err):
        try:
            for m in generate_bufr_message(decoder or Decoder(), stream, **kwargs):
                messages.append(m)
        except Exception as e:
            error = e
    return messages, error, err.getvalue()


def decoded_values(m):
    return m.template_data.value.decoded_values_all_subsets


def check_content(m, msg, info_only, what):
    check(m.serialized_bytes == msg.data, what + ': exact bytes')
    check((m.edition.value, m.data_category.value, m.n_subsets.value, m.is_compressed.value, m.length.value) ==
          (msg.edition, msg.category, msg.n_subsets, msg.compressed, msg.length), what + ': metadata')
    if info_only:
        check(not hasattr(m, 'template_data'), what + ': data section not decoded')
    elif msg.values is not None:
        check(decoded_values(m) == msg.values, what + ': decoded values')
    else:
        check(len(decoded_values(m)) == msg.n_subsets, what + ': decoded subsets')


def ref_info_split(stream):
    """Independent splitter for the info-only scan: signature search and the three length octets"""
    pieces, pos = [], 0
    while True:
        pos = stream.find(b'BUFR', pos)
        if pos < 0:
            return pieces
        piece = stream[pos: pos + int.from_bytes(stream[pos + 4: pos + 7], 'big')]
        pieces.append(piece)
        pos += len(piece)


# ----------------------------------------------------------------------------------------
# 1. Splitting: search, slicing, advancing (no filter)
# ----------------------------------------------------------------------------------------
def make_stream(msgs, rnd):
    parts = [rnd.choice(SEPARATORS)]
    for msg in msgs:
        parts.append(msg.data)
        parts.append(rnd.choice(SEPARATORS))
    return b''.join(parts)


def test_splitting():
    rnd = random.Random(11)
    sequences = [()] + [(m,) for m in POOL] + list(itertools.permutations(POOL[:5], 2))
    sequences += [tuple(rnd.choice(POOL) for _ in range(rnd.randint(3, 6))) for _ in range(25)]
    decoder = Decoder()
    for msgs in sequences:
        stream = make_stream(msgs, rnd)
        for info_only in (False, True):
            got, error, err = scan(stream, decoder, info_only=info_only)
            what = 'split {} info_only={}'.format([m.name for m in msgs], info_only)
            check(error is None and err == '', what + ': no error')
            check([m.serialized_bytes for m in got] == [m.data for m in msgs], what + ': pieces')
            check(b''.join(m.serialized_bytes for m in got) == b''.join(m.data for m in msgs), what + ': concatenation')
            for m, msg in zip(got, msgs):
                check_content(m, msg, info_only, what)
            if info_only:
                check([m.serialized_bytes for m in got] == ref_info_split(stream), what + ': reference splitter')
    # Every separator at every place, all messages adjacent, a bytearray as stream
    for sep in SEPARATORS:
        for stream in (sep.join(m.data for m in POOL), sep + sep.join(m.data for m in POOL) + sep):
            for info_only in (False, True):
                for s in (stream, bytearray(stream)):
                    got, error, err = scan(s, decoder, info_only=info_only)
                    check(error is None and [m.serialized_bytes for m in got] == [m.data for m in POOL],
                          'separator {!r} info_only={} {}'.format(sep, info_only, type(s).__name__))
    # Nothing to find
    for stream in (b'', b'BUF', b'no message in here 7777', b'\x00' * 50, bytearray()):
        for info_only in (False, True):
            got, error, err = scan(stream, decoder, info_only=info_only)
            check(got == [] and error is None and err == '', 'nothing in {!r}'.format(stream))
    # A text string: the empty one is never searched, any other cannot be searched for bytes
    check(scan('', decoder) == ([], None, ''), 'empty text')
    got, error, err = scan('BUFR', decoder)
    check(got == [] and type(error) is TypeError, 'text is not searched: {!r}'.format(error))
    # The generator does nothing before it is asked for the first message
    g = generate_bufr_message(decoder, None, filter_expr='(')
    check(type(g).__name__ == 'generator', 'a generator')
    g.close()


# ----------------------------------------------------------------------------------------
# 2. Declared length (info only): slices that run over the end or into the next message
# ----------------------------------------------------------------------------------------
def with_length(msg, length):
    return msg.data[:4] + length.to_bytes(3, 'big') + msg.data[7:]


def test_declared_length():
    decoder = Decoder()
    over = with_length(M_E3, M_E3.length + 30)
    under = with_length(M_E3, 20)
    for stream in (over, over + b'\x01\x02', over + M_ONE.data + M_SIG.data, b'xx' + over + b'y' * 40 + M_SIG.data + M_ONE.data,
                   under + M_ONE.data, M_ONE.data + under, with_length(M_SIG, 60) + M_E2.data,
                   with_length(M_SIG, 60), with_length(M_ONE, 8) + M_E3.data):
        got, error, err = scan(stream, decoder, info_only=True)
        expected = ref_info_split(stream)
        check(error is None and err == '', 'declared length: no error')
        check([m.serialized_bytes for m in got] == expected, 'declared length: pieces of {!r}'.format(stream[:12]))
    # in particular
    got, _, _ = scan(over + M_ONE.data + M_SIG.data, decoder, info_only=True)
    check(got[0].serialized_bytes == over + M_ONE.data[:30], 'slice runs into the next message')
    got, _, _ = scan(over + b'\x01\x02', decoder, info_only=True)
    check([m.serialized_bytes for m in got] == [over + b'\x01\x02'], 'slice ends with the data')
    # a declared length of zero: the position does not move... but the search is from the same place: endless
    g = generate_bufr_message(decoder, with_length(M_ONE, 0), info_only=True)
    firsts = [next(g).serialized_bytes for _ in range(5)]
    check(firsts == [b''] * 5, 'declared length 0 yields the empty piece again and again')
    g.close()
    # When data sections are decoded, the declared length plays no role
    got, error, err = scan(over + M_ONE.data, decoder)
    check(error is None and [m.serialized_bytes for m in got] == [over, M_ONE.data], 'decoded length wins')


# ----------------------------------------------------------------------------------------
# 3. Filter expressions: decoding passes
# ----------------------------------------------------------------------------------------
FILTERS = [
    ('${%data_category} == 2', lambda m: m.category == 2),
    ('${%edition} == 4 and ${%n_subsets} > 1', lambda m: m.edition == 4 and m.n_subsets > 1),
    ('${%length} > 60', lambda m: m.length > 60),
    ('${%n_subsets} - 1', lambda m: m.n_subsets - 1),  # not a boolean
    ('${%is_compressed}', lambda m: m.compressed),
    ('True', lambda m: True),
    ('0', lambda m: 0),
    ('None', lambda m: None),
    ('[${%edition}][1:]', lambda m: []),
    ('"no" if ${%data_category} else ""', lambda m: 'no' if m.category else ''),
]


def test_filters():
    rnd = random.Random(7)
    decoder = Decoder()
    sequences = [tuple(POOL), tuple(reversed(POOL))] + [
        tuple(rnd.choice(POOL) for _ in range(rnd.randint(0, 6))) for _ in range(6)]
    for msgs in sequences:
        stream = make_stream(msgs, rnd)
        for expr, predicate in FILTERS:
            expected = [m for m in msgs if predicate(m)]
            for info_only in (False, True):
                got, error, err = scan(stream, decoder, info_only=info_only, filter_expr=expr)
                what = 'filter {!r} info_only={}'.format(expr, info_only)
                check(error is None and err == '', what + ': no error')
                check([m.serialized_bytes for m in got] == [m.data for m in expected], what + ': pieces')
                for m, msg in zip(got, expected):
                    check_content(m, msg, info_only, what)
        # An empty expression is no filter at all (but it is compiled: see below)
    stream = make_stream(POOL, rnd)
    for info_only in (False, True):
        for expr in ('', None):
            got, error, err = scan(stream, decoder, info_only=info_only, filter_expr=expr)
            if expr == '':
                check(got == [] and isinstance(error, SyntaxError), 'empty expression does not compile')
            else:
                check(error is None and [m.serialized_bytes for m in got] == [m.data for m in POOL], 'no filter')
    # A filter that fails on a message: not a PyBufrKitError, passes through whatever continue_on_error says
    for coe in (False, True):
        got, error, err = scan(M_ONE.data + M_E3.data, decoder, filter_expr='1 // (${%data_category} - 2) or True',
                               continue_on_error=coe)
        check([m.serialized_bytes for m in got] == [M_ONE.data] and type(error) is ZeroDivisionError,
              'filter raising on the second message')
    # A filtered-out message is decoded for its metadata only: a broken body does not matter
    broken = M_E3.data[:-1] + b'8'
    got, error, err = scan(M_ONE.data + broken + M_SIG.data, decoder, filter_expr='${%data_category} != 2')
    check(error is None and [m.serialized_bytes for m in got] == [M_ONE.data, M_SIG.data], 'broken body filtered out')
    got, error, err = scan(M_ONE.data + broken + M_SIG.data, decoder, filter_expr='${%data_category} != 7')
    check(type(error) is PyBufrKitError and [m.serialized_bytes for m in got] == [], 'broken body selected')
    # ... its length is what the metadata pass consumed, the search goes on from there
    got, error, err = scan(broken + M_SIG.data, decoder, filter_expr='${%data_category} == 0')
    check(error is None and [m.serialized_bytes for m in got] == [M_SIG.data], 'advance behind the metadata')


# ----------------------------------------------------------------------------------------
# 4. Table definition messages
# ----------------------------------------------------------------------------------------
def test_table_definitions():
    with open(os.path.join('tests', 'data', 'prepbufr.bufr'), 'rb') as ins:
        prep = ins.read()
    pieces = ref_info_split(prep)
    check(sum(map(len, pieces)) + 94 == len(prep) and len(pieces) == 13 and all(p[-4:] == b'7777' for p in pieces), 'prepbufr pieces')
    categories = [p[16] for p in pieces]  # edition 3: octet 9 of section 1
    check(categories == [11, 11] + [243] * 11, 'prepbufr categories')
    data_pieces = pieces[2:]
    cache = TableGroupCacheManager._TABLE_GROUP_CACHE

    # Without the definitions the data messages cannot be decoded
    reset_tables()
    got, error, err = scan(b''.join(data_pieces))
    check(got == [] and isinstance(error, PyBufrKitError), 'data messages need the definitions')

    # (a) plain scan
    reset_tables()
    got, error, err = scan(b'\x00BUF' + prep + b'BUF')
    check(error is None and [m.serialized_bytes for m in got] == pieces, 'prepbufr: all pieces')
    check([m.n_subsets.value for m in got] == [1, 0] + [14] * 10 + [1], 'prepbufr: subsets')
    check(all(len(decoded_values(m)) == m.n_subsets.value for m in got), 'prepbufr: decoded')
    check(bool(cache.extra_b_entries) and bool(cache.extra_d_entries), 'prepbufr: definitions registered')
    n_b, n_d = len(cache.extra_b_entries), len(cache.extra_d_entries)
    reference_values = [decoded_values(m) for m in got]

    # (b) the definition messages rejected by the filter still define
    reset_tables()
    got, error, err = scan(prep, filter_expr='${%data_category} != 11')
    check(error is None and [m.serialized_bytes for m in got] == data_pieces, 'prepbufr filtered: data pieces')
    check([decoded_values(m) for m in got] == reference_values[2:], 'prepbufr filtered: same values')
    check((len(cache.extra_b_entries), len(cache.extra_d_entries)) == (n_b, n_d), 'prepbufr filtered: registered')

    # (c) selected by the filter
    reset_tables()
    got, error, err = scan(prep, filter_expr='${%data_category} == 11')
    check(error is None and [m.serialized_bytes for m in got] == pieces[:2], 'prepbufr filtered: definition pieces')
    check((len(cache.extra_b_entries), len(cache.extra_d_entries)) == (n_b, n_d), 'prepbufr selected: registered')

    # (d) metadata only: nothing is registered, with or without filter
    for expr in (None, '${%data_category} != 11', '${%n_subsets} > 0'):
        reset_tables()
        got, error, err = scan(prep, info_only=True, filter_expr=expr)
        expected = [p for p, c in zip(pieces, categories)
                    if expr is None or (c != 11 if 'category' in expr else p is not pieces[1])]
        check(error is None and [m.serialized_bytes for m in got] == expected, 'prepbufr info only {!r}'.format(expr))
        check(not cache.has_extra_entries(), 'prepbufr info only: nothing registered')

    # (e) compiled templates are dropped when definitions arrive, and only then
    for expr in (None, '${%data_category} != 11'):
        reset_tables()
        decoder = Decoder(compiled_template_cache_max=10)
        decoder.process(M_E3.data)
        check(len(decoder.compiled_template_manager.cache) == 1, 'one compiled template')
        g = generate_bufr_message(decoder, M_ONE.data + prep, filter_expr=expr)
        check(next(g).serialized_bytes == M_ONE.data and len(decoder.compiled_template_manager.cache) == 2,
              'ordinary message: compiled templates kept')
        m = next(g)
        check(m.serialized_bytes == (pieces[0] if expr is None else pieces[2]), 'next piece')
        # the definition message's own template was compiled before the cache was cleared
        check(len(decoder.compiled_template_manager.cache) == (0 if expr is None else 1), 'compiled templates dropped')
        check([x.serialized_bytes for x in g] == (pieces[1:] if expr is None else pieces[3:]), 'rest of the pieces')

    # (f) category 11 in another layout: an ordinary message, a warning, nothing registered
    reset_tables()
    other = build(3, 11, [1001, 1002], [[1, 2]], name='category 11, other layout')
    two_subsets = build(4, 11, [1001], [[1], [2]], name='category 11, two subsets')
    records = []
    handler = logging.Handler()
    handler.emit = records.append
    decoder_module.log.addHandler(handler)
    try:
        decoder = Decoder(compiled_template_cache_max=10)
        for expr, expected in ((None, [other, two_subsets, M_ONE]), ('${%edition} == 4', [two_subsets, M_ONE])):
            del records[:]
            decoder.compiled_template_manager.cache.clear()
            got, error, err = scan(other.data + b'BUF' + two_subsets.data + M_ONE.data, decoder, filter_expr=expr)
            check(error is None and [m.serialized_bytes for m in got] == [m.data for m in expected], 'other layout')
            for m, msg in zip(got, expected):
                check_content(m, msg, False, 'other layout')
            warnings = [r.getMessage() for r in records if r.levelno == logging.WARNING]
            check(len(warnings) == 2 and all(w.startswith('No table definitions taken') for w in warnings),
                  'other layout: two warnings {}'.format(warnings))
            check(not cache.has_extra_entries(), 'other layout: nothing registered')
            # ([1001, 1002] once, [1001] for two messages of the same tables)
            check(len(decoder.compiled_template_manager.cache) == 2, 'other layout: compiled templates kept')
    finally:
        decoder_module.log.removeHandler(handler)
    reset_tables()


# ----------------------------------------------------------------------------------------
# 5. Errors: stop or resynchronise
# ----------------------------------------------------------------------------------------
def test_errors():
    decoder = Decoder()
    bad_end = M_E3.data[:-1] + b'8'  # metadata fine, end signature wrong
    junk_head = b'BUFR\x00\x00\x10\x04'  # not even the metadata can be read
    # bad end signature and a declared length that covers the next message as well
    swallow = with_length(M_E3, M_E3.length + M_ONE.length)[:-1] + b'8'

    def pieces_of(stream, **kwargs):
        got, error, err = scan(stream, decoder, **kwargs)
        return [m.serialized_bytes for m in got], error, err.count('Continuing on next message and ignoring error')

    # stop at the first error
    stream = b'xx' + M_SIG.data + b'yy' + bad_end + M_ONE.data
    got, error, n = pieces_of(stream)
    check(got == [M_SIG.data] and type(error) is PyBufrKitError and n == 0, 'stops at the bad message')
    check('7778' in str(error), 'the error of the message')
    got, error, n = pieces_of(stream, info_only=True)
    check(got == [M_SIG.data, bad_end, M_ONE.data] and error is None, 'metadata only: not a bad message')
    got, error, n = pieces_of(stream, ignore_value_expectation=True)
    check(got == [M_SIG.data, bad_end, M_ONE.data] and error is None, 'keyword arguments reach the decoder')
    got, error, n = pieces_of(M_ONE.data + junk_head, info_only=True)
    check(got == [M_ONE.data] and type(error) is BitReadError, 'metadata only: stops at unreadable metadata')
    got, error, n = pieces_of(M_ONE.data + M_E3.data[:-10])
    check(got == [M_ONE.data] and type(error) is BitReadError, 'stops at the truncated message')

    # continue: skip the declared length
    got, error, n = pieces_of(stream, continue_on_error=True)
    check(got == [M_SIG.data, M_ONE.data] and error is None and n == 1, 'continues behind the bad message')
    got, error, n = pieces_of(M_SIG.data + swallow + M_ONE.data + M_E2.data, continue_on_error=True)
    check(got == [M_SIG.data, M_E2.data] and error is None and n == 1, 'skips what the bad message declares')
    got, error, n = pieces_of(M_SIG.data + swallow + M_ONE.data + M_E2.data, continue_on_error=True, info_only=True)
    check(got == [M_SIG.data, swallow + M_ONE.data, M_E2.data] and error is None and n == 0, 'the same, metadata only')
    got, error, n = pieces_of(swallow, continue_on_error=True)
    check(got == [] and error is None and n == 1, 'skips beyond the end')

    # continue: metadata unreadable as well, one byte on
    got, error, n = pieces_of(junk_head + M_ONE.data + b'zz' + M_E2.data, continue_on_error=True)
    check(got == [M_ONE.data, M_E2.data] and error is None and n == 1, 'one byte on (decoding)')
    got, error, n = pieces_of(junk_head + M_ONE.data + b'zz' + M_E2.data, continue_on_error=True, info_only=True)
    check(got == [M_ONE.data, M_E2.data] and error is None and n == 1, 'one byte on (metadata only)')
    got, error, n = pieces_of(M_ONE.data + junk_head, continue_on_error=True)
    check(got == [M_ONE.data] and error is None and n == 1, 'junk at the end')
    # truncated message whose payload contains signatures: every one of them is tried
    cut = M_SIG.data[:-6]
    got, error, n = pieces_of(M_E3.data + cut, continue_on_error=True)
    check(got == [M_E3.data] and error is None and n == 3, 'truncated at the end (decoding): {}'.format(n))
    got, error, n = pieces_of(M_E3.data + cut, continue_on_error=True, info_only=True)
    check(got == [M_E3.data] and error is None and n == 3, 'truncated at the end (metadata only): {}'.format(n))

    # a declared length that ends before the signatures in the payload (metadata only)
    short = with_length(M_SIG, 40)
    got, error, n = pieces_of(short + M_E2.data, info_only=True)
    check(got == [short[:40]] and isinstance(error, PyBufrKitError), 'signature in the payload: stops')
    got, error, n = pieces_of(short + M_E2.data, info_only=True, continue_on_error=True)
    check(got == [short[:40], M_E2.data] and error is None and n == 2, 'signatures in the payload: {}'.format(n))

    # with a filter
    got, error, n = pieces_of(stream, continue_on_error=True, filter_expr='${%edition} > 0')
    check(got == [M_SIG.data, M_ONE.data] and error is None and n == 1, 'continues, filter')
    got, error, n = pieces_of(junk_head + stream, continue_on_error=True, filter_expr='${%edition} == 4', info_only=True)
    check(got == [M_SIG.data, M_ONE.data] and error is None and n == 1, 'continues, filter, metadata only')

    # the sample file of the test suite
    with open(os.path.join('tests', 'data', 'multi_invalid_messages.bufr'), 'rb') as ins:
        multi = ins.read()
    got, error, n = pieces_of(multi, continue_on_error=True)
    check(len(got) == 1 and error is None and got[0][:4] == b'BUFR' and got[0][-4:] == b'7777' and got[0] in multi,
          'sample: one good message')
    got2, error, n = pieces_of(multi, continue_on_error=True, filter_expr='${%data_category} == 2')
    check(got2 == got, 'sample: filter')
    got, error, n = pieces_of(multi)
    check(got == [] and isinstance(error, PyBufrKitError), 'sample: stops')

    # positional arguments go to the decoder as well (file_path), too many collide with start_signature
    g = generate_bufr_message(decoder, M_ONE.data, False, False, None, 'some.bufr')
    check([m.filename for m in g] == ['some.bufr'], 'positional file path')
    got, error, err = scan(M_ONE.data + M_E3.data, decoder, file_path='other.bufr', filter_expr='${%edition} == 3')
    check([(m.filename, m.serialized_bytes) for m in got] == [('other.bufr', M_E3.data)], 'file path by keyword')
    g = generate_bufr_message(decoder, M_ONE.data, False, True, None, 'some.bufr', b'BUFR')
    try:
        next(g)
        check(False, 'two positional arguments')
    except TypeError:
        check(True, 'two positional arguments')
    for kwargs in ({'start_signature': b'BUFR'}, {'no_such_argument': 1}):
        got, error, err = scan(M_ONE.data, decoder, continue_on_error=True, **kwargs)
        check(got == [] and type(error) is TypeError, 'keyword collision {}'.format(kwargs))


# ----------------------------------------------------------------------------------------
# 6. An error thrown in at the yield finds the scan behind the message just yielded
# ----------------------------------------------------------------------------------------
def test_throw():
    decoder = Decoder()
    stream = M_E3.data + M_OKPR.data + M_ONE.data + M_E2.data
    for info_only in (False, True):
        # resynchronise: decoding skips what the *next* message declares, metadata only one byte of it
        err = io.StringIO()
        with contextlib.redirect_stderr(err):
            g = generate_bufr_message(decoder, stream, info_only=info_only, continue_on_error=True)
            check(next(g).serialized_bytes == M_E3.data, 'throw: first')
            m = g.throw(PyBufrKitError('thrown in'))
            check(m.serialized_bytes == M_ONE.data, 'throw: the message after the next one')
            check([x.serialized_bytes for x in g] == [M_E2.data], 'throw: rest')
        check(err.getvalue().count('thrown in') == 1, 'throw: reported')
        # junk behind the yielded message: one byte on either way
        with contextlib.redirect_stderr(io.StringIO()):
            g = generate_bufr_message(decoder, M_E3.data + b'zz' + M_OKPR.data, info_only=info_only, continue_on_error=True)
            next(g)
            check(g.throw(PyBufrKitError('thrown in')).serialized_bytes == M_OKPR.data, 'throw: junk behind')
        # not continuing: the very same error comes back
        g = generate_bufr_message(decoder, stream, info_only=info_only)
        next(g)
        thrown = BitReadError('thrown in')
        try:
            g.throw(thrown)
            check(False, 'throw: raised')
        except PyBufrKitError as e:
            check(e is thrown, 'throw: same object')
        check(list(g) == [], 'throw: generator finished')
        # other exceptions are not the generator's business
        g = generate_bufr_message(decoder, stream, info_only=info_only, continue_on_error=True)
        next(g)
        try:
            g.throw(KeyError('k'))
            check(False, 'throw: KeyError')
        except KeyError:
            check(True, 'throw: KeyError')


if __name__ == '__main__':
    test_splitting()
    test_declared_length()
    test_filters()
    test_table_definitions()
    test_errors()
    test_throw()
    print('OK: {} checks'.format(N_CHECKS[0]))
