import os, sys; sys.path.insert(0, os.getcwd())
"""
Differential demonstration for refactor 8 (the sized format strings of the reader
and of the writer are put together in one place each).

Everything is compared with a model that knows nothing of bitstring: a string of
'0' / '1' characters built with format(), and a cursor into it.
"""
import random

from pybufrkit import bitops
from pybufrkit.errors import BitReadError, PyBufrKitError

assert os.path.dirname(os.path.abspath(bitops.__file__)) == os.path.join(os.getcwd(), 'pybufrkit'), bitops.__file__

CHECKS = [0]


def check(cond, *what):
    CHECKS[0] += 1
    if not cond:
        print('FAIL', *what)
        sys.exit(1)


def outcome(func, *args):
    try:
        return 'ok', func(*args)
    except Exception as e:
        return 'raise', type(e).__name__, e


def refused(res, exc_type, *what):
    check(res[0] == 'raise' and type(res[2]) is exc_type, 'expected', exc_type.__name__, 'got', res, *what)


# ---------------------------------------------------------------- the model
def m_uint(value, nbits):
    assert 0 <= value < (1 << nbits)
    return format(value, '0{}b'.format(nbits))


def m_bytes(value):
    return ''.join(format(b, '08b') for b in bytearray(value))


def bits_to_bytes(bits):
    bits = bits + '0' * (-len(bits) % 8)
    return bytes(bytearray(int(bits[i:i + 8], 2) for i in range(0, len(bits), 8)))


def writer_bits(w):
    """Content of a writer as a '0'/'1' string: to_bytes() of a padded copy"""
    n = w.get_pos()
    pad = -n % 8
    if pad == 0:
        data = w.to_bytes()
    else:
        w2 = bitops.get_bit_writer()
        w2.write_bin(w.bit_stream.bin)
        w2.write_bin('0' * pad)
        data = w2.to_bytes()
    s = m_bytes(data)
    check(len(s) == n + pad, 'length', len(s), n, pad)
    return s[:n]


PREFIX = '01001011'
MISSING = lambda n: (1 << n) - 1


def values_for(nbits):
    return sorted({0, 1, 1 << (nbits - 1), (1 << nbits) - 2, (1 << nbits) - 1} - {-1})


def writer_at(offset):
    w = bitops.get_bit_writer()
    if offset:
        w.write_bin(PREFIX[:offset])
    return w


def reader_at(bits, offset):
    r = bitops.get_bit_reader(bits_to_bytes(bits))
    if offset:
        check(r.read_bin(offset) == bits[:offset], 'prefix')
    return r


# ------------------------------------- 1. exhaustive: write_uint / read_uint / read_uint_or_none / set_uint
for nbits in range(1, 65):          # 8, 16, .. 64 take the uintbe format, the others uint
    for offset in range(8):
        for value in values_for(nbits):
            w = writer_at(offset)
            ret = w.write_uint(value, nbits)
            check(ret == value and type(ret) is int, 'write_uint return', nbits, value, ret)
            check(w.get_pos() == offset + nbits, 'writer pos', nbits, offset)
            w.write_bin('011')
            expected = PREFIX[:offset] + m_uint(value, nbits) + '011'
            check(writer_bits(w) == expected, 'write_uint bits', nbits, offset, value)

            r = reader_at(expected, offset)
            got = r.read_uint(nbits)
            check(got == value and type(got) is int, 'read_uint', nbits, offset, value, got)
            check(r.get_pos() == offset + nbits == w.get_pos() - 3, 'reader pos', nbits, offset)
            check(r.read_bin(3) == '011', 'trailer')

            r = reader_at(expected, offset)
            got = r.read_uint_or_none(nbits)
            want = None if (nbits > 1 and value == MISSING(nbits)) else value
            check(got == want and type(got) is type(want), 'read_uint_or_none', nbits, offset, value, got)
            check(r.get_pos() == offset + nbits, 'reader pos (or_none)')

            # in-place overwrite of a skipped (zero) field, then of a field of ones
            for old in (0, MISSING(nbits)):
                w = writer_at(offset)
                if old == 0:
                    check(w.skip(nbits) is None, 'skip return')
                else:
                    w.write_uint(old, nbits)
                w.write_bin('011')
                length = w.get_pos()
                check(w.set_uint(value, nbits, offset) is None, 'set_uint return')
                check(w.get_pos() == length == offset + nbits + 3, 'set_uint keeps the length', nbits, offset)
                check(writer_bits(w) == expected, 'set_uint bits', nbits, offset, value, old)
                w.write_bool(True)
                check(writer_bits(w) == expected + '1', 'appending after set_uint')

        # values that do not fit
        for bad in (1 << nbits, (1 << nbits) + 1, -1, -(1 << nbits)):
            w = writer_at(offset)
            refused(outcome(w.write_uint, bad, nbits), ValueError, nbits, bad)
            check(w.get_pos() == offset and writer_bits(w) == PREFIX[:offset], 'refused write leaves writer alone')
            w.skip(nbits)
            refused(outcome(w.set_uint, bad, nbits, offset), ValueError, nbits, bad)
            check(writer_bits(w) == PREFIX[:offset] + '0' * nbits, 'refused set_uint leaves writer alone')

        # reading past the end: one bit short, and nothing at all
        for avail in sorted({0, nbits - 1}):
            r = bitops.get_bit_reader(b'\x5a' * 8)
            if 64 - avail:
                r.read_bin(64 - avail)
            for res in (outcome(r.read_uint, nbits), outcome(r.read_uint_or_none, nbits), outcome(r.read, 'uint', nbits)):
                refused(res, BitReadError, nbits, avail)
                check(isinstance(res[2], PyBufrKitError), 'base class')
                check(res[2].message == 'Needed a length of at least {} bits, but only {} bits were available.'
                      .format(nbits, avail), 'message', res[2].message)
                check(r.get_pos() == 64 - avail, 'failed read moves nothing', r.get_pos())

# ------------------------------------- 2. bool, bin, bytes, skip
for offset in range(8):
    for v, bit in ((True, '1'), (False, '0'), (1, '1'), (0, '0')):
        w = writer_at(offset)
        ret = w.write_bool(v)
        check(ret is v, 'write_bool return')
        check(writer_bits(w) == PREFIX[:offset] + bit, 'write_bool bits', offset, v)
        r = reader_at(PREFIX[:offset] + bit, offset)
        got = r.read_bool()
        check(got is bool(v), 'read_bool', got)
        check(r.get_pos() == offset + 1 == w.get_pos(), 'bool pos')
    r = reader_at(PREFIX[:offset] + '1', offset)
    check(r.read('bool', 17) is True and r.get_pos() == offset + 1, 'generic bool ignores the width')

    for nbits in range(0, 65):
        for pattern in ('0' * nbits, '1' * nbits, ('10' * nbits)[:nbits], ('01' * nbits)[:nbits]):
            w = writer_at(offset)
            ret = w.write_bin(pattern)
            check(ret is pattern, 'write_bin return')
            check(w.get_pos() == offset + nbits, 'write_bin pos', offset, nbits)
            w.write_bool(True)
            bits = PREFIX[:offset] + pattern + '1'
            check(writer_bits(w) == bits, 'write_bin bits', offset, pattern)
            r = reader_at(bits, offset)
            got = r.read_bin(nbits)
            check(got == pattern and type(got) is str, 'read_bin', offset, pattern, got)
            check(r.get_pos() == offset + nbits, 'read_bin pos')
            check(r.read_bool() is True, 'bit after bin')
        if nbits:
            w = writer_at(offset)
            check(w.write(('10' * nbits)[:nbits], 'bin', 999) is not None, 'generic bin')   # the width comes from the value
            check(w.get_pos() == offset + nbits, 'generic bin pos')

    for nbytes in range(0, 9):
        text = b'AbCd ~z!'[:nbytes]
        bits = PREFIX[:offset] + m_bytes(text) + '10'
        r = reader_at(bits, offset)
        got = r.read_bytes(nbytes)
        check(got == text and type(got) is bytes, 'read_bytes', offset, nbytes, got)
        check(r.get_pos() == offset + 8 * nbytes, 'read_bytes pos')
        check(r.read_bin(2) == '10', 'bits after bytes')
        r = reader_at(bits, offset)
        check(r.read('bytes', nbytes * 8 + 7) == text, 'generic bytes floors the width')
        # padded with blanks / truncated to the width / taken whole
        for given in (text, text[:nbytes // 2], text + b'xyz'):
            w = writer_at(offset)
            ret = w.write_bytes(given, nbytes)
            want = (given + b' ' * nbytes)[:nbytes]
            check(ret == want, 'write_bytes return', given, nbytes, ret)
            check(writer_bits(w) == PREFIX[:offset] + m_bytes(want), 'write_bytes bits', offset, given, nbytes)
        w = writer_at(offset)
        check(w.write_bytes(u'caf\xe9') == b'caf\xe9' and w.get_pos() == offset + 32, 'text is latin-1')

    for nbits in range(1, 65):
        w = writer_at(offset)
        check(w.skip(nbits) is None and w.get_pos() == offset + nbits, 'skip', offset, nbits)
        w.write_bool(True)
        check(writer_bits(w) == PREFIX[:offset] + '0' * nbits + '1', 'skip bits', offset, nbits)

# running out of bits in the other reads
r = bitops.get_bit_reader(b'')
for res in (outcome(r.read_bool), outcome(r.read_bin, 1), outcome(r.read_bytes, 1), outcome(r.read, 'bool', 1),
            outcome(r.read, 'bin', 3), outcome(r.read, 'bytes', 8)):
    refused(res, BitReadError)
    check(r.get_pos() == 0, 'pos')
r = bitops.get_bit_reader(b'ab')
r.read_bool()
for func, arg, need in ((r.read_bytes, 2, 16), (r.read_bin, 16, 16), (r.read_uint, 16, 16)):
    res = outcome(func, arg)
    refused(res, BitReadError)
    check(res[2].message == 'Needed a length of at least {} bits, but only 15 bits were available.'.format(need),
          res[2].message)
    check(r.get_pos() == 1, 'pos')
check(r.read_bytes(0) == b'' and r.read_bin(0) == '' and r.get_pos() == 1, 'empty reads')

# ------------------------------------- 3. arguments bitstring (or Python) refuses: same types, nothing moves
r = bitops.get_bit_reader(b'abcd')
for func, arg, exc in ((r.read_uint, 0, ValueError), (r.read_uint, -1, ValueError), (r.read_uint, -8, ValueError),
                       (r.read_uint, 'x', TypeError), (r.read_uint, None, TypeError), (r.read_uint, 2.0, ValueError),
                       (r.read_uint, 8.0, ValueError), (r.read_bin, 'x', ValueError), (r.read_bin, -1, ValueError),
                       (r.read_bin, None, ValueError), (r.read_bytes, 'x', ValueError), (r.read_bytes, -1, ValueError),
                       (r.read_bytes, 1.0, ValueError), (r.read_uint_or_none, 0, ValueError)):
    refused(outcome(func, arg), exc, func.__name__, arg)
    check(r.get_pos() == 0, 'pos after refusal')
refused(outcome(r.read, 'float', 32), AttributeError)
refused(outcome(r.read, 'sized', 32), AttributeError)      # no way to reach the helper through the dispatch
refused(outcome(r.read_uint_or_none, 256), BitReadError)  # runs out of bits before the table runs out
r = bitops.get_bit_reader(b'\xff' * 40)
refused(outcome(r.read_uint_or_none, 256), IndexError)
check(r.get_pos() == 256, 'bits consumed before the table lookup')

for func, args, exc in (('write_uint', (0, 0), ValueError), ('write_uint', (1, -3), ValueError),
                        ('write_uint', ('x', 4), ValueError), ('write_uint', (None, 4), TypeError),
                        ('write_uint', (3, 'x'), TypeError), ('write_uint', (3, None), TypeError),
                        ('write_uint', (3, 4.0), ValueError), ('write_uint', (3, 8.0), ValueError),
                        ('write_bin', ('10x',), ValueError), ('write_bin', ('0b1',), ValueError),
                        ('write_bin', (5,), TypeError), ('write_bin', (None,), TypeError),
                        ('write_bool', ('x',), ValueError), ('write_bool', (2,), ValueError),
                        ('skip', (0,), ValueError), ('skip', (-3,), ValueError), ('skip', (-8,), ValueError),
                        ('skip', ('x',), TypeError), ('skip', (None,), TypeError), ('skip', (8.0,), ValueError),
                        ('write', (1, 'float', 32), AttributeError), ('write', (1, 'sized', 8), AttributeError)):
    w = writer_at(3)
    refused(outcome(getattr(w, func), *args), exc, func, args)
    check(w.get_pos() == 3 and writer_bits(w) == PREFIX[:3], 'writer untouched', func, args)
# what int() accepts is written as the int
for given, nbits, want in ((3.9, 4, 3), ('12', 4, 12), (True, 1, 1), (' 7 ', 8, 7), (255.0, 8, 255)):
    w = writer_at(5)
    ret = w.write_uint(given, nbits)
    check(ret == want and type(ret) is int, 'int conversion', given, ret)
    check(writer_bits(w) == PREFIX[:5] + m_uint(want, nbits), 'int conversion bits', given)
# bin values are formatted into the string: white space and a list of characters do not survive that the same way
w = writer_at(0)
check(w.write_bin('') == '' and w.get_pos() == 0, 'empty bin')
w = writer_at(0)
res = outcome(w.write_bin, ['1', '0'])
refused(res, ValueError, 'list as bin')
check(w.get_pos() == 0, 'list as bin pos')

# ------------------------------------- 4. random sequences of mixed fields
rng = random.Random(1908)


def random_field():
    kind = rng.choice(['uint', 'uint', 'int', 'bool', 'bin', 'bytes', 'skip'])
    if kind == 'bool':
        v = rng.random() < 0.5
        return kind, 1, v, '1' if v else '0'
    if kind == 'bytes':
        nbytes = rng.randint(1, 8)
        v = bytes(bytearray(rng.randint(33, 126) for _ in range(nbytes)))
        return kind, nbytes * 8, v, m_bytes(v)
    nbits = rng.choice([rng.randint(1, 64), 8 * rng.randint(1, 8)])
    if kind == 'skip':
        return kind, nbits, 0, '0' * nbits
    if kind == 'bin':
        v = ''.join(rng.choice('01') for _ in range(nbits))
        return kind, nbits, v, v
    if kind == 'uint':
        v = rng.choice([0, (1 << nbits) - 1, rng.randrange(1 << nbits)])
        return kind, nbits, v, m_uint(v, nbits)
    top = (1 << (nbits - 1)) - 1
    v = rng.choice([0, top, -top, rng.randint(-top, top)])
    return kind, nbits, v, ('1' if v < 0 else '0') + (m_uint(abs(v), nbits - 1) if nbits > 1 else '')


for trial in range(150):
    fields = [random_field() for _ in range(rng.randint(1, 200))]
    w = bitops.get_bit_writer()
    model = ''
    spans = []
    for kind, nbits, v, bits in fields:
        spans.append(len(model))
        if kind == 'skip':
            w.skip(nbits)
        elif trial % 2:
            w.write(v, kind, nbits)
        else:
            {'uint': lambda: w.write_uint(v, nbits), 'int': lambda: w.write_int(v, nbits),
             'bool': lambda: w.write_bool(v), 'bin': lambda: w.write_bin(v),
             'bytes': lambda: w.write_bytes(v, nbits // 8)}[kind]()
        model += bits
        check(w.get_pos() == len(model), 'pos in sequence', trial, kind, nbits)
    check(writer_bits(w) == model, 'sequence bits', trial)

    # overwrite some unsigned / skipped fields in place, anywhere in the stream
    for i, (kind, nbits, v, bits) in enumerate(fields):
        if kind in ('uint', 'skip') and rng.random() < 0.5:
            nv = rng.randrange(1 << nbits)
            w.set_uint(nv, nbits, spans[i])
            model = model[:spans[i]] + m_uint(nv, nbits) + model[spans[i] + nbits:]
            fields[i] = ('uint', nbits, nv, m_uint(nv, nbits))
    check(w.get_pos() == len(model), 'length after overwrites', trial)
    check(writer_bits(w) == model, 'bits after overwrites', trial)

    r = bitops.get_bit_reader(bits_to_bytes(model))
    pos = 0
    for kind, nbits, v, bits in fields:
        if kind == 'skip':
            got, v = r.read_uint(nbits), 0
        elif trial % 2:
            got = r.read(kind, nbits)
        else:
            got = {'uint': lambda: r.read_uint(nbits), 'int': lambda: r.read_int(nbits),
                   'bool': lambda: r.read_bool(), 'bin': lambda: r.read_bin(nbits),
                   'bytes': lambda: r.read_bytes(nbits // 8)}[kind]()
        pos += nbits
        check(got == v and type(got) is type(v), 'sequence value', trial, kind, nbits, got, v)
        check(r.get_pos() == pos, 'reader pos in sequence', trial, kind, nbits)
    check(pos == w.get_pos(), 'reader and writer end at the same place')
    refused(outcome(r.read_uint, 8), BitReadError, 'end of sequence')

print('demo 8: %d checks passed' % CHECKS[0])
