"""
Demo for refactor 2 (encoder.py: total length back-patch of Encoder.process moved
to a method written with a guard clause; bitops.py: BitStringBitWriter.set_uint as
a conditional expression).

Checks the section-0 length field of encoded messages in every configuration
(recompute / honour, declared 0 / exact / too small / too large), the bytes that
are patched, and set_uint itself on whole-octet and odd widths.
Must exit 0 with and without the patch.
"""
import os, sys; sys.path.insert(0, os.getcwd())

import json

import bitstring
import pybufrkit
assert os.path.dirname(os.path.abspath(pybufrkit.__file__)).startswith(os.getcwd()), pybufrkit.__file__

from pybufrkit.bitops import get_bit_writer, BitStringBitWriter
from pybufrkit.encoder import Encoder
from pybufrkit.decoder import Decoder
from pybufrkit.errors import PyBufrKitError

DATA_DIR = os.path.join(os.getcwd(), 'tests', 'data')


def descriptors_for(nbits):
    if nbits == 0:
        return []
    assert nbits >= 2
    n3 = nbits % 2
    n2 = (nbits - 3 * n3) // 2
    return [1003] * n3 + [2001] * n2


def build(edition, nbits, sec2=None, lens=(0, 0, 0, 0, 0)):
    total, l1, l2, l3, l4 = lens
    descs = descriptors_for(nbits)
    vals = [1] * len(descs)
    has2 = sec2 is not None
    if edition == 2:
        s1 = [l1, 0, 98, 0, has2, '0000000', 0, 0, 25, 0, 17, 3, 4, 5, 6, 7]
    elif edition == 3:
        s1 = [l1, 0, 0, 98, 0, has2, '0000000', 0, 0, 25, 0, 17, 3, 4, 5, 6, 7]
    else:
        s1 = [l1, 0, 98, 0, 0, has2, '0000000', 0, 0, 0, 25, 0, 2017, 3, 4, 5, 6, 7]
    msg = [['BUFR', total, edition], s1]
    if has2:
        msg.append([l2, '00000000', sec2])
    msg.append([l3, '00000000', 1, True, False, '000000', descs])
    msg.append([l4, '00000000', [vals]])
    msg.append(['7777'])
    return msg


def check_frame(msg):
    b = msg.serialized_bytes
    assert b[:4] == b'BUFR' and b[-4:] == b'7777'
    assert int.from_bytes(b[4:7], 'big') == len(b) == msg.length.value
    assert b[7] == msg.edition.value
    assert type(msg.length.value) is int
    return b


recompute = Encoder()                             # ignore_declared_length=True
honour = Encoder(ignore_declared_length=False)
decoder = Decoder()

# ---- 1. from-scratch messages, every configuration of the declared total length
for edition in (2, 3, 4):
    for nbits in (0, 2, 7, 8, 9, 15, 16, 17, 31):
        for sec2 in (None, '', '101'):
            ref = check_frame(recompute.process(build(edition, nbits, sec2)))
            true_len = len(ref)

            # recompute: whatever is declared is overwritten
            for declared in (0, 1, true_len - 1, true_len, true_len + 1, 0xFFFFFF):
                m = recompute.process(build(edition, nbits, sec2, lens=(declared, 0, 0, 0, 0)))
                assert check_frame(m) == ref

            # honour: zero means calculate, the exact value is accepted verbatim
            for declared in (0, true_len):
                m = honour.process(build(edition, nbits, sec2, lens=(declared, 0, 0, 0, 0)))
                assert check_frame(m) == ref

            # honour: anything else is refused, in both directions, with the signed excess
            for declared in (1, true_len - 2, true_len - 1, true_len + 1, true_len + 2, 0xFFFFFF):
                try:
                    honour.process(build(edition, nbits, sec2, lens=(declared, 0, 0, 0, 0)))
                except PyBufrKitError as e:
                    assert e.message == 'Write exceeds declared total length {} by {} bytes'.format(
                        declared, true_len - declared), e.message
                    assert type(e) is PyBufrKitError
                else:
                    raise AssertionError('wrong total length {} accepted'.format(declared))

            # the decoder agrees on the span, whatever follows
            for tail in (b'', b'\x00', b'BUFR', b'7777' * 3):
                d = decoder.process(ref + tail)
                assert d.serialized_bytes == ref and d.length.value == true_len

# ---- 2. honoured section surplus counts in the total
for edition in (2, 3, 4):
    base = recompute.process(build(edition, 9, '1'))
    l1, l2, l3, l4 = [s.section_length.value for s in base.sections if 'section_length' in s]
    for e1, e2, e3, e4 in ((2, 0, 0, 0), (1, 0, 0, 0), (0, 1, 0, 0), (0, 0, 1, 0), (0, 0, 0, 3), (1, 2, 1, 5)):
        if edition < 4 and e3:
            # two or more spare octets in section 3 would read as a descriptor 000000;
            # editions <= 3 already carry one padding octet there
            continue
        lens = (0, l1 + e1, l2 + e2, l3 + e3, l4 + e4)
        b = check_frame(honour.process(build(edition, 9, '1', lens=lens)))
        assert len(b) == len(base.serialized_bytes) + e1 + e2 + e3 + e4
        exact = (len(b),) + lens[1:]
        assert honour.process(build(edition, 9, '1', lens=exact)).serialized_bytes == b
        assert decoder.process(b + b'trailer').serialized_bytes == b

# ---- 3. a message longer than 65535 octets uses all three octets of the field
big = '10' * (4 * 70000)
m = recompute.process(build(4, 5, big))
b = check_frame(m)
assert len(b) > 0x10000 and b[4] != 0
assert decoder.process(b + b'xx').serialized_bytes == b
assert honour.process(build(4, 5, big, lens=(len(b), 0, 0, 0, 0))).serialized_bytes == b

# ---- 4. sample files: JSON dumps re-encoded, declared lengths recomputed or honoured
IDENTICAL = ('IUSK73_AMMC_182300', 'rado_250')  # these re-encode to the very bytes of the file
for stub in IDENTICAL + ('207003', 'jaso_214', 'profiler_european', 'b002_95', 'g2nd_208', 'b005_89'):
    with open(os.path.join(DATA_DIR, stub + '.json')) as ins:
        text = ins.read()
    with open(os.path.join(DATA_DIR, stub + '.bufr'), 'rb') as ins:
        raw = ins.read()
    start = raw.find(b'BUFR')
    original = decoder.process(raw).serialized_bytes
    assert original == raw[start:start + len(original)] and original.endswith(b'7777')
    assert int.from_bytes(original[4:7], 'big') == len(original)

    got = check_frame(recompute.process(text))
    assert decoder.process(b'junk' + got + b'junk').serialized_bytes == got
    if stub in IDENTICAL:
        assert got == original

    # honour: the declared section lengths of the dump either fit (then the total
    # must be exact too) or the message is refused
    try:
        m = honour.process(text)
    except PyBufrKitError as e:
        assert stub not in IDENTICAL
        assert e.message.startswith('Writing exceeds declared section length'), e.message
        fits = False
    else:
        fits = True
        b = check_frame(m)
        assert len(b) == len(original)
        if stub in IDENTICAL:
            assert b == original

    # a wrong declared total in the JSON: recomputed, or refused
    data = json.loads(text)
    data[0][1] += 2
    assert check_frame(recompute.process(data)) == got
    try:
        honour.process(data)
    except PyBufrKitError as e:
        if fits:
            assert e.message == 'Write exceeds declared total length {} by -2 bytes'.format(
                len(original) + 2), e.message
    else:
        raise AssertionError('wrong total accepted')

# ---- 5. set_uint in isolation
for nbits in (1, 3, 7, 8, 9, 12, 16, 17, 24, 31, 32):
    for bitpos in (0, 1, 5, 8, 13, 32):
        for value in (0, 1, (1 << nbits) - 1, (1 << nbits) // 3):
            w = get_bit_writer()
            assert isinstance(w, BitStringBitWriter)
            w.write_bin('1' * (bitpos + nbits + 11))
            before = w.get_pos()
            assert w.set_uint(value, nbits, bitpos) is None
            assert w.get_pos() == before
            bits = w.bit_stream.bin
            assert bits[:bitpos] == '1' * bitpos
            assert bits[bitpos + nbits:] == '1' * 11
            assert bits[bitpos:bitpos + nbits] == '{:0{}b}'.format(value, nbits)
    # out of range values are refused by bitstring, the stream is left alone
    for bad in (1 << nbits, -1):
        w = get_bit_writer()
        w.write_bin('1' * 40)
        try:
            w.set_uint(bad, nbits, 3)
        except bitstring.CreationError:
            pass
        else:
            raise AssertionError('value out of range accepted')
        assert w.bit_stream.bin == '1' * 40

# set_uint agrees with write_uint on the bits produced
for nbits in (5, 8, 24, 27):
    a, c = get_bit_writer(), get_bit_writer()
    a.write_uint(0, nbits)
    a.set_uint(5, nbits, 0)
    c.write_uint(5, nbits)
    assert a.bit_stream.bin == c.bit_stream.bin

print('refactor 2 demo OK')
