"""
Demo for refactor 3 (Decoder.process_template_data: the choice between the
compiled and the plain template is a helper, the header values are locals).

Run as:  cd /tmp/tw_C06 && /venv/bin/python _out/3/demo.py
Exits 0 when every assertion holds (with or without the patch).
"""
import os, sys; sys.path.insert(0, os.getcwd())
import glob
import itertools
import json

import pybufrkit
assert os.path.dirname(os.path.abspath(pybufrkit.__file__)) == os.path.join(os.getcwd(), 'pybufrkit'), \
    'wrong copy of pybufrkit imported: ' + pybufrkit.__file__

from pybufrkit.coder import CoderState
from pybufrkit.decoder import Decoder
from pybufrkit.encoder import Encoder
from pybufrkit.errors import PyBufrKitError
from pybufrkit.descriptors import BufrTemplate
from pybufrkit.templatedata import TemplateData
from pybufrkit.templatecompiler import CompiledTemplate, CompiledTemplateManager
from pybufrkit.renderer import NestedJsonRenderer


# ---------------------------------------------------------------------------
# Part 1: whole messages. Every subset alone == the same subset in company.
# ---------------------------------------------------------------------------
def make_message(descriptors, subsets):
    return [["BUFR", 0, 4],
            [22, 0, 1, 0, 0, False, '0000000', 2, 4, 0, 18, 0, 2016, 2, 18, 23, 0, 0],
            [0, '00000000', len(subsets), True, False, '000000', list(descriptors)],
            [0, '00000000', [list(s) for s in subsets]],
            ["7777"]]


def views(msg):
    td = msg.template_data.value
    nested = NestedJsonRenderer().render(msg)[-2][-1]['value']
    assert len(nested) == len(td.decoded_values_all_subsets)
    return [(list(td.decoded_values_all_subsets[i]),
             [(type(d).__name__, d.id) for d in td.decoded_descriptors_all_subsets[i]],
             dict(td.bitmap_links_all_subsets[i]),
             json.dumps(nested[i], sort_keys=True, default=repr))
            for i in range(len(nested))]


def roundtrip(descriptors, subsets, cache=None):
    enc = Encoder(compiled_template_cache_max=cache).process(json.dumps(make_message(descriptors, subsets)))
    dec = Decoder(compiled_template_cache_max=cache).process(enc.serialized_bytes)
    return views(enc), views(dec), enc.serialized_bytes


def check_independence(descriptors, subsets, cache=None, max_orders=40):
    alone = [roundtrip(descriptors, [s], cache) for s in subsets]
    n_orders = 0
    for r in range(2, len(subsets) + 1):
        for order in itertools.permutations(range(len(subsets)), r):
            n_orders += 1
            if n_orders > max_orders:
                return
            enc, dec, _ = roundtrip(descriptors, [subsets[i] for i in order], cache)
            assert len(enc) == len(dec) == len(order)
            for pos, i in enumerate(order):
                assert enc[pos] == alone[i][0][0], ('encoder', descriptors, order, pos)
                assert dec[pos] == alone[i][1][0], ('decoder', descriptors, order, pos)


def ta_subset(temps, bits, temps2=(271.5, 272.5), bits2=(0, 1)):
    z, z2 = list(bits).count(0), list(bits2).count(0)
    return ([len(temps)] + list(temps) + [0, 0, len(bits)] + list(bits) + [1, 2, z] + [50 + k for k in range(z)]
            + [0, 0, 3, 4, 4, z] + [200.5 + k for k in range(z)] + [0]
            + list(temps2) + [0, len(bits2)] + list(bits2) + [5, 6, z2] + [70 + k for k in range(z2)])


# delayed replication before a bitmap, bitmap reuse (236000/237000), first order
# statistics markers, 237255 and 235000 cancellations, then a second, direct bitmap
TA = [101000, 31001, 12001, 222000, 236000, 101000, 31001, 31031, 1031, 1032, 101000, 31001, 33007,
      224000, 237000, 1031, 1032, 8023, 101000, 31001, 224255, 237255, 235000,
      12001, 12001, 222000, 101000, 31001, 31031, 1031, 1032, 101000, 31001, 33007]
TA_SUBSETS = [ta_subset([280.5, 281.5, 282.5], [0, 1, 0]),
              ta_subset([250.0], [0, 0], bits2=(1, 0)),
              ta_subset([260.0, 261.0, 262.0, 263.0, 264.0], [1, 1, 0, 1, 1], bits2=(0, 0)),
              ta_subset([], [0])]

# 203: the new reference value is still in force when the subset ends
TB = [101000, 31001, 12001, 203010, 12001, 203255, 101000, 31001, 12001]
TB_SUBSETS = [[1, 280.0, -50, 2, 10.0, 20.0], [0, 20, 1, 5.5], [3, 1.0, 2.0, 3.0, 0, 0]]

# 201, 202, 208, 204, 207 are all still in force when the subset ends
TC = [12001, 1015, 201134, 202129, 12001, 208004, 1015, 204008, 31021, 12001, 207001, 12001]
TC_SUBSETS = [[280.5, 'STATION A', 250.55, 'ABCD', 1, 3, 260.25, 7, 270.125],
              [180.5, None, None, 'WXYZ', 2, None, None, None, 170.0],
              [None, 'B', 1.0, None, 63, 255, 2.0, 0, None]]

# 221: one "data not present" still to go when the subset ends
TD = [12001, 1001, 221003, 1001, 12001]
TD_SUBSETS = [[280.5, 94, 95], [None, 1, 2], [100.0, None, None]]

# the template ends in the middle of a bitmap definition
TE = [101000, 31001, 12001, 222000, 236000, 101000, 31001, 31031]
TE_SUBSETS = [[2, 280.5, 281.5, 0, 0, 3, 0, 1, 0], [0, 0, 0, 1, 1], [1, 200.0, 0, 0, 0]]

# the template ends while 222000 waits for its class 33 values, and starts with one
TF = [33007, 12001, 12001, 222000, 101000, 31001, 31031, 1031]
TF_SUBSETS = [[10, 280.5, 281.5, 0, 2, 0, 1, 7], [None, 1.0, 2.0, 0, 3, 1, 1, 0, 8], [99, None, None, 0, 1, 0, 9]]


def message_checks():
    check_independence(TA, TA_SUBSETS, max_orders=40)
    check_independence(TA, TA_SUBSETS, cache=4, max_orders=10)
    check_independence(TA, TA_SUBSETS, cache=0, max_orders=4)  # compiled, never cached
    for descriptors, subsets in ((TB, TB_SUBSETS), (TC, TC_SUBSETS), (TD, TD_SUBSETS),
                                 (TE, TE_SUBSETS), (TF, TF_SUBSETS)):
        check_independence(descriptors, subsets)
        check_independence(descriptors, subsets, cache=4)

    # absolute results
    _, dec, _ = roundtrip(TA, TA_SUBSETS)
    assert dec[0][2] == {13: 1, 14: 3, 21: 1, 22: 3, 33: 24}
    assert dec[1][2] == {10: 0, 11: 1, 18: 0, 19: 1, 30: 22}
    assert dec[2][2] == {17: 3, 24: 3, 35: 26, 36: 27}
    assert dec[3][2] == {8: 0, 15: 0, 26: 17}
    assert dec[0][0] == TA_SUBSETS[0] and dec[2][0] == TA_SUBSETS[2]
    _, dec, _ = roundtrip(TB, TB_SUBSETS)
    assert [v[0] for v in dec] == TB_SUBSETS

    # one decoder for many messages of different subset counts: nothing is kept
    # from one message to the next
    for cache in (None, 0, 4):
        decoder = Decoder(compiled_template_cache_max=cache)
        for subsets in (TA_SUBSETS, TA_SUBSETS[2:], TA_SUBSETS[::-1], [TA_SUBSETS[1]], []):
            _, expected, data = roundtrip(TA, subsets)
            assert views(decoder.process(data)) == expected


# ---------------------------------------------------------------------------
# Part 2: how process_template_data drives the state and the template
# ---------------------------------------------------------------------------
class Recorder(object):
    """Records the calls the decoder makes while it works on the data section."""

    def __init__(self):
        self.switches = []
        self.runs = []
        self.compilations = 0

    def install(self):
        recorder = self
        self.saved = (CoderState.switch_subset_context, CompiledTemplateManager.get_or_compile)
        original_switch, original_compile = self.saved

        def switch_subset_context(state, idx_subset):
            recorder.switches.append((id(state), idx_subset))
            return original_switch(state, idx_subset)

        def get_or_compile(manager, template, table_group):
            recorder.compilations += 1
            # the state exists already when the template is looked up
            return original_compile(manager, template, table_group)

        CoderState.switch_subset_context = switch_subset_context
        CompiledTemplateManager.get_or_compile = get_or_compile

    def uninstall(self):
        CoderState.switch_subset_context, CompiledTemplateManager.get_or_compile = self.saved


class SpyDecoder(Decoder):
    def __init__(self, recorder, **kwargs):
        super(SpyDecoder, self).__init__(**kwargs)
        self.recorder = recorder

    def process_template(self, state, bit_operator, template):
        self.recorder.runs.append(('plain', id(state), state.idx_subset, type(template),
                                   len(state.decoded_values), bit_operator.get_pos()))
        return super(SpyDecoder, self).process_template(state, bit_operator, template)

    def process_template_data(self, bufr_message, bit_reader):
        result = super(SpyDecoder, self).process_template_data(bufr_message, bit_reader)
        self.recorder.result = result
        return result


def driver_checks():
    _, expected, data = roundtrip(TA, TA_SUBSETS)
    with open(os.path.join('tests', 'data', 'b005_89.bufr'), 'rb') as ins:
        compressed_data = ins.read()

    # uncompressed, plain template: one switch and one run per subset, in order,
    # on one and the same state; every run starts with an empty subset
    recorder = Recorder()
    recorder.install()
    try:
        decoder = SpyDecoder(recorder)
        msg = decoder.process(data)
        assert views(msg) == expected
        assert [idx for _, idx in recorder.switches] == [0, 1, 2, 3]
        assert len(set(sid for sid, _ in recorder.switches)) == 1
        assert [(kind, idx, kls, n) for kind, _, idx, kls, n, _ in recorder.runs] == \
            [('plain', i, BufrTemplate, 0) for i in range(4)]
        positions = [pos for _, _, _, _, _, pos in recorder.runs]
        assert positions == sorted(set(positions))  # each subset starts where the previous ended
        assert recorder.compilations == 0
        td = recorder.result
        assert type(td) is TemplateData and msg.template_data.value is td
        assert td.is_compressed is False and td.n_subsets == 4
        assert type(td.template) is BufrTemplate
        assert decoder.compiled_template_manager is None

        # compiled template: same switches, one lookup per message, no plain run
        for cache in (0, 4):
            recorder.switches, recorder.runs, recorder.compilations = [], [], 0
            decoder = SpyDecoder(recorder, compiled_template_cache_max=cache)
            for n_messages in (1, 2):
                msg = decoder.process(data)
                assert views(msg) == expected
                assert [idx for _, idx in recorder.switches] == [0, 1, 2, 3] * n_messages
                assert recorder.runs == [] and recorder.compilations == n_messages
                assert len(decoder.compiled_template_manager.cache) == min(cache, 1)
            assert type(recorder.result.template) is BufrTemplate  # never the compiled one
            assert recorder.result.is_compressed is False

        # compressed: no switch at all and a single run for all the subsets
        recorder.switches, recorder.runs, recorder.compilations = [], [], 0
        msg = SpyDecoder(recorder).process(compressed_data)
        assert msg.is_compressed.value is True and msg.n_subsets.value == 128
        assert recorder.switches == [] and len(recorder.runs) == 1
        td = recorder.result
        assert td.is_compressed is True and td.n_subsets == 128
        assert len(set(map(id, td.decoded_descriptors_all_subsets))) == 1
        assert len(set(map(id, td.decoded_values_all_subsets))) == 128
        plain_values = td.decoded_values_all_subsets
        recorder.runs = []
        msg = SpyDecoder(recorder, compiled_template_cache_max=2).process(compressed_data)
        assert recorder.switches == [] and recorder.runs == [] and recorder.compilations == 1
        assert recorder.result.decoded_values_all_subsets == plain_values

        # no subset: nothing is switched, nothing is run
        recorder.switches, recorder.runs, recorder.compilations = [], [], 0
        _, _, empty = roundtrip(TA, [])
        for cache in (None, 4):
            msg = SpyDecoder(recorder, compiled_template_cache_max=cache).process(empty)
            td = msg.template_data.value
            assert recorder.switches == [] and recorder.runs == []
            assert td.n_subsets == 0 and td.decoded_values_all_subsets == []
            assert td.decoded_descriptors_all_subsets == [] and td.bitmap_links_all_subsets == []
        assert recorder.compilations == 1  # the template is still looked up

        # errors come out as they are and leave the decoder usable
        recorder.switches, recorder.runs, recorder.compilations = [], [], 0
        inflated = bytearray(data)
        assert inflated[34:36] == bytes([0, 4])
        inflated[35] = 5  # one subset more than there is data for
        truncated = data[:-12]
        for cache in (None, 4):
            decoder = SpyDecoder(recorder, compiled_template_cache_max=cache)
            for bad in (bytes(inflated), truncated):
                recorder.switches = []
                try:
                    decoder.process(bad)
                except PyBufrKitError:
                    pass
                else:
                    raise AssertionError('PyBufrKitError expected')
            assert [idx for _, idx in recorder.switches][:4] == [0, 1, 2, 3]
            assert views(decoder.process(data)) == expected
        # an unknown table version is refused before any state exists
        unknown = bytearray(data)
        assert unknown[8 + 13] == 18  # master table version in section 1
        recorder.switches = []
        try:
            SpyDecoder(recorder, tables_root_dir=os.path.join('tests', 'no_such_dir')).process(bytes(unknown))
        except Exception as e:
            first = type(e)
            assert recorder.switches == []
        else:
            raise AssertionError('an error is expected without tables')
        try:
            SpyDecoder(recorder, tables_root_dir=os.path.join('tests', 'no_such_dir'),
                       compiled_template_cache_max=3).process(bytes(unknown))
        except Exception as e:
            assert type(e) is first and recorder.switches == []
        else:
            raise AssertionError('an error is expected without tables')
    finally:
        recorder.uninstall()


def sample_file_checks():
    """Every sample file gives the same result with and without compilation."""
    n_uncompressed_multi = 0
    for path in sorted(glob.glob(os.path.join('tests', 'data', '*.bufr'))):
        stub = os.path.basename(path)
        if stub in ('multi_invalid_messages.bufr', 'prepbufr.bufr'):
            continue
        with open(path, 'rb') as ins:
            data = ins.read()
        plain = Decoder().process(data)
        compiled = Decoder(compiled_template_cache_max=2).process(data)
        a, b = plain.template_data.value, compiled.template_data.value
        assert a.decoded_values_all_subsets == b.decoded_values_all_subsets, stub
        assert a.bitmap_links_all_subsets == b.bitmap_links_all_subsets, stub
        assert [[d.id for d in ds] for ds in a.decoded_descriptors_all_subsets] == \
            [[d.id for d in ds] for ds in b.decoded_descriptors_all_subsets], stub
        assert a.n_subsets == plain.n_subsets.value == len(a.decoded_values_all_subsets), stub
        assert a.is_compressed is plain.is_compressed.value
        if not a.is_compressed and a.n_subsets > 1:
            n_uncompressed_multi += 1
    assert n_uncompressed_multi >= 1


if __name__ == '__main__':
    message_checks()
    driver_checks()
    sample_file_checks()
    print('demo 3: OK')
