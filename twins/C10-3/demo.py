import os, sys; sys.path.insert(0, os.getcwd())
import copy
import glob
import itertools
import random

import pybufrkit
assert os.path.dirname(os.path.dirname(os.path.abspath(pybufrkit.__file__))) == os.getcwd(), pybufrkit.__file__

from pybufrkit.decoder import Decoder
from pybufrkit.encoder import Encoder
from pybufrkit.errors import PyBufrKitError
from pybufrkit.renderer import FlatJsonRenderer

DATA_DIR = os.path.join('tests', 'data')
META_SKIP = {'length', 'section_length', 'n_subsets', 'template_data'}


# --------------------------------------------------------------------------
# inputs
# --------------------------------------------------------------------------
def make_json(n_subsets, compressed, rows):
    """A small edition 4 message: 301011 (y/m/d), 012101 (numeric, scale 2),
    001015 (20 byte string), 020011 (code table), 002001 (code table)."""
    return [
        ['BUFR', 0, 4],
        [22, 0, 1, 0, 0, False, '0000000', 2, 4, 0, 18, 0, 2016, 2, 18, 23, 0, 0],
        [0, '00000000', n_subsets, True, compressed, '000000',
         [301011, 12101, 1015, 20011, 2001]],
        [0, '00000000', [list(r) for r in rows]],
        ['7777'],
    ]


def generated_rows():
    name = lambda s: s.ljust(20)
    return [
        # y     m   d   temp     name             cloud  station
        [2016,  2,  18, 273.15,  name('ALPHA'),   3,     1],
        [2016,  2,  19, 280.01,  name('BRAVO'),   3,     None],
        [2016,  None, 19, None,  None,            3,     None],
        [2016,  2,  18, 273.15,  name('ALPHA'),   3,     1],
        [2016,  12, 1,  199.99,  name('ECHO'),    None,  None],
        [2016,  2,  20, 280.01,  None,            7,     None],
    ]


def build_inputs(decoder, corpus=True):
    """Yield (label, source message) pairs: generated, then sample corpus."""
    rows = generated_rows()
    encoder = Encoder()
    for compressed in (False, True):
        for n in (1, 2, len(rows)):
            encoded = encoder.process(make_json(n, compressed, rows[:n]))
            yield ('generated n=%d compressed=%s' % (n, compressed),
                   decoder.process(encoded.serialized_bytes))
    if corpus:
        for base in ('contrived', '207003', 'ISMD01_OKPR', 'g2nd_208', 'b005_89',
                     'jaso_214', 'IUSK73_AMMC_182300', 'b002_95', 'uegabe'):
            with open(os.path.join(DATA_DIR, base + '.bufr'), 'rb') as ins:
                yield base, decoder.process(ins.read())


def index_collections(n, rng):
    """Non-empty in-range collections: single, first/last, full, any order, repeats."""
    seen = []

    def add(c):
        if c not in seen:
            seen.append(c)
    add([0])
    add([n - 1])
    add([0, n - 1])
    add(list(range(n)))
    add(list(range(n - 1, -1, -1)))
    add([n - 1, 0, n - 1, 0])
    add((n // 2,))
    add({0, n - 1, n // 2})
    if n > 2:
        add([1, n - 2, 1])
        for _ in range(3):
            k = rng.randint(1, min(n, 5))
            add([rng.randrange(n) for _ in range(k)])
        picked = rng.sample(range(n), min(n, 4))
        add(picked)
        add(picked + picked[:1])
    return seen


# --------------------------------------------------------------------------
# the property
# --------------------------------------------------------------------------
def all_ones(descriptor, value):
    """True when value is the all-ones pattern of the (non-string) field."""
    nbits = getattr(descriptor, 'nbits', None)
    if nbits is None or isinstance(value, (bytes, str)) or value is None:
        return False
    try:
        raw = int(round(value * 10 ** descriptor.scale)) - descriptor.refval
    except Exception:
        return False
    return raw == 2 ** nbits - 1


def same_values(descriptors, expected, actual):
    if len(expected) != len(actual):
        return False
    for d, e, a in zip(descriptors, expected, actual):
        if e == a and type(e) is type(a):
            continue
        if a is None and all_ones(d, e):
            continue            # FM-94: all ones is missing
        return False
    return True


def metadata(message):
    return [(p.name, p.value) for s in message.sections for p in s
            if p.name not in META_SKIP]


def snapshot(message):
    return (message.serialized_bytes,
            FlatJsonRenderer().render(message),
            copy.deepcopy(message.template_data.value.decoded_values_all_subsets),
            [[d.id for d in ds] for ds in message.template_data.value.decoded_descriptors_all_subsets])


def verify_output(label, message, indices, raw, decoder, encoder):
    """raw is the encoded result of subsetting message by indices."""
    result = decoder.process(raw)
    wanted = sorted(set(indices))
    td_src = message.template_data.value
    td_new = result.template_data.value

    assert result.n_subsets.value == len(wanted), (label, indices)
    assert len(td_new.decoded_values_all_subsets) == len(wanted), (label, indices)
    for k, idx in enumerate(wanted):
        assert same_values(td_src.decoded_descriptors_all_subsets[idx],
                           td_src.decoded_values_all_subsets[idx],
                           td_new.decoded_values_all_subsets[k]), (label, indices, k, idx)
        assert ([d.id for d in td_new.decoded_descriptors_all_subsets[k]] ==
                [d.id for d in td_src.decoded_descriptors_all_subsets[idx]]), (label, indices, k)

    # template, identification and compression flag unchanged
    assert result.unexpanded_descriptors.value == message.unexpanded_descriptors.value, label
    assert result.is_compressed.value == message.is_compressed.value, label
    assert metadata(result) == metadata(message), (label, indices)
    # valid message: declared length is the real one, signatures in place
    assert raw[:4] == b'BUFR' and raw[-4:] == b'7777', label
    assert result.length.value == len(raw), label
    # the decoded message re-encodes to the very same bytes
    again = encoder.process(FlatJsonRenderer().render(result), wire_template_data=False)
    assert again.serialized_bytes == raw, (label, indices)
    return result


def check_subset(label, message, indices, decoder, encoder):
    before = snapshot(message)
    n = message.n_subsets.value
    indices_before = copy.copy(indices)

    data = message.subset(indices)
    assert isinstance(data, list) and len(data) == len(message.sections), label
    encoded = encoder.process(data, file_path='<demo>', wire_template_data=False)
    raw = encoded.serialized_bytes
    verify_output(label, message, indices, raw, decoder, encoder)

    # source and argument untouched
    assert snapshot(message) == before, (label, indices)
    assert message.n_subsets.value == n
    assert indices == indices_before and type(indices) is type(indices_before)
    return data, raw


def check_refusals(label, message):
    n = message.n_subsets.value
    before = snapshot(message)
    for bad in ([n], [0, n], [n, 0], [-1], [0, -1], [-1, 0], [n - 1, n], [n + 5], (n,), {0, -1}):
        try:
            message.subset(bad)
        except PyBufrKitError:
            pass
        else:
            raise AssertionError('%s: %r accepted' % (label, bad))
    # both ends wrong: the upper bound is reported
    try:
        message.subset([-1, n])
    except PyBufrKitError as e:
        assert 'maximum subset index out of range' in str(e), str(e)
    else:
        raise AssertionError('accepted')
    try:
        message.subset([-1])
    except PyBufrKitError as e:
        assert 'minimum subset index out of range' in str(e), str(e)
    else:
        raise AssertionError('accepted')
    # an empty collection is not a selection at all
    for empty in ([], (), set()):
        try:
            message.subset(empty)
        except ValueError:
            pass
        else:
            raise AssertionError('empty accepted')
    assert snapshot(message) == before, label


def run_property(corpus=True, seed=10, encoders=None, extra=None):
    rng = random.Random(seed)
    decoder = Decoder()
    encoders = encoders or [Encoder(), Encoder(compiled_template_cache_max=8)]
    count = 0
    for label, message in build_inputs(decoder, corpus=corpus):
        n = message.n_subsets.value
        check_refusals(label, message)
        for indices in index_collections(n, rng):
            outputs = []
            for encoder in encoders:
                data, raw = check_subset(label, message, indices, decoder, encoder)
                outputs.append(raw)
                if extra:
                    extra(label, message, indices, data, raw)
                count += 1
            assert len(set(outputs)) == 1, (label, indices)   # compiled == interpreted
    return count


# --------------------------------------------------------------------------
# demo 3: Encoder.process_numeric_compressed - the re-packing of numeric columns
# --------------------------------------------------------------------------
from pybufrkit.bitops import get_bit_writer, get_bit_reader
from pybufrkit.coder import CoderState


class Recorder(object):
    """Stands in for the bit writer, keeps what would be written."""

    def __init__(self):
        self.calls = []

    def write_uint(self, value, nbits):
        self.calls.append((value, nbits))


def ones(nbits):
    return (1 << nbits) - 1


def width_for(span):
    """bits for 0..span with the all ones pattern left free for missing"""
    nbits = 1
    while ones(nbits) <= span:
        nbits += 1
    return nbits


def expected_writes(column, nbits, scale, refval):
    """FM-94 94.6.3 (2)(a)(vii), spelled out independently of the encoder."""
    def raw(v):
        r = v
        if scale != 0:
            r = int(round(r * 10 ** scale))
        return r - refval
    if all(v is None for v in column):
        return [(ones(nbits), nbits), (0, 6)]
    if all(v is not None and v == column[0] for v in column):
        return [(raw(column[0]), nbits), (0, 6)]
    raws = [None if v is None else raw(v) for v in column]
    present = [r for r in raws if r is not None]
    low = min(present)
    width = width_for(max(present) - low + 1)
    return ([(low, nbits), (width, 6)] +
            [(ones(width) if r is None else r - low, width) for r in raws])


COLUMNS = [
    # (values of one element over the subsets, nbits, scale, refval)
    ([None, None, None], 12, 0, 0),
    ([None], 16, 2, 0),
    ([7, 7, 7, 7], 12, 0, 0),
    ([273.15, 273.15], 16, 2, 0),
    ([-40.0, -40.0, -40.0], 12, 1, -1000),
    ([5], 8, 0, -10),
    ([0, 0], 8, 0, 0),
    ([2016, 2017], 12, 0, 0),
    ([1, None], 4, 0, 0),
    ([None, 1], 4, 0, 0),
    ([5, None, 5], 10, 0, 0),                 # equal but for a missing one
    ([273.15, 280.01, None, 199.99], 16, 2, 0),
    ([-12.5, 30.0, 0.0, None, -12.5], 12, 1, -1000),
    ([0, 1, 2, 3], 8, 0, 0),                  # span 3 is all ones on 2 bits -> 3 bits
    ([0, 2], 8, 0, 0),
    ([10, 13], 8, 0, 0),
    ([1000000, 0, 524288], 24, 0, 0),
    ([49.66944, 49.66945, -12.00001], 25, 5, -9000000),
    ([0.25, 0.75, 1.25], 8, 1, 0),            # halves after scaling
    ([1, 1.0], 8, 0, 0),                      # equal across int/float
    ([3, 3, 4], 8, 0, -5),
]


def run_column(encoder, column, nbits, scale, refval, writer, n_declared=None):
    lists = [[99, v, 98] for v in column]               # the element sits at position 1
    keep = copy.deepcopy(lists)
    n = len(column) if n_declared is None else n_declared
    state = CoderState(True, n, lists)
    state.idx_value = 1
    descriptor = object()
    result = encoder.process_numeric_compressed(state, writer, descriptor, nbits, 10 ** scale, refval)
    assert result is None
    assert state.idx_value == 2
    assert state.decoded_descriptors == [descriptor]
    assert lists == keep and state.decoded_values_all_subsets is lists     # inputs not modified
    assert all(type(a) is type(b) for x, y in zip(lists, keep) for a, b in zip(x, y))
    return state


def demo_numeric_columns():
    for encoder in (Encoder(), Encoder(compiled_template_cache_max=2)):
        for column, nbits, scale, refval in COLUMNS:
            recorder = Recorder()
            run_column(encoder, column, nbits, scale, refval, recorder)
            wanted = expected_writes(column, nbits, scale, refval)
            assert recorder.calls == wanted, (column, recorder.calls, wanted)
            assert all(type(v) is int for v, _ in recorder.calls), (column, recorder.calls)

            # and the real thing reads back as the column
            writer = get_bit_writer()
            run_column(encoder, column, nbits, scale, refval, writer)
            nbits_written = writer.get_pos()
            assert nbits_written == sum(nb for _, nb in wanted)
            writer.write_bin('0' * (-nbits_written % 8))
            back = CoderState(True, len(column))
            Decoder().process_numeric_compressed(back, get_bit_reader(writer.to_bytes()), 'd',
                                                  nbits, 10 ** scale, refval)
            got = [vals[0] for vals in back.decoded_values_all_subsets]
            for v, g in zip(column, got):
                if v is None:
                    assert g is None, (column, got)
                else:
                    assert g is not None and abs(g - v) <= 0.5 * 10 ** -scale + 1e-9, (column, got)

    # ---- corner cases that must keep failing the same way, before anything is written
    encoder = Encoder()
    for column, nbits, scale, refval, n_declared, error in (
            (['a', 1], 8, 1, 0, None, TypeError),          # text in a numeric column
            (['a', 'a'], 8, 1, 0, None, TypeError),
            ([None, None], 8, 0, 0, 3, TypeError),          # declared count disagrees, nothing to span
            ([None], 256, 0, 0, None, IndexError),          # no missing value for such a width
            ([1, None, 2 ** 255], 260, 0, 0, None, IndexError),
    ):
        recorder = Recorder()
        try:
            run_column(encoder, column, nbits, scale, refval, recorder, n_declared)
        except error:
            pass
        else:
            raise AssertionError('no %s for %r' % (error.__name__, column))
        assert recorder.calls == [], (column, recorder.calls)
    # text that is never scaled passes through untouched (the writer is the one to object)
    recorder = Recorder()
    run_column(encoder, ['a', 'a'], 8, 0, 0, recorder)
    assert recorder.calls == [('a', 8), (0, 6)]
    # a declared count that disagrees with the data disables the all-equal shortcut; the raw
    # values are then found to agree all the same, and are written as one field of width 0
    recorder = Recorder()
    run_column(encoder, [4, 4], 8, 0, 0, recorder, n_declared=3)
    assert recorder.calls == [(4, 8), (0, 6)], recorder.calls
    # so are values that agree only after scaling - unless an entry is missing
    recorder = Recorder()
    run_column(encoder, [1.01, 1.02], 12, 1, -5, recorder)
    assert recorder.calls == [(15, 12), (0, 6)], recorder.calls
    recorder = Recorder()
    run_column(encoder, [1.01, None, 1.02], 12, 1, -5, recorder)
    assert recorder.calls == [(15, 12), (2, 6), (0, 2), (3, 2), (0, 2)], recorder.calls


if __name__ == '__main__':
    demo_numeric_columns()
    n = run_property()
    print('demo 3 ok: %d columns, %d subset/encode/decode round trips' % (len(COLUMNS), n))
