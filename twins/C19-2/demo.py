import os, sys; sys.path.insert(0, os.getcwd())

import random

from pybufrkit.bitops import get_bit_reader, get_bit_writer
from pybufrkit.errors import BitReadError, PyBufrKitError


def bits_of(writer):
    return writer.bit_stream.bin


def pad_to_byte(writer):
    rest = -writer.get_pos() % 8
    if rest:
        writer.skip(rest)
    return rest


def expect(exc_type, func, *args):
    try:
        func(*args)
    except Exception as e:
        assert isinstance(e, exc_type), (exc_type, type(e), e)
        if exc_type is ValueError:
            assert not isinstance(e, PyBufrKitError)
        return e
    raise AssertionError('no {} from {}{}'.format(exc_type.__name__, func.__name__, args))


def sign_magnitude_bits(value, n):
    return ('1' if value < 0 else '0') + format(abs(value), '0{}b'.format(n - 1))


# ---------------------------------------------------------------------------
# 1. exhaustive: width 2..64 x magnitudes x both signs x bit offset 0..7
#    (a signed field needs one sign bit and at least one magnitude bit)
# ---------------------------------------------------------------------------
count = 0
for n in range(2, 65):
    m = n - 1                                   # magnitude bits
    magnitudes = sorted({0, 1, 2 ** (m - 1), max(2 ** m - 2, 0), 2 ** m - 1})
    for magnitude in magnitudes:
        for value in (magnitude, -magnitude):
            for offset in range(8):
                w = get_bit_writer()
                if offset:
                    w.skip(offset)
                ret = w.write_int(value, n)
                assert ret == value and type(ret) is int
                assert w.get_pos() == offset + n
                assert bits_of(w) == '0' * offset + sign_magnitude_bits(value, n), (n, value, offset)
                tail = pad_to_byte(w)

                r = get_bit_reader(w.to_bytes())
                if offset:
                    assert r.read_uint(offset) == 0
                got = r.read_int(n)
                assert got == value and type(got) is int, (n, value, offset, got)
                assert r.get_pos() == offset + n == w.get_pos() - tail
                count += 1

# there is no negative zero: a set sign bit with zero magnitude reads as plain 0
for n in range(2, 65):
    for offset in range(8):
        w = get_bit_writer()
        if offset:
            w.skip(offset)
        w.write_bool(True)
        w.write_uint(0, n - 1)
        pad_to_byte(w)
        r = get_bit_reader(w.to_bytes())
        if offset:
            r.read_uint(offset)
        got = r.read_int(n)
        assert got == 0 and type(got) is int and repr(got) == '0'
        assert r.get_pos() == offset + n

# all ones is the most negative number, never "missing"
for n in range(2, 65):
    r = get_bit_reader(b'\xff' * 9)
    assert r.read_int(n) == -(2 ** (n - 1) - 1)
    assert r.get_pos() == n

# the generic entry points dispatch to the same methods
w = get_bit_writer()
assert w.write(-5, 'int', 4) == -5
assert w.write(5, 'int', 4) == 5
assert w.write(-300, 'int', 16) == -300
assert bits_of(w) == '1101' + '0101' + '1' + format(300, '015b')
r = get_bit_reader(w.to_bytes())
assert [r.read('int', 4), r.read('int', 4), r.read('int', 16)] == [-5, 5, -300]
assert r.get_pos() == 24

# ---------------------------------------------------------------------------
# 2. value conversion happens once, up front; the converted int is returned
# ---------------------------------------------------------------------------
w = get_bit_writer()
assert w.write_int(-3.9, 4) == -3 and bits_of(w) == '1011'
ret = w.write_int('-6', 4)
assert ret == -6 and type(ret) is int and bits_of(w) == '1011' + '1110'
ret = w.write_int(True, 2)
assert ret == 1 and type(ret) is int and bits_of(w) == '1011' + '1110' + '01'
ret = w.write_int(-0.0, 2)
assert ret == 0 and type(ret) is int and bits_of(w) == '1011' + '1110' + '01' + '00'


class Loud(object):
    """Counts how often it is converted."""
    calls = 0

    def __int__(self):
        Loud.calls += 1
        return -2


w = get_bit_writer()
assert w.write_int(Loud(), 3) == -2 and Loud.calls == 1 and bits_of(w) == '110'

# ---------------------------------------------------------------------------
# 3. values that do not fit are refused. The sign bit is written before the
#    magnitude is tried, so exactly that one bit stays behind.
# ---------------------------------------------------------------------------
for n in range(2, 65):
    for offset in range(8):
        for value, sign in ((2 ** (n - 1), '0'), (-(2 ** (n - 1)), '1'), (2 ** n, '0')):
            w = get_bit_writer()
            if offset:
                w.skip(offset)
            expect(ValueError, w.write_int, value, n)
            assert bits_of(w) == '0' * offset + sign, (n, offset, value, bits_of(w))
            assert w.get_pos() == offset + 1

# one-bit signed field: no room for a magnitude, so only zero fits; anything
# else is refused before the sign bit is written
for value in (0, 0.4, '0', False):
    w = get_bit_writer()
    ret = w.write_int(value, 1)
    assert ret == 0 and type(ret) is int and bits_of(w) == '0' and w.get_pos() == 1
for value in (1, -1, 2, -2 ** 70, '-1', True):
    w = get_bit_writer()
    e = expect(ValueError, w.write_int, value, 1)
    assert 'does not fit a signed field of one bit' in str(e)
    assert bits_of(w) == '' and w.get_pos() == 0
# a width below one: the sign bit alone is written, whatever the value
for value, sign in ((0, '0'), (5, '0'), (-5, '1')):
    w = get_bit_writer()
    assert w.write_int(value, 0) == value and bits_of(w) == sign

# conversion errors come before anything is written
w = get_bit_writer()
e = expect(ValueError, w.write_int, 'abc', 8)
assert 'invalid literal' in str(e)
expect(TypeError, w.write_int, None, 8)
expect(TypeError, w.write_int, None, None)
expect(ValueError, w.write_int, 'abc', None)
expect(ValueError, w.write_int, float('nan'), 8)
expect(OverflowError, w.write_int, float('inf'), 8)
assert bits_of(w) == '' and w.get_pos() == 0
# a width that is not a number is noticed only after the sign bit
expect(TypeError, w.write_int, -1, None)
assert bits_of(w) == '1'
expect(TypeError, w.write_int, 1, 'x')
assert bits_of(w) == '10'

# ---------------------------------------------------------------------------
# 4. reading past the end: BitReadError. The sign bit is consumed first if
#    there is one to consume.
# ---------------------------------------------------------------------------
for nbytes in range(0, 9):
    total = nbytes * 8
    for n in range(2, 65):
        for offset in range(8):
            if offset > total or offset + n <= total:
                continue
            r = get_bit_reader(b'\x5a' * nbytes)
            if offset:
                r.read_uint(offset)
            e = expect(BitReadError, r.read_int, n)
            assert isinstance(e, PyBufrKitError) and e.message
            assert r.get_pos() == (offset + 1 if offset < total else offset), (nbytes, n, offset)

r = get_bit_reader(b'')
expect(BitReadError, r.read_int, 8)
assert r.get_pos() == 0

# a one-bit signed read takes the sign; the magnitude is empty, the value zero
for octet in (b'\x80', b'\x00'):
    for n in (1, 0, -1):
        r = get_bit_reader(octet)
        got = r.read_int(n)
        assert got == 0 and type(got) is int and repr(got) == '0'
        assert r.get_pos() == 1
w = get_bit_writer()
assert w.write(0, 'int', 1) == 0 and bits_of(w) == '0'
r = get_bit_reader(b'\x80')
assert r.read('int', 1) == 0 and r.get_pos() == 1
# the sign is read before a bad width is noticed
r = get_bit_reader(b'\x80')
expect(TypeError, r.read_int, None)
assert r.get_pos() == 1
r = get_bit_reader(b'')
expect(BitReadError, r.read_int, None)       # nothing to read: that comes first
assert r.get_pos() == 0

# ---------------------------------------------------------------------------
# 5. random sequences mixing signed fields with the other types
# ---------------------------------------------------------------------------
rnd = random.Random(19002)
for _ in range(150):
    nfields = rnd.randint(1, 200)
    fields = []
    expected_bits = []
    w = get_bit_writer()
    for _i in range(nfields):
        kind = rnd.choice(['int', 'int', 'uint', 'bool'])
        if kind == 'int':
            n = rnd.randint(2, 64)
            mag = rnd.choice([0, 1, 2 ** (n - 1) - 1, rnd.getrandbits(n - 1)])
            v = rnd.choice([mag, -mag])
            assert w.write_int(v, n) == v
            expected_bits.append(sign_magnitude_bits(v, n))
        elif kind == 'uint':
            n = rnd.randint(1, 64)
            v = rnd.getrandbits(n)
            assert w.write_uint(v, n) == v
            expected_bits.append(format(v, '0{}b'.format(n)))
        else:
            n = 1
            v = rnd.random() < 0.5
            assert w.write_bool(v) is v
            expected_bits.append('1' if v else '0')
        fields.append((kind, n, v))
        assert w.get_pos() == sum(f[1] for f in fields)
    assert bits_of(w) == ''.join(expected_bits)
    end = w.get_pos()
    pad_to_byte(w)
    r = get_bit_reader(w.to_bytes())
    pos = 0
    for kind, n, v in fields:
        got = r.read(kind, n)
        assert got == v and type(got) is type(v), (kind, n, v, got)
        pos += n
        assert r.get_pos() == pos
    assert r.get_pos() == end

print('demo 2 ok:', count, 'exhaustive signed round trips')
