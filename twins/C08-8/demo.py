import os, sys; sys.path.insert(0, os.getcwd())
"""
Differential demonstration for refactor 8 (CoderState: one definition of the state in front
of the first descriptor of the template; one shared "no 207 in effect" modifier).

 1. State objects directly: after construction (uncompressed / compressed / no subsets /
    with values for the encoder / the compiler's state) and after switch_subset_context on a
    state in which every tracked attribute has been spoiled, every attribute has the value
    of a table written down by hand here; mutable values are not shared between states or
    between subsets; a subset index out of range fails as before and leaves as much behind.
 2. Messages built by hand, three subsets, each template leaves another operator open at its
    end (201, 202, 203 while defining and after 203255, 204, 206, 207, 208, 221, 222 with a
    bitmap for reuse, markers under 207YYY and behind 207000). If anything leaked into the
    next subset, the widths would change. The section 4 bits are packed independently here
    from (raw number, width) pairs; encoder and decoder, plain, compiling, and compiling
    through JSON, must all agree with them. The same content as compressed data (two
    identical subsets, so that every field is "minimum + six zero bits").
 3. What the compiler stores for marker operators under 207YYY / behind 207000, and what
    comes back from JSON.
"""
import json

from pybufrkit.coder import CoderState, BSRModifier
from pybufrkit.decoder import Decoder
from pybufrkit.encoder import Encoder
from pybufrkit.tables import TableGroupCacheManager
from pybufrkit.templatecompiler import (TemplateCompiler, CompilerState, loads_compiled_template, Loop)

N_CHECKS = [0]


def check(cond, what):
    N_CHECKS[0] += 1
    if not cond:
        print('FAILED: {}'.format(what))
        sys.exit(1)


# ---------------------------------------------------------------------------
# 1. the state objects
EXPECTED_FRESH = {
    'idx_value': 0,
    'nbits_offset': 0,
    'scale_offset': 0,
    'nbits_of_new_refval': 0,
    'nbits_of_associated': [],
    'nbits_of_skipped_local_descriptor': 0,
    'bsr_modifier': (0, 0, 1),
    'new_nbytes': 0,
    'data_not_present_count': 0,
    'status_qa_info_follows': 0,
    'bitmap': None,
    'bitmapped_descriptors': None,
    'bitmap_definition_state': 0,
    'most_recent_bitmap_is_for_reuse': False,
    'n_031031': 0,
    'next_bitmapped_descriptor': None,
    'back_reference_boundary': 0,
    'back_referenced_descriptors': None,
    'new_refvals': {},
}
OTHER_ATTRIBUTES = {'is_compressed', 'n_subsets', 'idx_subset',
                    'decoded_descriptors_all_subsets', 'bitmap_links_all_subsets', 'decoded_values_all_subsets',
                    'decoded_descriptors', 'bitmap_links', 'decoded_values'}


def check_fresh(state, what, extra=()):
    check(set(vars(state)) == set(EXPECTED_FRESH) | OTHER_ATTRIBUTES | set(extra),
          '{}: attributes of the state: {}'.format(what, sorted(vars(state))))
    for name, value in sorted(EXPECTED_FRESH.items()):
        actual = getattr(state, name)
        check(actual == value and type(actual) is type(value) or
              (name == 'bsr_modifier' and type(actual) is BSRModifier and actual == value),
              '{}: {} is {!r}, expected {!r}'.format(what, name, actual, value))
    m = state.bsr_modifier
    check((m.nbits_increment, m.scale_increment, m.refval_factor) == (0, 0, 1), '{}: fields of 207'.format(what))


def spoil(state):
    for name in EXPECTED_FRESH:
        setattr(state, name, ('spoiled', name))


def part_1_states():
    table_group = TableGroupCacheManager.get_table_group()
    template = table_group.template_from_ids(1001, 1002)

    states = [
        ('uncompressed', CoderState(False, 3)),
        ('compressed', CoderState(True, 2)),
        ('no subsets', CoderState(False, 0)),
        ('no subsets, compressed', CoderState(True, 0)),
        ('encoder', CoderState(False, 2, [[1, 2], [3, 4]])),
        ('encoder, compressed', CoderState(True, 2, [[1, 2], [3, 4]])),
    ]
    for what, state in states:
        check_fresh(state, what)
    compiler_state = CompilerState(table_group, template)
    check_fresh(compiler_state, 'compiler', extra=('block_stack',))
    check((compiler_state.is_compressed, compiler_state.n_subsets) == (False, 1), 'compiler state: one subset')
    states.append(('compiler', compiler_state))

    # nothing mutable is shared
    for i, (wa, a) in enumerate(states):
        for wb, b in states[i + 1:]:
            check(a.nbits_of_associated is not b.nbits_of_associated and a.new_refvals is not b.new_refvals,
                  '{} / {}: own list and dict'.format(wa, wb))
    a, b = CoderState(False, 2), CoderState(False, 2)
    a.nbits_of_associated.append(4)
    a.new_refvals[12001] = -5
    check(b.nbits_of_associated == [] and b.new_refvals == {} and CoderState(True, 1).nbits_of_associated == [],
          'what one state collects does not show in another')

    # switching the subset
    encoder_values = [[1, 2], [3, 4], [5, 6]]
    for what, state in (('uncompressed', CoderState(False, 3)), ('encoder', CoderState(False, 3, encoder_values))):
        for idx in (0, 1, 2, 1, 0):
            spoil(state)
            before = {name: getattr(state, name) for name in OTHER_ATTRIBUTES}
            state.switch_subset_context(idx)
            check_fresh(state, '{}: switched to {}'.format(what, idx))
            check(state.idx_subset == idx, 'idx_subset')
            check(state.decoded_descriptors is state.decoded_descriptors_all_subsets[idx] and
                  state.decoded_values is state.decoded_values_all_subsets[idx] and
                  state.bitmap_links is state.bitmap_links_all_subsets[idx], 'lists of the subset')
            for name in ('is_compressed', 'n_subsets', 'decoded_descriptors_all_subsets',
                         'bitmap_links_all_subsets', 'decoded_values_all_subsets'):
                check(getattr(state, name) is before[name], '{} untouched'.format(name))
            # what the subset collects is gone with the next one
            collected = state.nbits_of_associated
            collected.append(7)
            refvals = state.new_refvals
            refvals[1] = 2
            state.switch_subset_context(idx)
            check(state.nbits_of_associated == [] and state.nbits_of_associated is not collected and
                  state.new_refvals == {} and state.new_refvals is not refvals and
                  collected == [7] and refvals == {1: 2}, 'fresh list and dict for every subset')
        if what == 'encoder':
            check(state.decoded_values_all_subsets == encoder_values, 'values to encode untouched')

    # a subset that does not exist
    state = CoderState(False, 3)
    state.switch_subset_context(2)
    spoil(state)
    lists = state.decoded_descriptors, state.decoded_values, state.bitmap_links
    try:
        state.switch_subset_context(3)
    except IndexError:
        pass
    else:
        check(False, 'IndexError for a subset out of range')
    check(state.idx_subset == 3 and state.new_refvals == {}, 'index and new reference values were set')
    check(all(getattr(state, name) == ('spoiled', name) for name in EXPECTED_FRESH if name != 'new_refvals'),
          'nothing else was reset')
    check((state.decoded_descriptors, state.decoded_values, state.bitmap_links) == lists and
          state.decoded_descriptors is lists[0], 'lists of the subset before')
    # encoder with fewer subsets of values than declared: the descriptor list is there, the values are not
    state = CoderState(False, 2, [[1, 2]])
    spoil(state)
    try:
        state.switch_subset_context(1)
    except IndexError:
        pass
    else:
        check(False, 'IndexError for missing values')
    check(state.decoded_descriptors is state.decoded_descriptors_all_subsets[1] and
          state.decoded_values is state.decoded_values_all_subsets[0] and state.idx_value == ('spoiled', 'idx_value'),
          'state left half way')


# ---------------------------------------------------------------------------
# 2. messages
def num(id_, raw, width, scale=0, ref=0):
    value = raw + ref
    if scale:
        value = value / (1.0 * 10 ** scale)
    return id_, value, value, format(raw, '0{}b'.format(width))


def const(id_):
    return id_, 0, 0, ''


def string(id_, s):
    return id_, s, s.encode('latin-1'), ''.join(format(c, '08b') for c in bytearray(s.encode('latin-1')))


def refdef(id_, value, width):
    return id_, value, value, ('1' if value < 0 else '0') + format(abs(value), '0{}b'.format(width - 1))


BITMAP_PART = [236000, 101002, 31031, 1031, 1032]


def bitmap_fields(s):
    return [const(236000), num(31031, 0, 1), num(31031, 0, 1), num(1031, 74 + s, 16), num(1032, 3 + s, 8)]


# name: (unexpanded descriptors, fields of subset s, attribute links of a subset)
CASES = {
    '201+202 open': ([12001, 201130, 202129, 12001],
                     lambda s: [num(12001, 100 + s, 12, 1), num(12001, 5000 + s, 14, 2)], {}),
    '207 open': ([12001, 207001, 12001, 1002],
                 lambda s: [num(12001, 200 + s, 12, 1), num(12001, 40000 + s, 16, 2), num(1002, 9000 + s, 14, 1)], {}),
    '207, 207000, 207 open': ([207002, 12001, 207000, 12001, 1002, 207001],
                              lambda s: [num(12001, 300000 + s, 19, 3), num(12001, 300 + s, 12, 1),
                                         num(1002, 700 + s, 10)], {}),
    '208 open': ([1015, 208002, 1015],
                 lambda s: [string(1015, 'STATION NAME OF 20 C' [:19] + str(s)), string(1015, 'X' + str(s))], {}),
    '204 open': ([1001, 204003, 31021, 1001],
                 lambda s: [num(1001, 10 + s, 7), num(31021, 1, 6), num(1001, 5 - s, 3), num(1001, 20 + s, 7)], {}),
    '206 pending': ([1001, 206008], lambda s: [num(1001, 30 + s, 7)], {}),
    '221 not used up': ([12001, 221002, 12001], lambda s: [num(12001, 400 + s, 12, 1)], {}),
    '203 still defining': ([12001, 203012, 12001],
                           lambda s: [num(12001, 500 + s, 12, 1), refdef(12001, -40 - s, 12)], {}),
    '203 new refval in force': ([12001, 203012, 12001, 203255, 12001],
                                lambda s: [num(12001, 600 + s, 12, 1), refdef(12001, -60 + 100 * s, 12),
                                           num(12001, 700 + s, 12, 1, ref=-60 + 100 * s)], {}),
    '222 with bitmap for reuse': ([1001, 1002, 222000] + BITMAP_PART + [101002, 33007],
                                  lambda s: [num(1001, 40 + s, 7), num(1002, 800 + s, 10), const(222000)] +
                                  bitmap_fields(s) + [num(33007, 90 + s, 7), num(33007, 80 + s, 7)],
                                  {8: 0, 9: 1}),
    'markers under 207': ([12001, 1002, 224000] + BITMAP_PART + [8023, 207001, 101002, 224255],
                          lambda s: [num(12001, 900 + s, 12, 1), num(1002, 600 + s, 10), const(224000)] +
                          bitmap_fields(s) + [num(8023, 10, 6),
                                              num(12001, 50000 + s, 16, 2), num(1002, 12000 + s, 14, 1)],
                          {9: 0, 10: 1}),
    'markers behind 207000': ([207001, 12001, 1002, 224000] + BITMAP_PART + [8023, 207000, 101002, 224255],
                              lambda s: [num(12001, 60000 + s, 16, 2), num(1002, 13000 + s, 14, 1), const(224000)] +
                              bitmap_fields(s) + [num(8023, 10, 6),
                                                  num(12001, 1000 + s, 12, 1), num(1002, 500 + s, 10)],
                              {9: 0, 10: 1}),
}
# Associated fields, markers and bits of a bitmap are reported under the id of the element / 031031
# itself; in '204 open' the third entry is the associated field of the fourth


def message_json(descriptor_ids, values_all_subsets, compressed):
    return [
        ['BUFR', 0, 4],
        [22, 0, 89, 0, 0, False, '0000000', 0, 2, 0, 13, 0, 2007, 11, 21, 12, 0, 0],
        [0, '00000000', len(values_all_subsets), True, compressed, '000000', list(descriptor_ids)],
        [0, '00000000', [list(v) for v in values_all_subsets]],
        ['7777'],
    ]


def section_4_payload(message_bytes, n_descriptors):
    start = 8 + 22 + 7 + 2 * n_descriptors
    length = int(bytearray(message_bytes[start:start + 3]).hex(), 16)
    check(start + length + 4 == len(message_bytes), 'section 4 is the last but one')
    return bytes(message_bytes[start + 4:start + length])


def pack(bits):
    bits += '0' * (-len(bits) % 8)
    return bytes(bytearray(int(bits[i:i + 8], 2) for i in range(0, len(bits), 8)))


def via_json(template, table_group):
    return loads_compiled_template(json.dumps(TemplateCompiler().process(template, table_group).to_dict()))


def coders():
    enc_plain, dec_plain = Encoder(), Decoder()
    enc_comp, dec_comp = Encoder(compiled_template_cache_max=2), Decoder(compiled_template_cache_max=100)
    enc_json, dec_json = Encoder(compiled_template_cache_max=5), Decoder(compiled_template_cache_max=5)
    enc_json.compiled_template_manager.get_or_compile = via_json
    dec_json.compiled_template_manager.get_or_compile = via_json
    return (enc_plain, enc_comp, enc_json), (dec_plain, dec_comp, dec_json)


def part_2_messages():
    encoders, decoders = coders()
    for round_ in range(2):  # the second round meets the caches filled by the first
        for name in sorted(CASES):
            ids, fields_of, links = CASES[name]
            for compressed in (False, True):
                if compressed:
                    subsets = [fields_of(1), fields_of(1)]
                    payload = pack(''.join(bits + '000000' for _, _, _, bits in subsets[0] if bits))
                else:
                    subsets = [fields_of(s) for s in (0, 1, 2)]
                    payload = pack(''.join(bits for fields in subsets for _, _, _, bits in fields))
                what = '{} ({})'.format(name, 'compressed' if compressed else 'uncompressed')
                expected_ids = [[f[0] for f in fields] for fields in subsets]
                expected_values = [[f[2] for f in fields] for fields in subsets]
                js = message_json(ids, [[f[1] for f in fields] for fields in subsets], compressed)

                reference = None
                for enc in encoders:
                    m = enc.process(json.loads(json.dumps(js)))
                    if reference is None:
                        reference = m.serialized_bytes
                        check(section_4_payload(reference, len(ids)) == payload,
                              '{}: the data bits are those packed by hand'.format(what))
                    check(m.serialized_bytes == reference, '{}: all encoders write the same bytes'.format(what))
                    td = m.template_data.value
                    check([[d.id for d in ds] for ds in td.decoded_descriptors_all_subsets] == expected_ids,
                          '{}: descriptors of the encoder'.format(what))
                    check(td.bitmap_links_all_subsets == [links] * len(subsets), '{}: links (encoder)'.format(what))
                for dec in decoders:
                    m = dec.process(reference)
                    td = m.template_data.value
                    check([[d.id for d in ds] for ds in td.decoded_descriptors_all_subsets] == expected_ids,
                          '{}: decoded descriptors'.format(what))
                    check(td.decoded_values_all_subsets == expected_values,
                          '{}: decoded values\n {}\n {}'.format(what, td.decoded_values_all_subsets, expected_values))
                    check(td.bitmap_links_all_subsets == [links] * len(subsets), '{}: links'.format(what))
                    check(m.serialized_bytes == reference, '{}: whole message consumed'.format(what))
    print('  {} templates x (3 subsets uncompressed, 2 subsets compressed) x 3 encoders x 3 decoders, twice'.format(
        len(CASES)))


# ---------------------------------------------------------------------------
# 3. what is stored for marker operators
def marker_calls(block):
    for st in block.statements:
        if type(st) is Loop:
            for x in marker_calls(st):
                yield x
        elif getattr(st, 'method_name', None) == 'process_bitmapped_descriptor':
            yield st


def part_3_state_properties():
    table_group = TableGroupCacheManager.get_table_group()
    expected = {'markers under 207': (4, 1, 10), 'markers behind 207000': (0, 0, 1)}
    for name, modifier in sorted(expected.items()):
        compiled = TemplateCompiler().process(table_group.template_from_ids(*CASES[name][0]), table_group)
        reloaded = loads_compiled_template(json.dumps(compiled.to_dict()))
        for which, template in (('compiled', compiled), ('reloaded', reloaded)):
            calls = list(marker_calls(template))
            check(len(calls) == 1, '{}: one marker call in a loop'.format(name))
            properties = calls[0].state_properties
            check(properties == {'new_nbytes': 0, 'nbits_offset': 0, 'scale_offset': 0, 'bsr_modifier': modifier},
                  '{} {}: state properties {}'.format(name, which, properties))
            m = properties['bsr_modifier']
            check(type(m) is BSRModifier and (m.nbits_increment, m.scale_increment, m.refval_factor) == modifier,
                  '{} {}: a BSRModifier'.format(name, which))
        check(json.loads(json.dumps(compiled.to_dict())) == json.loads(json.dumps(reloaded.to_dict())),
              '{}: same JSON'.format(name))


if __name__ == '__main__':
    part_1_states()
    part_2_messages()
    part_3_state_properties()
    print('OK ({} checks)'.format(N_CHECKS[0]))
