"""
Demo for refactor 1 (pybufrkit/bitops.py: BitReader.read, BitStringBitReader._bit_stream_read,
read_bytes / read_uint / read_bin / read_int).

Run as:  cd /tmp/tw_C12 && /venv/bin/python _out/1/demo.py
"""
import os, sys; sys.path.insert(0, os.getcwd())

import bitstring

import pybufrkit
from pybufrkit.bitops import get_bit_reader, BitStringBitReader, BitReader
from pybufrkit.decoder import Decoder
from pybufrkit.errors import PyBufrKitError, BitReadError

assert os.path.dirname(os.path.abspath(pybufrkit.__file__)) == os.path.join(os.getcwd(), 'pybufrkit'), \
    'wrong copy of pybufrkit imported: ' + pybufrkit.__file__

DATA = os.path.join(os.getcwd(), 'tests', 'data')


def load(name):
    with open(os.path.join(DATA, name + '.bufr'), 'rb') as ins:
        return ins.read()


def run(s, *calls):
    """Run the calls in order on one reader, record (result-or-error, position after)."""
    reader = get_bit_reader(s)
    out = []
    for name, args in calls:
        try:
            out.append((getattr(reader, name)(*args), reader.get_pos()))
        except Exception as e:  # noqa
            out.append(((type(e), str(e)), reader.get_pos()))
    return out


NEED = 'Error: Needed a length of at least {} bits, but only {} bits were available.'


def bre(needed, available):
    return (BitReadError, NEED.format(needed, available))


# ---------------------------------------------------------------------------
# 1. The reader in isolation: values, types, positions, error types and texts
# ---------------------------------------------------------------------------
assert isinstance(get_bit_reader(b''), BitStringBitReader)
assert issubclass(BitReadError, PyBufrKitError)

S = b'\xa5\x5a\xff'  # 1010 0101 0101 1010 1111 1111

# plain reads
assert run(S, ('read_uint', (3,)), ('read_uint', (5,)), ('read_uint', (16,))) == \
    [(5, 3), (5, 8), (0x5aff, 24)]
assert run(S, ('read_uint', (24,))) == [(0xa55aff, 24)]
assert run(S, ('read_uint', (1,)), ('read_uint', (8,)), ('read_uint', (15,))) == \
    [(1, 1), (0x4a, 9), (0x5aff & 0x7fff, 24)]
assert run(S, ('read_bytes', (1,)), ('read_bytes', (2,))) == [(b'\xa5', 8), (b'\x5a\xff', 24)]
assert run(S, ('read_bin', (4,)), ('read_bin', (9,))) == [('1010', 4), ('010101011', 13)]
assert run(S, ('read_bool', ()), ('read_bool', ()), ('read_bool', ())) == [(True, 1), (False, 2), (True, 3)]
for value, _ in run(S, ('read_bool', ()), ('read_bool', ())):
    assert type(value) is bool
for value, _ in run(S, ('read_uint', (8,)), ('read_uint', (3,)), ('read_int', (5,))):
    assert type(value) is int

# zero and negative widths: NOT wrapped, these are errors of the caller and stay ValueError
ZERO = (ValueError, 'Cannot interpret a zero length bitstring as an integer.')
assert run(S, ('read_uint', (0,))) == [(ZERO, 0)]
assert run(S, ('read_bytes', (0,))) == [(b'', 0)]
assert run(S, ('read_bin', (0,))) == [('', 0)]
assert run(S, ('read_bin', (-8,))) == [((ValueError, "Can't parse 'name[:]length' token 'bin:-8'."), 0)]
assert run(S, ('read_uint', (-8,))) == [((ValueError, "Can't parse 'name[:]length' token 'uintbe:-8'."), 0)]
assert run(S, ('read_uint', (-3,))) == [((ValueError, "Can't parse 'name[:]length' token 'uint:-3'."), 0)]
assert run(S, ('read_bytes', (-1,))) == [((ValueError, "Can't parse 'name[:]length' token 'bytes:-1'."), 0)]
assert run(S, ('read_uint', (8.0,))) == [((ValueError, "Can't parse 'name[:]length' token 'uintbe:8.0'."), 0)]
assert run(S, ('read_uint', (7.5,))) == [((ValueError, "Can't parse 'name[:]length' token 'uint:7.5'."), 0)]
out = run(S, ('read_uint', (None,)))
assert out[0][0][0] is TypeError and out[0][1] == 0

# signed integers: sign bit is consumed first, then the magnitude
assert run(b'\x80\x05', ('read_int', (16,))) == [(-5, 16)]
assert run(b'\x00\x05', ('read_int', (16,))) == [(5, 16)]
assert run(b'\x80\x00', ('read_int', (16,))) == [(0, 16)]
assert run(b'\x80\x00', ('read_int', (16,)))[0][0] is not True
assert type(run(b'\x80\x00', ('read_int', (16,)))[0][0]) is int
assert run(b'\xc0', ('read_int', (2,)), ('read_int', (3,))) == [(-1, 2), (0, 5)]
assert run(b'\xff\x80', ('read_int', (9,))) == [(-255, 9)]
assert run(S, ('read_int', (1,))) == [(0, 1)]  # a field of one bit: the sign bit is gone, the magnitude is empty
assert type(run(S, ('read_int', (1,)))[0][0]) is int
assert run(b'\x00', ('read_int', (1,))) == [(0, 1)]
assert run(S, ('read_int', (0,))) == [(0, 1)]
assert run(S, ('read_int', (-3,))) == [(0, 1)]
out = run(S, ('read_int', (None,)))
assert out[0][0][0] is TypeError and out[0][1] == 1
# magnitude runs out: sign bit stays consumed, position is after the sign bit
assert run(b'\x80\x05', ('read_int', (17,))) == [(bre(16, 15), 1)]
assert run(b'', ('read_int', (8,))) == [(bre(1, 0), 0)]

# missing values
assert run(b'\xff\xff', ('read_uint_or_none', (1,)), ('read_uint_or_none', (7,)),
           ('read_uint_or_none', (8,)), ('read_uint_or_none', (1,))) == \
    [(1, 1), (None, 8), (None, 16), (bre(1, 0), 16)]
assert run(b'\xfe', ('read_uint_or_none', (7,)), ('read_uint_or_none', (1,))) == [(None, 7), (0, 8)]

# the generic dispatcher
assert run(S, ('read', ('bool', 7)), ('read', ('bytes', 12)), ('read', ('uint', 25)),
           ('read', ('bin', 3)), ('read', ('int', 4)), ('read', ('uint', 8))) == \
    [(True, 1), (b'J', 9), (bre(25, 15), 9), ('101', 12), (-2, 16), (255, 24)]
assert run(S, ('read', ('bytes', 0)), ('read', ('bytes', 7)), ('read', ('bytes', 8))) == \
    [(b'', 0), (b'', 0), (b'\xa5', 8)]
assert run(S, ('read', ('bool', None)), ('read', ('bool', 'x'))) == [(True, 1), (False, 2)]
out = run(S, ('read', ('nosuch', 1)))
assert out[0][0][0] is AttributeError and out[0][1] == 0
out = run(S, ('read', (None, 1)))  # the name of the method cannot be built
assert out[0][0][0] is TypeError and out[0][1] == 0
out = run(S, ('read', ('nosuch', None)))  # lookup of the method comes before any arithmetic
assert out[0][0][0] is AttributeError
out = run(S, ('read', ('bytes', None)))
assert out[0][0][0] is TypeError and out[0][1] == 0
out = run(S, ('read', ('bytes', 'ab')))
assert out[0][0][0] is TypeError and out[0][1] == 0


# the caller's object holding the width is never modified (no in-place arithmetic on it)
class Width(int):
    touched = False

    def __ifloordiv__(self, other):
        Width.touched = True
        return Width(int(self) // other)


w = Width(16)
assert run(S, ('read', ('bytes', w))) == [(b'\xa5\x5a', 16)]
assert w == 16 and not Width.touched

# running out of bits: always the library's own BitReadError, never a bitstring error, position kept
assert run(b'', ('read_bool', ()), ('read_uint', (8,)), ('read_bytes', (1,)), ('read_int', (8,)),
           ('read_bin', (1,)), ('read_uint_or_none', (3,)), ('read_uint', (3,))) == \
    [(bre(1, 0), 0), (bre(8, 0), 0), (bre(8, 0), 0), (bre(1, 0), 0), (bre(1, 0), 0), (bre(3, 0), 0),
     (bre(3, 0), 0)]
assert run(b'\x80\x05', ('read_bytes', (3,)), ('read_bytes', (2,)), ('read_bin', (1,))) == \
    [(bre(24, 16), 0), (b'\x80\x05', 16), (bre(1, 0), 16)]
assert run(S, ('read_uint', (20,)), ('read_uint', (5,)), ('read_uint', (4,)), ('read_bool', ())) == \
    [(0xa55af, 20), (bre(5, 4), 20), (15, 24), (bre(1, 0), 24)]

# the wrapped error: exact type, message attribute, and the original error as its context
reader = get_bit_reader(b'\x01')
try:
    reader.read_uint(9)
except BitReadError as e:
    assert type(e) is BitReadError
    assert e.message == 'Needed a length of at least 9 bits, but only 8 bits were available.'
    assert isinstance(e.__context__, bitstring.ReadError)
    assert isinstance(e.__context__, reader.bitstring_Error)
    assert e.__cause__ is None
else:
    raise AssertionError('no error')
assert reader.get_pos() == 0 and reader.read_uint(8) == 1

# errors that are not bitstring errors pass through the wrapper untouched
reader = get_bit_reader(b'\x01')
for bad in ('uint:0', 'nosuchtype:3', 'bin:-1'):
    try:
        reader._bit_stream_read(bad)
    except ValueError as e:
        assert not isinstance(e, PyBufrKitError)
    else:
        raise AssertionError('no error')
assert reader._bit_stream_read('uint:8') == 1
assert reader._bit_stream_read('bytes:0') == b''


# a subclass that overrides the primitive readers is still honoured by read() and read_int()
class Recorder(BitStringBitReader):
    def __init__(self, s):
        super(Recorder, self).__init__(s)
        self.calls = []

    def _bit_stream_read(self, fmt_string):
        self.calls.append(fmt_string)
        return super(Recorder, self)._bit_stream_read(fmt_string)


rec = Recorder(b'\x80\x05\xff\xff\xff')
assert rec.read_int(16) == -5
assert rec.read('bytes', 9) == b'\xff'
assert rec.read('bool', 0) is True
assert rec.read('bin', 2) == '11'
assert rec.read_uint_or_none(5) is None
assert rec.read_uint(8) == 255
assert rec.calls == ['uint:1', 'uint:15', 'bytes:1', 'uint:1', 'bin:2', 'uint:5', 'uintbe:8']

# ---------------------------------------------------------------------------
# 2. Through the decoder: no proper prefix of a message decodes, exhaustively
# ---------------------------------------------------------------------------
decoder = Decoder()
compiled_decoder = Decoder(compiled_template_cache_max=10)

NAMES = ['contrived', '207003', 'profiler_european', 'uegabe']
for name in NAMES:
    s = load(name)
    whole = decoder.process(s)
    assert whole.serialized_bytes == s and whole.length.value == len(s)
    reference = (whole.template_data.value.decoded_values_all_subsets,
                 [[d.id for d in ds] for ds in whole.template_data.value.decoded_descriptors_all_subsets])
    # info only scanning skips over the payload of the data section, up to the stop signature
    end_of_info = [sec.get_metadata('bitpos_start') for sec in whole.sections
                   if sec.get_metadata('index') == 5][0] // 8
    assert end_of_info == len(s) - 4

    n_bit_read_errors = 0
    for n in range(len(s)):
        prefix = s[:n]
        for dec in (decoder, compiled_decoder) if n % 7 == 0 or n > len(s) - 12 else (decoder,):
            try:
                dec.process(prefix)
            except PyBufrKitError as e:
                assert type(e) in (PyBufrKitError, BitReadError), (name, n, type(e))
                if n >= 4:
                    # with the start signature present, a short message is a bit read error
                    assert type(e) is BitReadError, (name, n, type(e), str(e))
                    assert str(e).startswith('Error: Needed a length of at least '), (name, n, str(e))
                    n_bit_read_errors += dec is decoder
                else:
                    assert str(e).startswith('Error: Cannot find start signature'), (name, n, str(e))
            else:
                raise AssertionError('{}: prefix of {} bytes decoded'.format(name, n))

        # info only scanning does not read the stop signature
        try:
            m = decoder.process(prefix, info_only=True)
        except PyBufrKitError as e:
            assert n < end_of_info, (name, n)
            assert type(e) is (BitReadError if n >= 4 else PyBufrKitError), (name, n, type(e))
        else:
            assert n >= end_of_info, (name, n)
            assert m.length.value == len(s)
    assert n_bit_read_errors == len(s) - 4

    # bytes that follow a message never influence its decoding
    for tail in (b'7777', b'BUFR', b'\x00', b'\xff' * 9, s, s[:11]):
        for dec in (decoder, compiled_decoder):
            m = dec.process(s + tail)
            assert m.serialized_bytes == s
            assert (m.template_data.value.decoded_values_all_subsets,
                    [[d.id for d in ds] for ds in
                     m.template_data.value.decoded_descriptors_all_subsets]) == reference
        assert decoder.process(s + tail, info_only=True).length.value == len(s)

print('demo 1 OK')
