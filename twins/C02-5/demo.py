import os, sys; sys.path.insert(0, os.getcwd())
"""
Differential demonstration for refactor 5 (section framing in Encoder.process_section
and Encoder.process: octet padding, section lengths, total length).

Every message is built twice: by pybufrkit's Encoder and by the small bit assembler
below, which knows nothing of pybufrkit (it has its own copy of the section layouts
and of the few Table B entries it uses).  The two byte strings must be identical.

Branches reached
  * edition 2 and 3 (sections padded with zero bits to an even number of octets):
      - odd number of whole octets, no residue        -> 8 bits of padding
      - odd number of whole octets, residue r         -> 8 - r bits
      - even number of whole octets, no residue       -> nothing
      - even number of whole octets, residue r        -> 16 - r bits
  * edition 4 (padded to a whole octet): residue 0 -> nothing, residue r -> 8 - r bits
  * the same in section 2 (free bit string), section 3 (always 7 + 2n octets) and
    section 4 (uncompressed and compressed)
  * sections without a section_length (0 and 5)
  * ignore_declared_length=True: declared lengths are overwritten
  * ignore_declared_length=False:
      - declared section length 0        -> computed
      - declared == written              -> nothing
      - declared > written               -> zero bits up to the declared length
      - declared < written               -> PyBufrKitError, message checked
      - declared total length 0          -> computed
      - declared total length == written -> kept
      - declared total length != written -> PyBufrKitError, message checked
"""
import collections
import itertools
import random

from pybufrkit.encoder import Encoder
from pybufrkit.errors import PyBufrKitError

# ----------------------------------------------------------------------------
# An independent assembler
# ----------------------------------------------------------------------------
# (descriptor id) -> (kind, nbits, scale, reference)   -- copied from WMO Table B
TABLE_B = {
    1001: ('num', 7, 0, 0),
    1002: ('num', 10, 0, 0),
    2001: ('code', 2, 0, 0),
    12001: ('num', 12, 1, 0),
}


class Bits(object):
    def __init__(self):
        self.s = ''

    def __len__(self):
        return len(self.s)

    def uint(self, value, nbits):
        assert 0 <= value < (1 << nbits), (value, nbits)
        self.s += format(value, 'b').zfill(nbits)

    def raw(self, bits):
        assert set(bits) <= set('01')
        self.s += bits

    def text(self, s):
        for c in s:
            self.uint(ord(c), 8)

    def zeros(self, n):
        self.s += '0' * n

    def to_bytes(self):
        assert len(self.s) % 8 == 0, len(self.s)
        return bytes(bytearray(int(self.s[i:i + 8], 2) for i in range(0, len(self.s), 8)))


def raw_of(descriptor, value):
    kind, nbits, scale, ref = TABLE_B[descriptor]
    if value is None:
        return (1 << nbits) - 1, nbits
    if kind == 'num':
        # exact decimal scaling, no floating point rounding for the chosen values
        value = int(round(value * 10 ** scale)) - ref
    return value, nbits


def data_bits_uncompressed(descriptors, subsets):
    b = Bits()
    for values in subsets:
        for d, v in zip(descriptors, values):
            b.uint(*raw_of(d, v))
    return b.s


def data_bits_compressed(descriptors, subsets):
    b = Bits()
    for i, d in enumerate(descriptors):
        nbits = TABLE_B[d][1]
        column = [raw_of(d, values[i])[0] if values[i] is not None else None for values in subsets]
        present = [v for v in column if v is not None]
        if not present:
            b.uint((1 << nbits) - 1, nbits)
            b.uint(0, 6)
        elif len(set(column)) == 1:
            b.uint(column[0], nbits)
            b.uint(0, 6)
        else:
            lo, hi = min(present), max(present)
            # pybufrkit's convention for the width: the largest difference plus one
            # must still be smaller than the all ones pattern reserved for missing
            width = 1
            while (1 << width) - 1 <= hi - lo + 1:
                width += 1
            b.uint(lo, nbits)
            b.uint(width, 6)
            for v in column:
                b.uint((1 << width) - 1 if v is None else v - lo, width)
    return b.s


def section1_bits(edition, with_section2):
    b = Bits()
    if edition == 4:
        fields = [(0, 8), (98, 16), (3, 16), (1, 8), (int(with_section2), 1), (0, 7), (2, 8), (4, 8), (5, 8),
                  (25, 8), (0, 8), (2021, 16), (6, 8), (7, 8), (8, 8), (9, 8), (10, 8)]
    elif edition == 3:
        fields = [(0, 8), (3, 8), (98, 8), (1, 8), (int(with_section2), 1), (0, 7), (2, 8), (5, 8),
                  (25, 8), (0, 8), (21, 8), (6, 8), (7, 8), (8, 8), (9, 8), (10, 8)]
    else:
        fields = [(0, 8), (98, 16), (1, 8), (int(with_section2), 1), (0, 7), (2, 8), (5, 8),
                  (25, 8), (0, 8), (21, 8), (6, 8), (7, 8), (8, 8), (9, 8), (10, 8)]
    for value, nbits in fields:
        b.uint(value, nbits)
    return b.s


def section1_json(edition, with_section2, declared):
    if edition == 4:
        return [declared, 0, 98, 3, 1, with_section2, '0000000', 2, 4, 5, 25, 0, 2021, 6, 7, 8, 9, 10]
    elif edition == 3:
        return [declared, 0, 3, 98, 1, with_section2, '0000000', 2, 5, 25, 0, 21, 6, 7, 8, 9, 10]
    else:
        return [declared, 0, 98, 1, with_section2, '0000000', 2, 5, 25, 0, 21, 6, 7, 8, 9, 10]


class Expected(Exception):
    """The assembler predicts an error of the encoder; args[0] is the message."""


STATS = collections.Counter()


def frame(edition, body_bits, declared, honour_declared):
    """
    One section with a 3 octet length: body_bits follow the length field.
    Returns the bit string of the whole section.
    """
    nbits = 24 + len(body_bits)
    unit = 16 if edition <= 3 else 8
    STATS['padding', unit, nbits // 8 % 2, nbits % 8] += 1
    while nbits % unit:
        body_bits += '0'
        nbits += 1
    if honour_declared and declared != 0:
        if declared * 8 < nbits:
            raise Expected('Writing exceeds declared section length {} by {} bytes'.format(
                declared, (nbits - declared * 8) // 8))
        STATS['declared > written' if declared * 8 > nbits else 'declared == written'] += 1
        body_bits += '0' * (declared * 8 - nbits)
        length = declared
    else:
        length = nbits // 8
    b = Bits()
    b.uint(length, 24)
    b.raw(body_bits)
    return b.s


def build(edition, descriptors, subsets, compressed, section2_bits=None,
          declared=(0, 0, 0, 0, 0), honour_declared=False):
    """
    declared = (total, section 1, section 2, section 3, section 4)
    Returns (json message for the encoder, expected bytes or Expected instance)
    """
    with_section2 = section2_bits is not None
    js = [['BUFR', declared[0], edition], section1_json(edition, with_section2, declared[1])]
    if with_section2:
        js.append([declared[2], '00000000', section2_bits])
    js.append([declared[3], '00000000', len(subsets), True, compressed, '000000', list(descriptors)])
    js.append([declared[4], '00000000', [list(v) for v in subsets]])
    js.append(['7777'])

    try:
        parts = [frame(edition, section1_bits(edition, with_section2), declared[1], honour_declared)]
        if with_section2:
            parts.append(frame(edition, '00000000' + section2_bits, declared[2], honour_declared))
        s3 = Bits()
        s3.zeros(8)
        s3.uint(len(subsets), 16)
        s3.uint(1, 1)
        s3.uint(int(compressed), 1)
        s3.zeros(6)
        for d in descriptors:
            s3.uint(d // 100000, 2)
            s3.uint(d // 1000 % 100, 6)
            s3.uint(d % 1000, 8)
        parts.append(frame(edition, s3.s, declared[3], honour_declared))
        data = (data_bits_compressed if compressed else data_bits_uncompressed)(descriptors, subsets)
        parts.append(frame(edition, '00000000' + data, declared[4], honour_declared))

        body = ''.join(parts)
        total = 8 + len(body) // 8 + 4
        if honour_declared and declared[0] != 0:
            if declared[0] != total:
                raise Expected('Write exceeds declared total length {} by {} bytes'.format(
                    declared[0], total - declared[0]))
        b = Bits()
        b.text('BUFR')
        b.uint(total, 24)
        b.uint(edition, 8)
        b.raw(body)
        b.text('7777')
        return js, b.to_bytes()
    except Expected as e:
        return js, e


N_OK = N_ERR = 0


def check(label, js, expected, **encoder_kwargs):
    global N_OK, N_ERR
    encoder = Encoder(**encoder_kwargs)
    try:
        message = encoder.process(js, wire_template_data=False)
        got = message.serialized_bytes
    except PyBufrKitError as e:
        assert isinstance(expected, Expected), '{}: unexpected error {!r}'.format(label, e)
        assert type(e) is PyBufrKitError, (label, type(e))
        assert str(e.message if hasattr(e, 'message') else e) == expected.args[0], \
            '{}: {!r} != {!r}'.format(label, str(e), expected.args[0])
        N_ERR += 1
        return None
    assert not isinstance(expected, Expected), '{}: expected error {!r}, got bytes'.format(label, expected)
    assert got == expected, '{}:\n got {}\n exp {}'.format(label, got.hex(), expected.hex())
    # The message object: start positions and lengths of the sections as in the bytes
    assert message.length.value == len(expected), label
    pos = 0
    for section in message.sections:
        assert section.get_metadata('bitpos_start') == pos * 8, (label, pos)
        if 'section_length' in section:
            assert section.section_length.value == int.from_bytes(expected[pos:pos + 3], 'big'), (label, pos)
            pos += section.section_length.value
        else:
            pos += 8 if pos == 0 else 4
    assert pos == len(expected), label
    N_OK += 1
    return got


# ----------------------------------------------------------------------------
# 1. Every residue of the data section, editions 2, 3, 4, both layouts
# ----------------------------------------------------------------------------
# a x 2 bits (002001) + b x 7 bits (001001) + c x 10 bits (001002) + d x 12 bits (012001)
templates = []
for a, b_, c, d in itertools.product(range(0, 5), range(0, 3), range(0, 2), range(0, 2)):
    descriptors = [2001] * a + [1001] * b_ + [1002] * c + [12001] * d
    if descriptors:
        templates.append(descriptors)

VALUES = {2001: [0, 1, 2, None], 1001: [0, 3, 126, None, 77], 1002: [0, 1022, None, 512], 12001: [0.0, 409.4, 27.3, None]}

seen_uncompressed = set()
seen_compressed = set()
for edition in (2, 3, 4):
    for k, descriptors in enumerate(templates):
        for n_subsets in (1, 2, 3):
            subsets = []
            for i in range(n_subsets):
                subsets.append([VALUES[d][(i + j + k) % len(VALUES[d])] for j, d in enumerate(descriptors)])
            for compressed in (False, True):
                js, expected = build(edition, descriptors, subsets, compressed)
                got = check('sweep ed{} {} n={} c={}'.format(edition, descriptors, n_subsets, compressed), js, expected)
                # which (octet parity, residue) cases of section 4 have been visited
                if compressed:
                    nbits = 32 + len(data_bits_compressed(descriptors, subsets))
                else:
                    nbits = 32 + len(data_bits_uncompressed(descriptors, subsets))
                (seen_compressed if compressed else seen_uncompressed).add((edition, nbits // 8 % 2, nbits % 8))
                # The same message with the lengths declared wrongly: they are overwritten
                js2, _ = build(edition, descriptors, subsets, compressed, declared=(5, 1, 0, 3, 999))
                check('overwritten lengths', js2, expected)
                check('overwritten lengths, explicit flag', js2, expected, ignore_declared_length=True)

for seen in (seen_uncompressed, seen_compressed):
    for edition in (2, 3, 4):
        for parity in (0, 1):
            for residue in range(8):
                assert (edition, parity, residue) in seen, (edition, parity, residue)

# ----------------------------------------------------------------------------
# 2. Every residue in section 2 (free bit string of any length, 0..40 bits)
# ----------------------------------------------------------------------------
for edition in (2, 3, 4):
    for n in range(0, 41):
        bits = ''.join('1' if (i * 7 + n) % 3 else '0' for i in range(n))
        js, expected = build(edition, [1001, 2001], [[5, 1], [None, 2]], False, section2_bits=bits)
        check('section2 ed{} {} bits'.format(edition, n), js, expected)
        js, expected = build(edition, [1001, 2001], [[5, 1], [None, 2]], True, section2_bits=bits)
        check('section2 ed{} {} bits compressed'.format(edition, n), js, expected)

# ----------------------------------------------------------------------------
# 3. Declared lengths honoured (ignore_declared_length=False)
# ----------------------------------------------------------------------------
for edition in (2, 3, 4):
    for descriptors, subsets in (([1001], [[9]]),
                                 ([1001, 2001], [[9, 1], [None, 3]]),
                                 ([1002, 12001, 2001], [[1, 1.5, None], [2, None, 0], [3, 300.1, 1]])):
        for compressed in (False, True):
            for bits in (None, '', '101', '1' * 8, '01' * 6):
                # the real lengths, from a first build with everything computed
                js, expected = build(edition, descriptors, subsets, compressed, section2_bits=bits,
                                     honour_declared=True)
                got = check('all zero declared', js, expected, ignore_declared_length=False)
                total = len(got)
                # read the lengths back from the expected bytes (independent of the encoder)
                lengths = []
                pos = 8
                while expected[pos:pos + 4] != b'7777' or pos + 4 != total:
                    lengths.append(int.from_bytes(expected[pos:pos + 3], 'big'))
                    pos += lengths[-1]
                if bits is None:
                    lengths.insert(1, 0)
                l1, l2, l3, l4 = lengths

                options = [(0, l1, l1 + 1, l1 + 4, l1 - 1),
                           (0, l2, l2 + 3, l2 - 1) if bits is not None else (0,),
                           (0, l3, l3 + 2, l3 - 2),
                           (0, l4, l4 + 1, l4 + 7, l4 - 1, 1)]
                combos = set()
                # one section at a time, the others computed (0) or declared exactly
                for i, opts in enumerate(options):
                    for o in opts:
                        for others in ((0, 0, 0, 0), (l1, l2, l3, l4)):
                            combo = list(others)
                            combo[i] = o
                            combos.add(tuple(combo))
                # and a pseudo-random sample of the full product
                rnd = random.Random(edition * 1000 + len(descriptors) * 10 + compressed)
                full = list(itertools.product(*options))
                combos.update(rnd.sample(full, 12))
                for d1, d2, d3, d4 in sorted(combos):
                    extra = sum(d - l for d, l in ((d1, l1), (d2, l2), (d3, l3), (d4, l4)) if d > l)
                    for dt in (0, total + extra, total + extra + 1, total + extra - 2, total):
                        js, expected2 = build(edition, descriptors, subsets, compressed, section2_bits=bits,
                                              declared=(dt, d1, d2, d3, d4), honour_declared=True)
                        check('declared {}'.format((dt, d1, d2, d3, d4)), js, expected2,
                              ignore_declared_length=False)

for unit in (8, 16):
    for parity in (0, 1):
        for residue in range(8):
            assert STATS['padding', unit, parity, residue] > 0, (unit, parity, residue)
assert STATS['declared > written'] > 100 and STATS['declared == written'] > 100, STATS
assert N_OK > 1000 and N_ERR > 1000, (N_OK, N_ERR)
print('refactor 5 demo: {} messages byte-identical to the hand-assembled ones, '
      '{} predicted errors raised with the predicted text'.format(N_OK, N_ERR))
