import os, sys; sys.path.insert(0, os.getcwd())
import copy
import glob
import itertools
import random

import pybufrkit
assert os.path.dirname(os.path.dirname(os.path.abspath(pybufrkit.__file__))) == os.getcwd(), pybufrkit.__file__

from pybufrkit.decoder import Decoder
from pybufrkit.encoder import Encoder
from pybufrkit.errors import PyBufrKitError
from pybufrkit.renderer import FlatJsonRenderer

DATA_DIR = os.path.join('tests', 'data')
META_SKIP = {'length', 'section_length', 'n_subsets', 'template_data'}


# --------------------------------------------------------------------------
# inputs
# --------------------------------------------------------------------------
def make_json(n_subsets, compressed, rows):
    """A small edition 4 message: 301011 (y/m/d), 012101 (numeric, scale 2),
    001015 (20 byte string), 020011 (code table), 002001 (code table)."""
    return [
        ['BUFR', 0, 4],
        [22, 0, 1, 0, 0, False, '0000000', 2, 4, 0, 18, 0, 2016, 2, 18, 23, 0, 0],
        [0, '00000000', n_subsets, True, compressed, '000000',
         [301011, 12101, 1015, 20011, 2001]],
        [0, '00000000', [list(r) for r in rows]],
        ['7777'],
    ]


def generated_rows():
    name = lambda s: s.ljust(20)
    return [
        # y     m   d   temp     name             cloud  station
        [2016,  2,  18, 273.15,  name('ALPHA'),   3,     1],
        [2016,  2,  19, 280.01,  name('BRAVO'),   3,     None],
        [2016,  None, 19, None,  None,            3,     None],
        [2016,  2,  18, 273.15,  name('ALPHA'),   3,     1],
        [2016,  12, 1,  199.99,  name('ECHO'),    None,  None],
        [2016,  2,  20, 280.01,  None,            7,     None],
    ]


def build_inputs(decoder, corpus=True):
    """Yield (label, source message) pairs: generated, then sample corpus."""
    rows = generated_rows()
    encoder = Encoder()
    for compressed in (False, True):
        for n in (1, 2, len(rows)):
            encoded = encoder.process(make_json(n, compressed, rows[:n]))
            yield ('generated n=%d compressed=%s' % (n, compressed),
                   decoder.process(encoded.serialized_bytes))
    if corpus:
        for base in ('contrived', '207003', 'ISMD01_OKPR', 'g2nd_208', 'b005_89',
                     'jaso_214', 'IUSK73_AMMC_182300', 'b002_95', 'uegabe'):
            with open(os.path.join(DATA_DIR, base + '.bufr'), 'rb') as ins:
                yield base, decoder.process(ins.read())


def index_collections(n, rng):
    """Non-empty in-range collections: single, first/last, full, any order, repeats."""
    seen = []

    def add(c):
        if c not in seen:
            seen.append(c)
    add([0])
    add([n - 1])
    add([0, n - 1])
    add(list(range(n)))
    add(list(range(n - 1, -1, -1)))
    add([n - 1, 0, n - 1, 0])
    add((n // 2,))
    add({0, n - 1, n // 2})
    if n > 2:
        add([1, n - 2, 1])
        for _ in range(3):
            k = rng.randint(1, min(n, 5))
            add([rng.randrange(n) for _ in range(k)])
        picked = rng.sample(range(n), min(n, 4))
        add(picked)
        add(picked + picked[:1])
    return seen


# --------------------------------------------------------------------------
# the property
# --------------------------------------------------------------------------
def all_ones(descriptor, value):
    """True when value is the all-ones pattern of the (non-string) field."""
    nbits = getattr(descriptor, 'nbits', None)
    if nbits is None or isinstance(value, (bytes, str)) or value is None:
        return False
    try:
        raw = int(round(value * 10 ** descriptor.scale)) - descriptor.refval
    except Exception:
        return False
    return raw == 2 ** nbits - 1


def same_values(descriptors, expected, actual):
    if len(expected) != len(actual):
        return False
    for d, e, a in zip(descriptors, expected, actual):
        if e == a and type(e) is type(a):
            continue
        if a is None and all_ones(d, e):
            continue            # FM-94: all ones is missing
        return False
    return True


def metadata(message):
    return [(p.name, p.value) for s in message.sections for p in s
            if p.name not in META_SKIP]


def snapshot(message):
    return (message.serialized_bytes,
            FlatJsonRenderer().render(message),
            copy.deepcopy(message.template_data.value.decoded_values_all_subsets),
            [[d.id for d in ds] for ds in message.template_data.value.decoded_descriptors_all_subsets])


def verify_output(label, message, indices, raw, decoder, encoder):
    """raw is the encoded result of subsetting message by indices."""
    result = decoder.process(raw)
    wanted = sorted(set(indices))
    td_src = message.template_data.value
    td_new = result.template_data.value

    assert result.n_subsets.value == len(wanted), (label, indices)
    assert len(td_new.decoded_values_all_subsets) == len(wanted), (label, indices)
    for k, idx in enumerate(wanted):
        assert same_values(td_src.decoded_descriptors_all_subsets[idx],
                           td_src.decoded_values_all_subsets[idx],
                           td_new.decoded_values_all_subsets[k]), (label, indices, k, idx)
        assert ([d.id for d in td_new.decoded_descriptors_all_subsets[k]] ==
                [d.id for d in td_src.decoded_descriptors_all_subsets[idx]]), (label, indices, k)

    # template, identification and compression flag unchanged
    assert result.unexpanded_descriptors.value == message.unexpanded_descriptors.value, label
    assert result.is_compressed.value == message.is_compressed.value, label
    assert metadata(result) == metadata(message), (label, indices)
    # valid message: declared length is the real one, signatures in place
    assert raw[:4] == b'BUFR' and raw[-4:] == b'7777', label
    assert result.length.value == len(raw), label
    # the decoded message re-encodes to the very same bytes
    again = encoder.process(FlatJsonRenderer().render(result), wire_template_data=False)
    assert again.serialized_bytes == raw, (label, indices)
    return result


def check_subset(label, message, indices, decoder, encoder):
    before = snapshot(message)
    n = message.n_subsets.value
    indices_before = copy.copy(indices)

    data = message.subset(indices)
    assert isinstance(data, list) and len(data) == len(message.sections), label
    encoded = encoder.process(data, file_path='<demo>', wire_template_data=False)
    raw = encoded.serialized_bytes
    verify_output(label, message, indices, raw, decoder, encoder)

    # source and argument untouched
    assert snapshot(message) == before, (label, indices)
    assert message.n_subsets.value == n
    assert indices == indices_before and type(indices) is type(indices_before)
    return data, raw


def check_refusals(label, message):
    n = message.n_subsets.value
    before = snapshot(message)
    for bad in ([n], [0, n], [n, 0], [-1], [0, -1], [-1, 0], [n - 1, n], [n + 5], (n,), {0, -1}):
        try:
            message.subset(bad)
        except PyBufrKitError:
            pass
        else:
            raise AssertionError('%s: %r accepted' % (label, bad))
    # both ends wrong: the upper bound is reported
    try:
        message.subset([-1, n])
    except PyBufrKitError as e:
        assert 'maximum subset index out of range' in str(e), str(e)
    else:
        raise AssertionError('accepted')
    try:
        message.subset([-1])
    except PyBufrKitError as e:
        assert 'minimum subset index out of range' in str(e), str(e)
    else:
        raise AssertionError('accepted')
    # an empty collection is not a selection at all
    for empty in ([], (), set()):
        try:
            message.subset(empty)
        except ValueError:
            pass
        else:
            raise AssertionError('empty accepted')
    assert snapshot(message) == before, label


def run_property(corpus=True, seed=10, encoders=None, extra=None):
    rng = random.Random(seed)
    decoder = Decoder()
    encoders = encoders or [Encoder(), Encoder(compiled_template_cache_max=8)]
    count = 0
    for label, message in build_inputs(decoder, corpus=corpus):
        n = message.n_subsets.value
        check_refusals(label, message)
        for indices in index_collections(n, rng):
            outputs = []
            for encoder in encoders:
                data, raw = check_subset(label, message, indices, decoder, encoder)
                outputs.append(raw)
                if extra:
                    extra(label, message, indices, data, raw)
                count += 1
            assert len(set(outputs)) == 1, (label, indices)   # compiled == interpreted
    return count


# --------------------------------------------------------------------------
# demo 1: BufrMessage.subset() itself
# --------------------------------------------------------------------------
def check_data_shape(label, message, indices, data, raw):
    """The value lists handed to the encoder, parameter by parameter."""
    wanted = sorted(set(indices))
    for section, section_data in zip(message.sections, data):
        parameters = list(section)
        assert type(section_data) is list and len(section_data) == len(parameters), label
        for parameter, value in zip(parameters, section_data):
            if parameter.name == 'template_data':
                source = parameter.value.decoded_values_all_subsets
                assert type(value) is list and len(value) == len(wanted), (label, indices)
                for got, idx in zip(value, wanted):
                    assert got == source[idx], (label, indices, idx)
            elif parameter.name == 'n_subsets':
                assert value == len(wanted) and type(value) is int, (label, indices)
            else:
                assert value == parameter.value and type(value) is type(parameter.value), \
                    (label, parameter.name)


def check_argument_kinds(decoder):
    with open(os.path.join(DATA_DIR, 'ISMD01_OKPR.bufr'), 'rb') as ins:
        message = decoder.process(ins.read())          # 7 subsets, compressed
    reference = message.subset([1, 5])
    for same in ((5, 1), {1, 5}, frozenset([5, 1]), range(1, 6, 4), {5: 'x', 1: 'y'},
                 [5, 1, 5, 1, 1], [True, 5], [1.0, 5]):
        assert message.subset(same) == reference, same
    # two calls give independent outer lists
    again = message.subset([1, 5])
    assert again == reference and again is not reference
    assert all(a is not b for a, b in zip(again, reference))
    # bad arguments keep their error types
    for bad, error in ((None, TypeError), (3, TypeError), (['a'], TypeError), ([None], TypeError),
                       (iter([0, 1]), ValueError), ([[0]], TypeError)):
        try:
            message.subset(bad)
        except error:
            pass
        else:
            raise AssertionError('no %s for %r' % (error.__name__, bad))
    try:
        message.subset([7])
    except PyBufrKitError as e:
        assert str(e) == 'Error: maximum subset index out of range', str(e)
    else:
        raise AssertionError('7 accepted')


if __name__ == '__main__':
    n = run_property(extra=check_data_shape)
    check_argument_kinds(Decoder())
    print('demo 1 ok: %d subset/encode/decode round trips' % n)
