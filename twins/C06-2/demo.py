"""
Demo for refactor 2 (CoderState.build_bitmapped_descriptors / recall_bitmap:
the backward scan and the iterator rewind are helpers of their own).

Run as:  cd /tmp/tw_C06 && /venv/bin/python _out/2/demo.py
Exits 0 when every assertion holds (with or without the patch).
"""
import os, sys; sys.path.insert(0, os.getcwd())
import itertools
import json

import pybufrkit
assert os.path.dirname(os.path.abspath(pybufrkit.__file__)) == os.path.join(os.getcwd(), 'pybufrkit'), \
    'wrong copy of pybufrkit imported: ' + pybufrkit.__file__

from pybufrkit.coder import CoderState
from pybufrkit.decoder import Decoder
from pybufrkit.encoder import Encoder
from pybufrkit.errors import PyBufrKitError
from pybufrkit.descriptors import ElementDescriptor, MarkerDescriptor, OperatorDescriptor
from pybufrkit.renderer import NestedJsonRenderer


# ---------------------------------------------------------------------------
# Part 2: whole messages. Every subset alone == the same subset in company.
# ---------------------------------------------------------------------------
def make_message(descriptors, subsets):
    return [["BUFR", 0, 4],
            [22, 0, 1, 0, 0, False, '0000000', 2, 4, 0, 18, 0, 2016, 2, 18, 23, 0, 0],
            [0, '00000000', len(subsets), True, False, '000000', list(descriptors)],
            [0, '00000000', [list(s) for s in subsets]],
            ["7777"]]


def views(msg):
    td = msg.template_data.value
    nested = NestedJsonRenderer().render(msg)[-2][-1]['value']
    assert len(nested) == len(td.decoded_values_all_subsets)
    return [(list(td.decoded_values_all_subsets[i]),
             [(type(d).__name__, d.id) for d in td.decoded_descriptors_all_subsets[i]],
             dict(td.bitmap_links_all_subsets[i]),
             json.dumps(nested[i], sort_keys=True, default=repr))
            for i in range(len(nested))]


def roundtrip(descriptors, subsets, cache=None):
    enc = Encoder(compiled_template_cache_max=cache).process(json.dumps(make_message(descriptors, subsets)))
    dec = Decoder(compiled_template_cache_max=cache).process(enc.serialized_bytes)
    return views(enc), views(dec), enc.serialized_bytes


def check_independence(descriptors, subsets, cache=None, max_orders=40):
    alone = [roundtrip(descriptors, [s], cache) for s in subsets]
    n_orders = 0
    for r in range(2, len(subsets) + 1):
        for order in itertools.permutations(range(len(subsets)), r):
            n_orders += 1
            if n_orders > max_orders:
                return
            enc, dec, _ = roundtrip(descriptors, [subsets[i] for i in order], cache)
            assert len(enc) == len(dec) == len(order)
            for pos, i in enumerate(order):
                assert enc[pos] == alone[i][0][0], ('encoder', descriptors, order, pos)
                assert dec[pos] == alone[i][1][0], ('decoder', descriptors, order, pos)


def ta_subset(temps, bits, temps2=(271.5, 272.5), bits2=(0, 1)):
    z, z2 = list(bits).count(0), list(bits2).count(0)
    return ([len(temps)] + list(temps) + [0, 0, len(bits)] + list(bits) + [1, 2, z] + [50 + k for k in range(z)]
            + [0, 0, 3, 4, 4, z] + [200.5 + k for k in range(z)] + [0]
            + list(temps2) + [0, len(bits2)] + list(bits2) + [5, 6, z2] + [70 + k for k in range(z2)])


# delayed replication before a bitmap, bitmap reuse (236000/237000), first order
# statistics markers, 237255 and 235000 cancellations, then a second, direct bitmap
TA = [101000, 31001, 12001, 222000, 236000, 101000, 31001, 31031, 1031, 1032, 101000, 31001, 33007,
      224000, 237000, 1031, 1032, 8023, 101000, 31001, 224255, 237255, 235000,
      12001, 12001, 222000, 101000, 31001, 31031, 1031, 1032, 101000, 31001, 33007]
TA_SUBSETS = [ta_subset([280.5, 281.5, 282.5], [0, 1, 0]),
              ta_subset([250.0], [0, 0], bits2=(1, 0)),
              ta_subset([260.0, 261.0, 262.0, 263.0, 264.0], [1, 1, 0, 1, 1], bits2=(0, 0)),
              ta_subset([], [0])]

# 203: the new reference value is still in force when the subset ends
TB = [101000, 31001, 12001, 203010, 12001, 203255, 101000, 31001, 12001]
TB_SUBSETS = [[1, 280.0, -50, 2, 10.0, 20.0], [0, 20, 1, 5.5], [3, 1.0, 2.0, 3.0, 0, 0]]

# 201, 202, 208, 204, 207 are all still in force when the subset ends
TC = [12001, 1015, 201134, 202129, 12001, 208004, 1015, 204008, 31021, 12001, 207001, 12001]
TC_SUBSETS = [[280.5, 'STATION A', 250.55, 'ABCD', 1, 3, 260.25, 7, 270.125],
              [180.5, None, None, 'WXYZ', 2, None, None, None, 170.0],
              [None, 'B', 1.0, None, 63, 255, 2.0, 0, None]]

# 221: one "data not present" still to go when the subset ends
TD = [12001, 1001, 221003, 1001, 12001]
TD_SUBSETS = [[280.5, 94, 95], [None, 1, 2], [100.0, None, None]]

# the template ends in the middle of a bitmap definition
TE = [101000, 31001, 12001, 222000, 236000, 101000, 31001, 31031]
TE_SUBSETS = [[2, 280.5, 281.5, 0, 0, 3, 0, 1, 0], [0, 0, 0, 1, 1], [1, 200.0, 0, 0, 0]]

# the template ends while 222000 waits for its class 33 values, and starts with one
TF = [33007, 12001, 12001, 222000, 101000, 31001, 31031, 1031]
TF_SUBSETS = [[10, 280.5, 281.5, 0, 2, 0, 1, 7], [None, 1.0, 2.0, 0, 3, 1, 1, 0, 8], [99, None, None, 0, 1, 0, 9]]


# ---------------------------------------------------------------------------
# Part 1: the bookkeeping itself against an independent model
# ---------------------------------------------------------------------------
def model(descriptors, boundary, bitmap, existing):
    """
    What build_bitmapped_descriptors has to produce:
    (back referenced descriptors, bitmapped descriptors or None when it must refuse)
    """
    if existing:
        back = existing
    else:
        elements = [(i, d) for i, d in enumerate(descriptors[:max(boundary, 0)])
                    if type(d) is ElementDescriptor]
        # as many as there are bits, counted backwards; a bitmap without bits
        # never stops the scan
        back = elements[-len(bitmap):] if len(bitmap) else elements
    if len(back) != len(bitmap):
        return back, None
    return back, [entry for bit, entry in zip(bitmap, back) if bit == 0]


def drain(next_func):
    out = []
    while True:
        try:
            out.append(next_func())
        except StopIteration:
            return out


def same_entries(got, expected):
    return (len(got) == len(expected) and
            all(type(g) is tuple and g[0] == e[0] and g[1] is e[1] for g, e in zip(got, expected)))


def real_descriptors():
    """A realistic mix: elements, operators and markers as the decoder leaves them."""
    _, _, data = roundtrip(TA, [TA_SUBSETS[0]])
    descriptors = Decoder().process(data).template_data.value.decoded_descriptors_all_subsets[0]
    kinds = set(type(d) for d in descriptors)
    assert kinds == {ElementDescriptor, OperatorDescriptor, MarkerDescriptor}
    assert issubclass(MarkerDescriptor, ElementDescriptor)  # isinstance would let markers through
    return descriptors


def unit_checks():
    descriptors = real_descriptors()
    n = len(descriptors)
    bitmaps = [[], [0], [1], [None], [0, 0], [0, 1], [1, 0, 0], [0, None, 0, 1], [1] * 5, [0] * 6,
               (0, 1, 0), [0] * (n + 1)]
    n_ok = n_refused = 0
    for boundary in list(range(0, n + 1)) + [-3]:
        for bitmap in bitmaps:
            state = CoderState(False, 1)
            state.decoded_descriptors.extend(descriptors)
            state.back_reference_boundary = boundary
            sentinel_next, sentinel_bitmapped = object(), object()
            state.next_bitmapped_descriptor = sentinel_next
            state.bitmapped_descriptors = sentinel_bitmapped
            back, bitmapped = model(descriptors, boundary, bitmap, None)
            if bitmapped is None:
                n_refused += 1
                try:
                    state.build_bitmapped_descriptors(bitmap)
                except PyBufrKitError as e:
                    assert 'Back referenced descriptors not matching defined Bitmap' in str(e)
                else:
                    raise AssertionError('PyBufrKitError expected')
                # what was found so far stays, the rest is untouched
                assert same_entries(state.back_referenced_descriptors, back)
                assert state.next_bitmapped_descriptor is sentinel_next
                assert state.bitmapped_descriptors is sentinel_bitmapped
                continue
            n_ok += 1
            assert state.build_bitmapped_descriptors(bitmap) is None
            assert same_entries(state.back_referenced_descriptors, back)
            assert same_entries(state.bitmapped_descriptors, bitmapped)
            assert type(state.back_referenced_descriptors) is list
            assert type(state.bitmapped_descriptors) is list
            assert state.bitmap is None  # saving the bitmap is the business of define_bitmap
            assert state.back_reference_boundary == boundary
            assert state.decoded_descriptors == descriptors
            # the retrieval function walks through them once ...
            assert same_entries(drain(state.next_bitmapped_descriptor), bitmapped)
            assert drain(state.next_bitmapped_descriptor) == []
            # ... and recalling starts all over, returning the saved bitmap
            # (rebased: since "fix: 237000 recalls the bitmap defined for reuse" the bitmapped
            # descriptors are rebuilt from the saved bitmap, so the saved one is the bitmap itself)
            state.bitmap = saved = bitmap
            assert state.recall_bitmap() is saved
            assert same_entries(drain(state.next_bitmapped_descriptor), bitmapped)
            # links are made to the index of the referred descriptor
            if bitmapped:
                state.recall_bitmap()
                state.add_bitmap_link()
                assert state.bitmap_links == {n: bitmapped[0][0]}

            # a second bitmap re-uses the back references (no 235000 in between),
            # wherever the boundary is by now
            state.back_reference_boundary = 0
            for bitmap2 in bitmaps:
                before = list(state.back_referenced_descriptors)
                back2, bitmapped2 = model(descriptors, 0, bitmap2, before)
                if bitmapped2 is None:
                    kept_next, kept = state.next_bitmapped_descriptor, state.bitmapped_descriptors
                    try:
                        state.build_bitmapped_descriptors(bitmap2)
                    except PyBufrKitError:
                        pass
                    else:
                        raise AssertionError('PyBufrKitError expected')
                    assert state.next_bitmapped_descriptor is kept_next and state.bitmapped_descriptors is kept
                else:
                    state.build_bitmapped_descriptors(bitmap2)
                    assert same_entries(state.bitmapped_descriptors, bitmapped2)
                    assert same_entries(drain(state.next_bitmapped_descriptor), bitmapped2)
                assert same_entries(state.back_referenced_descriptors, back2)
            # after 235000 the scan is done again
            state.cancel_all_back_references()
            assert state.back_referenced_descriptors is None and state.bitmapped_descriptors is None
            state.back_reference_boundary = boundary
            state.build_bitmapped_descriptors(bitmap)
            assert same_entries(state.back_referenced_descriptors, back)
    assert n_ok > 100 and n_refused > 100, (n_ok, n_refused)

    # two subsets, one state: the scan looks at the descriptors of the current subset only
    state = CoderState(False, 2)
    state.decoded_descriptors_all_subsets[0].extend(descriptors[:4])
    state.decoded_descriptors_all_subsets[1].extend(descriptors[1:3])
    state.switch_subset_context(0)
    state.mark_back_reference_boundary()
    assert state.back_reference_boundary == 4
    state.build_bitmapped_descriptors([0, 0, 1, 0])
    assert [i for i, _ in state.bitmapped_descriptors] == [0, 1, 3]
    state.switch_subset_context(1)
    assert state.back_referenced_descriptors is None and state.back_reference_boundary == 0
    state.mark_back_reference_boundary()
    assert state.back_reference_boundary == 2
    state.build_bitmapped_descriptors([1, 0])
    assert same_entries(state.bitmapped_descriptors, [(1, descriptors[2])])
    try:
        state.build_bitmapped_descriptors([0, 0, 1, 0])  # what fitted subset 0 does not fit here
    except PyBufrKitError:
        pass
    else:
        raise AssertionError('PyBufrKitError expected')

    # errors that are not PyBufrKitError
    state = CoderState(False, 1)
    try:
        state.recall_bitmap()  # nothing defined yet (rebased: refused with PyBufrKitError since the fix)
    except PyBufrKitError as e:
        assert e.message == 'No bitmap is defined for reuse'
        assert state.next_bitmapped_descriptor is None
    else:
        raise AssertionError('PyBufrKitError expected')
    state.decoded_descriptors.extend(descriptors[:4])
    state.mark_back_reference_boundary()
    try:
        state.build_bitmapped_descriptors(None)  # not a bitmap at all
    except TypeError:
        # the scan had found its first element when it asked for the length
        assert same_entries(state.back_referenced_descriptors, [(3, descriptors[3])])
        assert state.bitmapped_descriptors is None and state.next_bitmapped_descriptor is None
    else:
        raise AssertionError('TypeError expected')
    state = CoderState(False, 1)
    state.decoded_descriptors.extend(descriptors[:2])
    state.back_reference_boundary = 3  # beyond the end
    try:
        state.build_bitmapped_descriptors([0])
    except IndexError:
        assert state.back_referenced_descriptors == []
    else:
        raise AssertionError('IndexError expected')
    for bad in (None, 2.0, 'x'):
        state = CoderState(False, 1)
        state.back_reference_boundary = bad
        try:
            state.build_bitmapped_descriptors([0])
        except TypeError:
            assert state.back_referenced_descriptors == []
        else:
            raise AssertionError('TypeError expected')


# bitmap reuse: same bitmap recalled twice, then cancelled, then a new one
TG = [12001, 12001, 12001, 12001, 222000, 236000, 101000, 31001, 31031, 1031, 1032, 101000, 31001, 33007,
      224000, 237000, 1031, 1032, 8023, 101000, 31001, 224255,
      225000, 237000, 1031, 1032, 8024, 101000, 31001, 225255, 237255]


def tg_subset(temps, bits):
    z = list(bits).count(0)
    return (list(temps) + [0, 0, len(bits)] + list(bits) + [1, 2, z] + [40 + k for k in range(z)]
            + [0, 0, 3, 4, 4, z] + [150.5 + k for k in range(z)]
            + [0, 0, 5, 6, 2, z] + [-1.5 + k for k in range(z)] + [0])


TG_SUBSETS = [tg_subset([280.5, 281.5, 282.5, 283.5], [0, 0, 0, 0]),
              tg_subset([180.5, None, 182.5, 183.5], [1, 0]),
              tg_subset([None, None, None, 1.5], [0, 1, 1]),
              tg_subset([10.0, 20.0, 30.0, 40.0], [1])]


def message_checks():
    check_independence(TA, TA_SUBSETS, max_orders=40)
    check_independence(TA, TA_SUBSETS, cache=4, max_orders=10)
    check_independence(TG, TG_SUBSETS, max_orders=40)
    check_independence(TG, TG_SUBSETS, cache=4, max_orders=10)
    for descriptors, subsets in ((TE, TE_SUBSETS), (TF, TF_SUBSETS)):
        check_independence(descriptors, subsets)
        check_independence(descriptors, subsets, cache=4)

    # absolute results
    _, dec, _ = roundtrip(TA, TA_SUBSETS)
    assert dec[0][2] == {13: 1, 14: 3, 21: 1, 22: 3, 33: 24}
    assert dec[1][2] == {10: 0, 11: 1, 18: 0, 19: 1, 30: 22}
    assert dec[2][2] == {17: 3, 24: 3, 35: 26, 36: 27}
    assert dec[3][2] == {8: 0, 15: 0, 26: 17}
    _, dec, _ = roundtrip(TG, TG_SUBSETS)
    assert dec[0][2] == {14: 0, 15: 1, 16: 2, 17: 3, 24: 0, 25: 1, 26: 2, 27: 3, 34: 0, 35: 1, 36: 2, 37: 3}
    assert dec[1][2] == {12: 3, 19: 3, 26: 3}
    assert dec[2][2] == {13: 1, 20: 1, 27: 1}
    assert dec[3][2] == {}

    # a bitmap longer than what can be referred to is refused wherever it stands
    good = TG_SUBSETS[1]
    bad = tg_subset([1.0, 2.0, 3.0, 4.0], [0, 1, 0, 1, 0])
    for subsets in ([bad], [good, bad], [bad, good], [good, good, bad]):
        for cache in (None, 4):
            try:
                Encoder(compiled_template_cache_max=cache).process(json.dumps(make_message(TG, subsets)))
            except PyBufrKitError as e:
                assert 'Back referenced descriptors not matching defined Bitmap' in str(e)
            else:
                raise AssertionError('PyBufrKitError expected')
    # more class 33 values than zero bits: the retrieval runs dry
    greedy = list(TG_SUBSETS[3])
    assert greedy[10] == 0  # the replication factor of 033007
    greedy[10:11] = [1, 55]
    for subsets in ([greedy], [TG_SUBSETS[0], greedy]):
        try:
            Encoder().process(json.dumps(make_message(TG, subsets)))
        except StopIteration:
            pass
        else:
            raise AssertionError('StopIteration expected')

    # sample files: compressed and uncompressed, bitmaps with and without reuse
    expected = {'rado_250': (494, 1872013, 447070), 'b005_89': (21, 4837, 1395),
                'amv2_87': (36, 8766, 612), 'asr3_190': (132, 60984, 14850)}
    for stub, numbers in expected.items():
        with open(os.path.join('tests', 'data', stub + '.bufr'), 'rb') as ins:
            data = ins.read()
        for cache in (None, 4):
            msg = Decoder(compiled_template_cache_max=cache).process(data)
            for links in msg.template_data.value.bitmap_links_all_subsets:
                assert (len(links), sum(links), sum(links.values())) == numbers, stub


if __name__ == '__main__':
    unit_checks()
    message_checks()
    print('demo 2: OK')
