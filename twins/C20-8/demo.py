import os, sys; sys.path.insert(0, os.getcwd())
"""
Differential demonstration for refactor 8 (tables._fix_ncep_descriptors: the
descriptors are worked off from the end of the reversed list, one repair
function per kind of descriptor chosen from a table).

The definition message and all data messages are written bit by bit by the
small writer below (no Encoder involved). The expected shape of the templates
is written out by hand and the expected values are computed by plain
arithmetic from the same specifications.
"""
import logging

logging.disable(logging.CRITICAL)

from pybufrkit.decoder import Decoder, generate_bufr_message
from pybufrkit.descriptors import (SequenceDescriptor, FixedReplicationDescriptor, DelayedReplicationDescriptor,
                                   ElementDescriptor, OperatorDescriptor, UndefinedSequenceDescriptor)
from pybufrkit.tables import TableGroupCacheManager, _fix_ncep_descriptors

N_CHECKS = [0]


def check(condition, what):
    N_CHECKS[0] += 1
    if not condition:
        print('FAILED: {}'.format(what))
        sys.exit(1)


def check_raises(exception_type, func, what):
    try:
        func()
    except Exception as e:
        check(type(e) is exception_type, '{}: got {}: {}'.format(what, type(e).__name__, e))
        return e
    else:
        check(False, '{}: no exception'.format(what))


def reset_tables():
    cache = TableGroupCacheManager._TABLE_GROUP_CACHE
    cache.extra_b_entries.clear()
    cache.extra_d_entries.clear()
    TableGroupCacheManager.invalidate()


# ---------------------------------------------------------------- writing messages by hand
class Bits(object):
    def __init__(self):
        self.bits = []

    def uint(self, value, nbits):
        assert 0 <= value < (1 << nbits)
        self.bits.append(format(value, '0{}b'.format(nbits)))
        return self

    def chars(self, text, nchars):
        assert len(text) == nchars, (text, nchars)
        for c in text:
            self.uint(ord(c), 8)
        return self

    def to_bytes(self):
        s = ''.join(self.bits)
        s += '0' * (-len(s) % 8)
        return bytes(bytearray(int(s[i:i + 8], 2) for i in range(0, len(s), 8)))


def message(category, descriptors, data, n_subsets=1):
    """An edition 4 message, uncompressed, master table version 33, no local tables"""
    sec1 = Bits().uint(22, 24).uint(0, 8).uint(7, 16).uint(0, 16).uint(0, 8).uint(0, 8)
    sec1.uint(category, 8).uint(0, 8).uint(0, 8).uint(33, 8).uint(0, 8)
    sec1.uint(2020, 16).uint(1, 8).uint(2, 8).uint(3, 8).uint(4, 8).uint(5, 8)
    sec3 = Bits().uint(7 + 2 * len(descriptors), 24).uint(0, 8).uint(n_subsets, 16).uint(0x80, 8)
    for d in descriptors:
        sec3.uint(d // 100000, 2).uint(d // 1000 % 100, 6).uint(d % 1000, 8)
    payload = data.to_bytes()
    sec4 = Bits().uint(4 + len(payload), 24).uint(0, 8).to_bytes() + payload
    body = sec1.to_bytes() + sec3.to_bytes() + sec4 + b'7777'
    return b'BUFR' + Bits().uint(8 + len(body), 24).uint(4, 8).to_bytes() + body


class B(object):
    def __init__(self, fxy, name, unit, scale, refval, width):
        self.fxy, self.name, self.unit, self.scale, self.refval, self.width = fxy, name, unit, scale, refval, width

    def write(self, bits):
        bits.chars(self.fxy[0], 1).chars(self.fxy[1:3], 2).chars(self.fxy[3:], 3)
        bits.chars(self.name.ljust(32), 32).chars(' ' * 32, 32).chars(self.unit.ljust(24), 24)
        bits.chars('+' if self.scale >= 0 else '-', 1).chars(str(abs(self.scale)).ljust(3), 3)
        bits.chars('+' if self.refval >= 0 else '-', 1).chars(str(abs(self.refval)).ljust(10), 10)
        bits.chars(str(self.width).ljust(3), 3)

    def value(self, raw):
        return (raw + self.refval) * 10.0 ** (-self.scale)


class D(object):
    def __init__(self, fxy, name, members):
        self.fxy, self.name, self.members = fxy, name, members

    def write(self, bits):
        bits.chars(self.fxy[0], 1).chars(self.fxy[1:3], 2).chars(self.fxy[3:], 3)
        bits.chars(self.name.ljust(64), 64)
        bits.uint(len(self.members), 8)
        for member in self.members:
            bits.chars(member, 6)


def definition_message(b, d):
    descriptors = [103000, 31001, 1, 2, 3, 101000, 31001, 300004,
                   105000, 31001, 300003, 205064, 101000, 31001, 30]
    bits = Bits().uint(0, 8).uint(len(b), 8)
    for spec in b:
        spec.write(bits)
    bits.uint(len(d), 8)
    for spec in d:
        spec.write(bits)
    return message(11, descriptors, bits)


T1 = B('048001', 'TMPX', 'K', 2, -1000, 17)
T2 = B('048002', 'HGTX', 'M', -1, 50, 9)
T3 = B('049003', 'NAMEX', 'CCITT IA5', 0, 0, 24)

DEFINITIONS = [
    D('360001', 'DRP16BIT', ['101000', '031002']),  # replicates what follows it, 16 bit count
    D('360002', 'DRP8BIT', ['101000', '031001']),  # the same, 8 bit count
    D('360004', 'REP3', ['101003']),  # what follows it, three times
    D('361001', 'LEVEL', ['048001', '048002']),
    D('361002', 'NESTED', ['001001', '360002', '361001', '360004', '048002', '102002', '048002', '049003']),
    D('361003', 'TWOREP', ['102000', '031001']),  # replication of two that are not there
    D('361004', 'DANGLING', ['360002']),  # nothing follows inside the sequence
    D('361005', 'OUTER', ['361002', '360001', '361002']),
]
DEFINITION = definition_message([T1, T2, T3], DEFINITIONS)


# ---------------------------------------------------------------- looking at templates
def shape(descriptor):
    """The structure of a descriptor as nested tuples / lists of numbers"""
    if isinstance(descriptor, SequenceDescriptor):
        return descriptor.id, [shape(member) for member in descriptor.members]
    if isinstance(descriptor, DelayedReplicationDescriptor):
        return descriptor.id, descriptor.factor.id, [shape(member) for member in descriptor.members]
    if isinstance(descriptor, FixedReplicationDescriptor):
        return descriptor.id, [shape(member) for member in descriptor.members]
    check(isinstance(descriptor, (ElementDescriptor, OperatorDescriptor, UndefinedSequenceDescriptor)),
          'kind of descriptor {!r}'.format(descriptor))
    return descriptor.id


def all_descriptors(descriptor):
    yield descriptor
    for member in getattr(descriptor, 'members', None) or []:
        for x in all_descriptors(member):
            yield x


LEVEL = (361001, [48001, 48002])
NESTED = (361002, [1001, (101000, 31001, [LEVEL]), (101003, [48002]), (102002, [48002, 49003])])

# unexpanded descriptors, the shape of the template they give, data (raw numbers with their
# widths, or text), the values these stand for
CASES = [
    ('delayed, followed by an element',
     [360002, 48001, 48002],
     [(101000, 31001, [48001]), 48002],
     [(2, 8), (5, 17), (100000, 17), (3, 9)],
     [2, T1.value(5), T1.value(100000), T2.value(3)]),
    ('16 bit delayed followed by a sequence, fixed followed by an element',
     [360001, 361001, 360004, 49003, 1001],
     [(101000, 31002, [LEVEL]), (101003, [49003]), 1001],
     [(2, 16), (1, 17), (2, 9), (3, 17), (4, 9), 'abc', 'de ', 'fgh', (9, 7)],
     [2, T1.value(1), T2.value(2), T1.value(3), T2.value(4), b'abc', b'de ', b'fgh', 9]),
    ('inside a sequence',
     [361002, 48001],
     [NESTED, 48001],
     [(44, 7), (1, 8), (70000, 17), (11, 9), (1, 9), (2, 9), (3, 9), (4, 9), 'xyz', (5, 9), 'uvw', (6, 17)],
     [44, 1, T1.value(70000), T2.value(11), T2.value(1), T2.value(2), T2.value(3),
      T2.value(4), b'xyz', T2.value(5), b'uvw', T1.value(6)]),
    ('inside a sequence inside a sequence, and replicating one',
     [361005],
     [(361005, [NESTED, (101000, 31002, [NESTED])])],
     [(44, 7), (0, 8), (1, 9), (2, 9), (3, 9), (4, 9), 'xyz', (5, 9), 'uvw',
      (1, 16),
      (45, 7), (2, 8), (7, 17), (8, 9), (9, 17), (10, 9), (1, 9), (2, 9), (3, 9), (4, 9), 'rst', (5, 9), 'opq'],
     [44, 0, T2.value(1), T2.value(2), T2.value(3), T2.value(4), b'xyz', T2.value(5), b'uvw',
      1,
      45, 2, T1.value(7), T2.value(8), T1.value(9), T2.value(10), T2.value(1), T2.value(2), T2.value(3),
      T2.value(4), b'rst', T2.value(5), b'opq']),
    ('replications that have their members, operators, zero repeats',
     [102002, 48001, 48002, 201129, 48002, 201000, 101000, 31001, 361001, 360002, 1001],
     [(102002, [48001, 48002]), 201129, 48002, 201000, (101000, 31001, [LEVEL]), (101000, 31001, [1001])],
     [(1, 17), (2, 9), (3, 17), (4, 9), (600, 10), (1, 8), (5, 17), (6, 9), (0, 8)],
     [T1.value(1), T2.value(2), T1.value(3), T2.value(4), T2.value(600), 1, T1.value(5), T2.value(6), 0]),
    ('replication of a replication-only sequence within members that are there',
     [103000, 31001, 48001, 360004, 48002, 1001],
     [(103000, 31001, [48001, (101003, [48002])]), 1001],
     [(1, 8), (9, 17), (1, 9), (2, 9), (3, 9), (77, 7)],
     [1, T1.value(9), T2.value(1), T2.value(2), T2.value(3), 77]),
    ('the same descriptors twice',
     [360004, 361001, 360004, 361001],
     [(101003, [LEVEL]), (101003, [LEVEL])],
     [(i, w) for _ in range(2) for i, w in [(1, 17), (2, 9), (3, 17), (4, 9), (5, 17), (6, 9)]],
     [f(v) for _ in range(2) for f, v in [(T1.value, 1), (T2.value, 2), (T1.value, 3), (T2.value, 4),
                                            (T1.value, 5), (T2.value, 6)]]),
]

# unexpanded descriptors that cannot be repaired
FAILING = [
    ('a replication-only sequence replicating another one', [360002, 360004, 48002], IndexError),
    ('nothing follows', [48001, 360002], IndexError),
    ('nothing follows, fixed', [360004], IndexError),
    ('nothing follows inside a sequence', [361004, 48001], IndexError),
    ('nothing follows inside the members', [101000, 31001, 360002, 48001], IndexError),
    ('bare replication at the end', [48001, 101000, 31001], IndexError),
    ('bare replication of two at the end', [48001, 102000, 31001], AssertionError),
    ('replication-only sequence of two', [361003, 48001, 48002], AssertionError),
]


def data_bits(data):
    bits = Bits()
    for item in data:
        if isinstance(item, tuple):
            bits.uint(*item)
        else:
            bits.chars(item, len(item))
    return bits


def same(actual, expected):
    if isinstance(expected, float):
        return actual is not None and abs(actual - expected) <= 1e-9 * max(1.0, abs(expected))
    return actual == expected and type(actual) is type(expected)


def table_group():
    return TableGroupCacheManager.get_table_group(master_table_version=33)


def check_tables_untouched(group, what):
    d = group.D
    check(shape(d.lookup(360001)) == (360001, [(101000, 31002, [])]), what + ': 360001 in the tables')
    check(shape(d.lookup(360002)) == (360002, [(101000, 31001, [])]), what + ': 360002 in the tables')
    check(shape(d.lookup(360004)) == (360004, [(101003, [])]), what + ': 360004 in the tables')
    check(shape(d.lookup(361002)) == (361002, [1001, shape(d.lookup(360002)), LEVEL, shape(d.lookup(360004)), 48002,
                                               (102002, [48002, 49003])]), what + ': 361002 in the tables')
    check(shape(d.lookup(361005)) == (361005, [shape(d.lookup(361002)), shape(d.lookup(360001)),
                                               shape(d.lookup(361002))]), what + ': 361005 in the tables')
    check(d.lookup(361005).members[0] is d.lookup(361002), what + ': table sequences still share their members')


def run():
    reset_tables()

    # Without definitions templates are taken as they are
    group = table_group()
    template = group.template_from_ids(101000, 31001, 300003, 301001)
    check(shape(template) == (999999, [(101000, 31001, [(300003, [10, 11, 12])]), (301001, [1001, 1002])]),
          'no definitions: template')
    check(template.members[1] is group.D.lookup(301001), 'no definitions: descriptors of the tables themselves')
    check(shape(group.template_from_ids(1001, 101000, 31001)) == (999999, [1001, (101000, 31001, [])]),
          'no definitions: bare replication kept')

    # The whole stream: definitions, then every case twice (the second time the tables are in the cache)
    stream = DEFINITION
    for what, ids, _, data, _ in CASES + CASES:
        stream += message(0, ids, data_bits(data))
    messages = list(generate_bufr_message(Decoder(), stream))
    check(len(messages) == 1 + 2 * len(CASES), 'number of messages')
    check(bool(TableGroupCacheManager.has_extra_entries()), 'definitions registered')
    for (what, ids, expected_shape, _, expected_values), bufr_message in zip(CASES + CASES, messages[1:]):
        actual = bufr_message.template_data.value.decoded_values_all_subsets[0]
        check(len(actual) == len(expected_values) and all(same(a, e) for a, e in zip(actual, expected_values)),
              '{}: values {!r} != {!r}'.format(what, actual, expected_values))
        check(shape(bufr_message.template_data.value.template) == (999999, expected_shape), what + ': template used')

    group = table_group()
    check_tables_untouched(group, 'after the stream')
    for what, ids, expected_shape, _, _ in CASES:
        template = group.template_from_ids(*ids)
        check(shape(template) == (999999, expected_shape),
              '{}: shape {!r} != {!r}'.format(what, shape(template), expected_shape))
        # nothing of a template belongs to the tables or to another part of the template
        parts = [x for x in all_descriptors(template) if not isinstance(x, (int, ElementDescriptor, OperatorDescriptor))]
        check(len(set(map(id, parts))) == len(parts), what + ': parts are distinct objects')
        in_tables = set(id(x) for seq in group.D.descriptors.values() for x in all_descriptors(seq))
        check(not [x for x in parts if id(x) in in_tables], what + ': parts are copies')
        check_tables_untouched(group, what)

        # the function itself: gives the members, uses up the list it is given
        members = group.descriptors_from_ids(*ids)
        n = len(members)
        fixed = _fix_ncep_descriptors(members)
        check([shape(x) for x in fixed] == expected_shape and type(fixed) is list, what + ': _fix_ncep_descriptors')
        check(members == [] and n > 0, what + ': list used up')
    check(_fix_ncep_descriptors([]) == [], 'nothing to fix')

    follow_up = message(0, [1001, 48002], Bits().uint(3, 7).uint(10, 9))
    for what, ids, exception_type in FAILING:
        e1 = check_raises(exception_type, lambda: group.template_from_ids(*ids), what)
        if exception_type is IndexError:
            check(str(e1) == 'pop from empty list', '{}: message {}'.format(what, e1))
        else:
            check(str(e1) == 'Fix for replication descriptor expects 1 member, got 0', '{}: message {}'.format(what, e1))
        check_raises(exception_type, lambda: _fix_ncep_descriptors(group.descriptors_from_ids(*ids)), what + ', direct')
        check_raises(exception_type,
                     lambda: list(generate_bufr_message(Decoder(), message(0, ids, Bits().uint(0, 8)) + follow_up)),
                     what + ', in a stream')
        check_tables_untouched(group, what)
        messages = list(generate_bufr_message(Decoder(), follow_up))
        check(len(messages) == 1 and same(messages[0].template_data.value.decoded_values_all_subsets[0][1],
                                          T2.value(10)), what + ': later messages are not affected')
    reset_tables()


if __name__ == '__main__':
    run()
    print('OK: {} checks'.format(N_CHECKS[0]))
