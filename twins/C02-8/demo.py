import os, sys; sys.path.insert(0, os.getcwd())
"""
Differential demonstration for refactor 8 (define_bitmap as a template method of Coder,
Encoder / Decoder only say where the bits of the bitmap are).

The bitmap decides which elements the marker operators (224255, 225255, ...) stand for,
hence the width, scale and reference value of the fields that are written for them.
Messages with bitmaps are built here by hand (string formatting only, raw numbers typed
in) and compared byte for byte with what the encoder produces from the values; the same
bytes are decoded and must give back the values and the links between marker and element.

Branches reached
  Coder.define_bitmap      : compressed / uncompressed, for reuse (236000) / not for reuse,
                             called from the template walk and from a compiled template
  Encoder hook             : bits taken from the middle of the value list (values of later
                             elements follow them), fixed and delayed replication of 031031,
                             bitmaps that differ between the subsets (uncompressed)
  Decoder hook             : bits are the last values decoded so far
  errors                   : 237000 after a bitmap that was not defined for reuse, bitmap of the
                             wrong length, more markers than bits that are zero
  and define_bitmap of the working copy against the one in HEAD (git show) on random states
"""
import json

from pybufrkit.encoder import Encoder
from pybufrkit.decoder import Decoder

FAILURES = []


def check(name, ok, detail=''):
    if not ok:
        FAILURES.append(name)
    print('{:4s} {}{}'.format('ok' if ok else 'FAIL', name, '' if ok else '  ' + detail))


# --------------------------------------------------------------------------
# Independent construction of a message (edition 4)
def u(value, nbits):
    """Unsigned integer, MSB first"""
    if nbits == 0:
        assert value == 0
        return ''
    assert 0 <= value < (1 << nbits), (value, nbits)
    return format(value, 'b').rjust(nbits, '0')


def ones(nbits):
    return '1' * nbits


def octets(bits):
    bits += '0' * (-len(bits) % 8)
    return bytes(int(bits[i:i + 8], 2) for i in range(0, len(bits), 8))


SECTION1 = [22, 0, 1, 0, 0, False, '0000000', 0, 0, 0, 25, 0, 2020, 1, 2, 3, 4, 5]


def message(descriptors, data_bits, n_subsets, compressed):
    sec1 = octets(u(22, 24) + u(0, 8) + u(1, 16) + u(0, 16) + u(0, 8) + '0' + '0000000' +
                  u(0, 8) + u(0, 8) + u(0, 8) + u(25, 8) + u(0, 8) +
                  u(2020, 16) + u(1, 8) + u(2, 8) + u(3, 8) + u(4, 8) + u(5, 8))
    fxy = ''.join(u(d // 100000, 2) + u(d // 1000 % 100, 6) + u(d % 1000, 8) for d in descriptors)
    sec3 = octets(u(7 + 2 * len(descriptors), 24) + u(0, 8) + u(n_subsets, 16) +
                  '1' + ('1' if compressed else '0') + '000000' + fxy)
    data = octets(data_bits)
    sec4 = octets(u(4 + len(data), 24) + u(0, 8)) + data
    total = 8 + len(sec1) + len(sec3) + len(sec4) + 4
    return b'BUFR' + octets(u(total, 24) + u(4, 8)) + sec1 + sec3 + sec4 + b'7777'


def as_json(descriptors, subsets, compressed):
    return [['BUFR', 0, 4],
            list(SECTION1),
            [0, '00000000', len(subsets), True, compressed, '000000', list(descriptors)],
            [0, '00000000', [list(s) for s in subsets]],
            ['7777']]


def field(nbits, raw):
    return ones(nbits) if raw is None else u(raw, nbits)


def ccol(nbits, raws):
    """Independent model of one compressed column of raw numbers (None = missing)"""
    present = [r for r in raws if r is not None]
    if not present:
        return ones(nbits) + u(0, 6)
    if len(present) == len(raws) and min(present) == max(present):
        return u(present[0], nbits) + u(0, 6)
    lo, span = min(present), max(present) - min(present)
    w = (span + 2).bit_length()  # the width the library chooses
    return u(lo, nbits) + u(w, 6) + ''.join(ones(w) if r is None else u(r - lo, w) for r in raws)


ENCODERS = [('walk', Encoder()), ('compiled', Encoder(compiled_template_cache_max=8))]
DECODERS = [('walk', Decoder()), ('compiled', Decoder(compiled_template_cache_max=8))]


def outcome(func):
    try:
        return func()
    except Exception as e:
        return 'raised ' + type(e).__name__ + ': ' + str(e)


def run(name, descriptors, subsets, raw_fields, compressed, links, values_back=None):
    """
    :param raw_fields: for each subset the list of (nbits, raw) that make its part of
        the data section; operators that write nothing are left out.
    :param links: expected bitmap links for each subset
    """
    if compressed:
        bits = ''.join(ccol(column[0][0], [raw for _, raw in column]) for column in zip(*raw_fields))
    else:
        bits = ''.join(field(nbits, raw) for subset in raw_fields for nbits, raw in subset)
    expected = message(descriptors, bits, len(subsets), compressed)
    for label, encoder in ENCODERS:
        for attempt in (1, 2):  # the second time the compiled template comes from the cache
            m = outcome(lambda: encoder.process(json.dumps(as_json(descriptors, subsets, compressed))))
            if isinstance(m, str):
                check('{}: encode [{} #{}]'.format(name, label, attempt), False, m)
                continue
            got = m.serialized_bytes
            check('{}: encode [{} #{}]'.format(name, label, attempt), got == expected,
                  '\n     got      {}\n     expected {}'.format(got.hex(), expected.hex()))
            got_links = m.template_data.value.bitmap_links_all_subsets
            check('{}: links after encoding [{} #{}]'.format(name, label, attempt), got_links == links,
                  repr(got_links))
    for label, decoder in DECODERS:
        for attempt in (1, 2):
            m = outcome(lambda: decoder.process(expected))
            if isinstance(m, str):
                check('{}: decode [{} #{}]'.format(name, label, attempt), False, m)
                continue
            td = m.template_data.value
            check('{}: decode [{} #{}]'.format(name, label, attempt),
                  td.decoded_values_all_subsets == (values_back or subsets),
                  repr(td.decoded_values_all_subsets))
            check('{}: links after decoding [{} #{}]'.format(name, label, attempt),
                  td.bitmap_links_all_subsets == links, repr(td.bitmap_links_all_subsets))


# Elements used:  001001 7 bits | 012001 12 bits, scale 1 | 007001 15 bits, reference -400
#                 008023 / 008024 6 bit code | 033007 7 bits | 031031 1 bit | 031001 8 bits
# 224255 stands for the element itself; 225255 for it with one bit more and reference -2**nbits
B = [1001, 12001, 7001]


def template_reuse_then_other_then_recall():
    """
    A bitmap defined for reuse, then one that is not, then 237000: it is the first that
    comes back. Values of later elements follow the bits in the list given to the encoder.
    """
    descriptors = B + [224000, 236000, 101003, 31031, 8023, 224255, 224255,
                       224000, 101003, 31031, 8023, 224255,
                       225000, 237000, 8024, 225255, 225255]

    def subset(block, temp, height, bm1, m1, bm2, m2, m3):
        """values, fields; m1 / m3 = pairs of (value, nbits, raw) for the zero bits of bm1, m2 for bm2"""
        values = ([block[0], temp[0], height[0], 0, 0] + bm1 + [4] + [m[0] for m in m1] +
                  [0] + bm2 + [5] + [m2[0]] +
                  [0, 0, 6] + [m[0] for m in m3])
        fields = ([(7, block[1]), (12, temp[1]), (15, height[1])] + [(1, b) for b in bm1] + [(6, 4)] +
                  [(m[1], m[2]) for m in m1] +
                  [(1, b) for b in bm2] + [(6, 5)] + [(m2[1], m2[2])] +
                  [(6, 6)] + [(m[1], m[2]) for m in m3])
        return values, fields

    # indexes of the decoded descriptors: 0..2 elements, 3 224000, 4 236000, 5..7 bits, 8 008023,
    # 9, 10 markers, 11 224000, 12..14 bits, 15 008023, 16 marker, 17 225000, 18 237000, 19 008024, 20, 21
    s1 = subset((11, 11), (280.5, 2805), (100, 500),
                [0, 1, 0], [(12, 7, 12), (-50, 15, 350)],            # block number, height
                [1, 0, 1], (281.0, 12, 2810),                        # temperature
                [(-3, 8, 125), (200, 16, 32968)])                    # block: 8 bits ref -128; height: 16 bits ref -32768
    s2 = subset((99, 99), (None, None), (8848, 9248),
                [1, 0, 0], [(300.1, 12, 3001), (None, 15, None)],    # temperature, height
                [0, 1, 1], (98, 7, 98),                              # block number
                [(-1.5, 13, 4081), (-32768, 16, 0)])                 # temperature: 13 bits ref -4096
    links1 = {9: 0, 10: 2, 16: 1, 20: 0, 21: 2}
    links2 = {9: 1, 10: 2, 16: 0, 20: 1, 21: 2}
    run('reuse / other / recall, uncompressed, bitmaps differ', descriptors, [s1[0], s2[0]], [s1[1], s2[1]],
        False, [links1, links2])

    # compressed: the same bitmaps in all subsets
    s3 = subset((12, 12), (270.0, 2700), (None, None),
                [0, 1, 0], [(None, 7, None), (-400, 15, 0)],
                [1, 0, 1], (409.4, 12, 4094),
                [(-128, 8, 0), (0, 16, 32768)])
    run('reuse / other / recall, compressed', descriptors, [s1[0], s3[0]], [s1[1], s3[1]],
        True, [links1, links1])
    run('reuse / other / recall, compressed, one subset', descriptors, [s3[0]], [s3[1]], True, [links1])
    run('reuse / other / recall, uncompressed, one subset', descriptors, [s2[0]], [s2[1]], False, [links2])


def template_delayed_bits_and_qa():
    """Number of bits given by a delayed replication; 222000 with class 33 elements (links only)"""
    descriptors = B + [222000, 236000, 101000, 31001, 31031, 33007, 33007,
                       224000, 237000, 8023, 224255, 224255]
    # indexes: 0..2, 3 222000, 4 236000, 5 031001, 6..8 bits, 9, 10 033007, 11 224000, 12 237000, 13 008023, 14, 15
    s1 = ([1, 250.0, 0, 0, 0, 3, 1, 0, 0, 90, None, 0, 0, 9, 251.5, -400],
          [(7, 1), (12, 2500), (15, 400), (8, 3), (1, 1), (1, 0), (1, 0), (7, 90), (7, None),
           (6, 9), (12, 2515), (15, 0)])
    s2 = ([2, 260.0, 10, 0, 0, 3, 0, 0, 1, 80, 70, 0, 0, 9, 3, 261.0],
          [(7, 2), (12, 2600), (15, 410), (8, 3), (1, 0), (1, 0), (1, 1), (7, 80), (7, 70),
           (6, 9), (7, 3), (12, 2610)])
    links1 = {9: 1, 10: 2, 14: 1, 15: 2}
    links2 = {9: 0, 10: 1, 14: 0, 15: 1}
    run('delayed bits, QA info, uncompressed', descriptors, [s1[0], s2[0]], [s1[1], s2[1]], False, [links1, links2])
    s3 = ([3, None, 20, 0, 0, 3, 1, 0, 0, 90, 60, 0, 0, 9, None, 1000],
          [(7, 3), (12, None), (15, 420), (8, 3), (1, 1), (1, 0), (1, 0), (7, 90), (7, 60),
           (6, 9), (12, None), (15, 1400)])
    run('delayed bits, QA info, compressed', descriptors, [s1[0], s3[0], s1[0]], [s1[1], s3[1], s1[1]], True,
        [links1] * 3)


def template_not_for_reuse():
    """A bitmap that is not for reuse works for its own markers..."""
    descriptors = B + [224000, 101003, 31031, 8023, 224255]
    s1 = ([5, 300.0, 0, 0, 1, 1, 0, 2, 12], [(7, 5), (12, 3000), (15, 400), (1, 1), (1, 1), (1, 0), (6, 2), (15, 412)])
    s2 = ([6, 301.0, 1, 0, 1, 0, 1, 2, 302.5], [(7, 6), (12, 3010), (15, 401), (1, 1), (1, 0), (1, 1), (6, 2), (12, 3025)])
    run('not for reuse, uncompressed', descriptors, [s1[0], s2[0]], [s1[1], s2[1]], False, [{8: 2}, {8: 1}])
    run('not for reuse, compressed', descriptors, [s1[0], s1[0]], [s1[1], s1[1]], True, [{8: 2}, {8: 2}])


def errors():
    def whole(descriptors, subsets, compressed):
        results = []
        for label, encoder in ENCODERS:
            r = outcome(lambda: encoder.process(json.dumps(as_json(descriptors, subsets, compressed))))
            results.append(r if isinstance(r, str) else 'encoded')
        return results

    def expect(name, got, want):
        check(name, got == want, '\n     got      {!r}\n     expected {!r}'.format(got, want))

    for compressed in (False, True):
        kind = 'compressed' if compressed else 'uncompressed'
        # ... but cannot be recalled: only a bitmap for reuse is kept
        expect('237000 after a bitmap not for reuse, ' + kind,
               whole(B + [224000, 101003, 31031, 8023, 224255, 224000, 237000, 8023, 224255],
                     [[5, 300.0, 0, 0, 1, 1, 0, 2, 12, 0, 0, 2, 12]] * 2, compressed),
               ['raised PyBufrKitError: Error: No bitmap is defined for reuse'] * 2)
        expect('bitmap longer than the elements before it, ' + kind,
               whole(B + [224000, 236000, 101004, 31031, 8023, 224255],
                     [[5, 300.0, 0, 0, 0, 1, 1, 0, 1, 2, 12]] * 2, compressed),
               ['raised PyBufrKitError: Error: Back referenced descriptors not matching defined Bitmap'] * 2)
        expect('bitmap shorter than the elements before it takes the last ones, ' + kind,
               whole(B + [224000, 236000, 101002, 31031, 8023, 224255],
                     [[5, 300.0, 0, 0, 0, 1, 0, 2, 12]] * 2, compressed),
               ['encoded'] * 2)
        expect('more markers than zero bits, ' + kind,
               whole(B + [224000, 236000, 101003, 31031, 8023, 224255, 224255],
                     [[5, 300.0, 0, 0, 0, 1, 1, 0, 2, 12, 13]] * 2, compressed),
               ['raised StopIteration: '] * 2)

    # the decoder, on a stream whose bitmap does not fit
    bits = u(5, 7) + u(3000, 12) + u(400, 15) + '1101' + u(2, 6) + u(412, 15)
    bad = message(B + [224000, 236000, 101004, 31031, 8023, 224255], bits, 1, False)
    expect('decoder: bitmap longer than the elements before it',
           [outcome(lambda: d.process(bad) and 'decoded') for _, d in DECODERS],
           ['raised PyBufrKitError: Error: Back referenced descriptors not matching defined Bitmap'] * 2)


# --------------------------------------------------------------------------
# define_bitmap called directly
def direct():
    from pybufrkit.coder import CoderState
    from pybufrkit.descriptors import ElementDescriptor, OperatorDescriptor

    def element(id_):
        return ElementDescriptor(id_, 'E{}'.format(id_), 'Numeric', 0, 0, 8, 'Numeric', 0, 3)

    def expect(name, got, want):
        check(name, got == want, '\n     got      {!r}\n     expected {!r}'.format(got, want))

    elements = [element(1001), element(1002), element(1003)]
    described = elements + [OperatorDescriptor(222000)]

    # Encoder, uncompressed: the list holds the values of the whole subset; the bits are the
    # three values before idx_value
    state = CoderState(False, 2, [[7, 8, 9, 0, 1, 0, 1, 55, 66], [1, 2, 3, 0, 0, 0, 0, 5, 6]])
    state.switch_subset_context(1)
    state.decoded_descriptors.extend(described)
    state.back_reference_boundary = 3
    state.idx_value, state.n_031031 = 7, 3
    bitmap = Encoder().define_bitmap(state, True)
    expect('encoder, uncompressed, reuse: bitmap', (bitmap, state.bitmap, state.bitmap is bitmap),
           ([0, 0, 0], [0, 0, 0], True))
    expect('encoder, uncompressed, reuse: bitmapped', state.bitmapped_descriptors,
           [(0, elements[0]), (1, elements[1]), (2, elements[2])])
    state.switch_subset_context(0)
    state.decoded_descriptors.extend(described)
    state.back_reference_boundary = 3
    state.idx_value, state.n_031031 = 7, 3
    bitmap = Encoder().define_bitmap(state, False)
    expect('encoder, uncompressed, no reuse: bitmap', (bitmap, state.bitmap), ([1, 0, 1], None))
    expect('encoder, uncompressed, no reuse: bitmapped', state.bitmapped_descriptors, [(1, elements[1])])
    expect('encoder: next_bitmapped_descriptor', (state.next_bitmapped_descriptor(),
                                                  outcome(state.next_bitmapped_descriptor)),
           ((1, elements[1]), 'raised StopIteration: '))

    # Encoder, compressed: the bits are those of the first subset whatever the others say
    state = CoderState(True, 2, [[7, 8, 9, 0, 1, 1, 0, 55, 66], [1, 2, 3, 0, 0, 0, 1, 5, 6]])
    state.decoded_descriptors.extend(described)
    state.back_reference_boundary = 3
    state.idx_value, state.n_031031 = 7, 3
    bitmap = Encoder().define_bitmap(state, True)
    expect('encoder, compressed, reuse: bitmap', (bitmap, state.bitmap), ([1, 1, 0], [1, 1, 0]))
    expect('encoder, compressed: bitmapped', state.bitmapped_descriptors, [(2, elements[2])])
    state.idx_value, state.n_031031 = 6, 2
    state.bitmap = None
    expect('encoder, compressed, wrong length',
           (outcome(lambda: Encoder().define_bitmap(state, False)), state.bitmap),
           ('raised PyBufrKitError: Error: Back referenced descriptors not matching defined Bitmap', None))
    expect('encoder, compressed, wrong length, reuse: kept all the same',
           (outcome(lambda: Encoder().define_bitmap(state, True)), state.bitmap),
           ('raised PyBufrKitError: Error: Back referenced descriptors not matching defined Bitmap', [1, 1]))

    # Decoder: the bits are the last values
    state = CoderState(False, 2)
    state.switch_subset_context(1)
    state.decoded_descriptors.extend(described)
    state.decoded_values.extend([7, 8, 9, 0, 0, 1, 1])
    state.back_reference_boundary = 3
    state.n_031031 = 3
    bitmap = Decoder().define_bitmap(state, True)
    expect('decoder, uncompressed, reuse: bitmap', (bitmap, state.bitmap, state.bitmap is bitmap),
           ([0, 1, 1], [0, 1, 1], True))
    expect('decoder, uncompressed: bitmapped', state.bitmapped_descriptors, [(0, elements[0])])
    state = CoderState(True, 2)
    state.decoded_descriptors.extend(described)
    state.decoded_values_all_subsets[0].extend([7, 8, 9, 0, 1, 0, 1])
    state.decoded_values_all_subsets[1].extend([7, 8, 9, 0, 0, 0, 0])
    state.back_reference_boundary = 3
    state.n_031031 = 3
    bitmap = Decoder().define_bitmap(state, False)
    expect('decoder, compressed, no reuse: bitmap', (bitmap, state.bitmap), ([1, 0, 1], None))
    expect('decoder, compressed: bitmapped', state.bitmapped_descriptors, [(1, elements[1])])
    state = CoderState(True, 0)
    expect('compressed, no subsets', [outcome(lambda: Encoder().define_bitmap(state, False)),
                                     outcome(lambda: Decoder().define_bitmap(state, False))],
           ['raised IndexError: list index out of range'] * 2)

    # the compiler only records the call
    from pybufrkit.templatecompiler import TemplateCompiler
    expect('TemplateCompiler.define_bitmap is its own', 'define_bitmap' in vars(TemplateCompiler), True)


# --------------------------------------------------------------------------
# working copy against HEAD on random states
def against_head():
    import random
    import subprocess
    import types

    def load(path, name, replace=()):
        source = subprocess.check_output(['git', 'show', 'HEAD:' + path]).decode()
        for old, new in replace:
            assert old in source
            source = source.replace(old, new)
        module = types.ModuleType(name)
        module.__file__ = name + '.py'
        sys.modules[name] = module
        exec(compile(source, name + '.py', 'exec'), module.__dict__)
        return module

    load('pybufrkit/coder.py', 'head_coder')
    head_encoder = load('pybufrkit/encoder.py', 'head_encoder',
                        [('from pybufrkit.coder import', 'from head_coder import')])
    head_decoder = load('pybufrkit/decoder.py', 'head_decoder',
                        [('from pybufrkit.coder import', 'from head_coder import')])

    from pybufrkit.coder import CoderState
    from pybufrkit.descriptors import ElementDescriptor, OperatorDescriptor, AssociatedDescriptor

    def element(id_):
        return ElementDescriptor(id_, 'E{}'.format(id_), 'Numeric', 0, 0, 8, 'Numeric', 0, 3)

    pool = [element(1001 + i) for i in range(6)] + [OperatorDescriptor(222000), AssociatedDescriptor(1001, 3)]
    rnd = random.Random(8)

    def make_state(spec):
        compressed, n_subsets, values, descriptors, boundary, idx_value, n_bits, idx_subset, back = spec
        state = CoderState(compressed, n_subsets, [list(v) for v in values])
        if not compressed and n_subsets:
            state.switch_subset_context(idx_subset)
        state.decoded_descriptors.extend(descriptors)
        state.back_reference_boundary = boundary
        state.idx_value = idx_value
        state.n_031031 = n_bits
        if back is not None:
            state.back_referenced_descriptors = list(back)
        return state

    def observe(coder, spec, reuse):
        state = make_state(spec)
        try:
            result = coder.define_bitmap(state, reuse)
            shared = result is state.bitmap
        except Exception as e:
            result, shared = 'raised {}: {}'.format(type(e).__name__, e), None
        consumed = []
        if state.next_bitmapped_descriptor is not None:
            while True:
                try:
                    consumed.append(state.next_bitmapped_descriptor())
                except StopIteration:
                    break
        return (result, shared, state.bitmap, state.bitmapped_descriptors, consumed,
                state.back_referenced_descriptors, state.decoded_values_all_subsets, state.idx_value,
                state.n_031031, state.bitmap_links_all_subsets)

    n = different = 0
    for _ in range(4000):
        compressed = rnd.random() < 0.5
        n_subsets = rnd.choice([0, 1, 1, 2, 3])
        n_values = rnd.randrange(0, 12)
        values = [[rnd.choice([0, 0, 1, 1, None, 7]) for _ in range(n_values)] for _ in range(n_subsets)]
        descriptors = [rnd.choice(pool) for _ in range(rnd.randrange(0, 10))]
        boundary = rnd.randrange(0, len(descriptors) + 2)
        idx_value = rnd.randrange(0, n_values + 2)
        n_bits = rnd.randrange(0, 6)
        idx_subset = rnd.randrange(0, n_subsets) if n_subsets else 0
        back = None if rnd.random() < 0.7 else [(i, d) for i, d in enumerate(descriptors[:rnd.randrange(0, 4)])]
        spec = (compressed, n_subsets, values, descriptors, boundary, idx_value, n_bits, idx_subset, back)
        for reuse in (False, True):
            for ours, theirs in ((Encoder(), head_encoder.Encoder()), (Decoder(), head_decoder.Decoder())):
                a, b = observe(ours, spec, reuse), observe(theirs, spec, reuse)
                n += 1
                if a != b:
                    different += 1
                    if different < 4:
                        print('     ', type(ours).__name__, spec, reuse, a, b, sep='\n        ')
    check('define_bitmap of working copy and HEAD agree on {} random states'.format(n), different == 0)

    # whole messages through both
    import glob
    for path in sorted(glob.glob('tests/data/*.json')):
        with open(path) as ins:
            s = ins.read()
        a = Encoder().process(s).serialized_bytes
        b = head_encoder.Encoder().process(s).serialized_bytes
        da = Decoder().process(a).template_data.value
        db = head_decoder.Decoder().process(a).template_data.value
        check('sample {}: same bytes, same decoded values and links'.format(os.path.basename(path)),
              a == b and da.decoded_values_all_subsets == db.decoded_values_all_subsets and
              da.bitmap_links_all_subsets == db.bitmap_links_all_subsets)


if __name__ == '__main__':
    template_reuse_then_other_then_recall()
    template_delayed_bits_and_qa()
    template_not_for_reuse()
    errors()
    direct()
    against_head()
    print('{} failure(s)'.format(len(FAILURES)))
    sys.exit(1 if FAILURES else 0)
