import os, sys; sys.path.insert(0, os.getcwd())
"""
Differential demonstration for refactor 7 (table definition path).

Table definition messages (data category 11) are built by hand with the encoder,
in the supported (NCEP) layout and in every way of not being in that layout that
the processor distinguishes. What the processor must return, which error it must
raise, what generate_bufr_message must deliver, warn about and register is written
down here by hand (it is not obtained from the code under test).

Exits 0 when every observation is as expected, 1 otherwise.
"""
import io
import logging
import contextlib

import pybufrkit.decoder as decoder_module
import pybufrkit.tables as tables_module
from pybufrkit.errors import PyBufrKitError, BitReadError, UnknownDescriptor
from pybufrkit.decoder import Decoder, generate_bufr_message
from pybufrkit.encoder import Encoder
from pybufrkit.dataprocessor import BufrTableDefinitionProcessor
from pybufrkit.tables import TableGroupCacheManager, TableGroupCache

FAILURES = []
N_CHECKS = [0]


def check(label, got, expected):
    N_CHECKS[0] += 1
    if got != expected:
        FAILURES.append(label)
        print('FAIL {}\n   got      {!r}\n   expected {!r}'.format(label, got, expected))


def reset_tables():
    """Forget every definition registered so far (the cache is process wide)"""
    TableGroupCacheManager._TABLE_GROUP_CACHE = TableGroupCache()


def registered():
    cache = TableGroupCacheManager._TABLE_GROUP_CACHE
    return dict(cache.extra_b_entries), dict(cache.extra_d_entries)


class Collector(logging.Handler):
    def __init__(self):
        logging.Handler.__init__(self, level=logging.WARNING)
        self.messages = []

    def emit(self, record):
        self.messages.append(record.getMessage())


COLLECTOR = Collector()
decoder_module.log.addHandler(COLLECTOR)
decoder_module.log.propagate = False


def build(descriptors, values, n_subsets=1, category=11, compressed=False):
    """Encode one edition 3 message of the given template and values (one list per subset)"""
    flat_json = [
        [b'BUFR', 0, 3],
        [18, 0, 0, 0, 0, False, '0000000', category, 1, 13, 0, 0, 0, 0, 0, 0, 0],
        [0, '00000000', n_subsets, True, compressed, '000000', descriptors],
        [0, '00000000', values],
        [b'7777'],
    ]
    return Encoder().process(flat_json).serialized_bytes


# ---------------------------------------------------------------------------
# The pieces of a definition message and, independently, what they define
# ---------------------------------------------------------------------------
def a_values(mnemonic):
    return [b'243', (mnemonic + ' TABLE A ENTRY').encode(), b'LINE 2']


def b_values(fxy, name1, name2, units, scale_sign, scale, ref_sign, ref, width):
    return [fxy[0:1].encode(), fxy[1:3].encode(), fxy[3:6].encode(),
            name1.encode(), name2.encode(), units.encode(),
            scale_sign.encode(), scale.encode(), ref_sign.encode(), ref.encode(), width.encode()]


def d_values(fxy, name, members):
    return ([fxy[0:1].encode(), fxy[1:3].encode(), fxy[3:6].encode(), name.encode(), len(members)] +
            [m.encode() for m in members])


B1 = b_values('063200', 'ELMA     FIRST LINE', 'SECOND', 'NUMERIC', '+', '0', '+', '0', '8')
B1_ENTRY = {'063200': ['ELMA     FIRST LINESECOND', 'NUMERIC', 0, 0, 8, '', 0, 0]}
B2 = b_values('063201', ' ELMB', '', ' K ', '-', ' 2', '-', '1000', ' 16')
# the names are stripped on the right only, the units on both sides
B2_ENTRY = {'063201': [' ELMB', 'K', -2, -1000, 16, '', 0, 0]}
B3 = b_values('063200', 'ELMA WIDE', '', 'NUMERIC', '+', '0', '+', '0', '16')
B3_ENTRY = {'063200': ['ELMA WIDE', 'NUMERIC', 0, 0, 16, '', 0, 0]}
D1 = d_values('363200', 'SEQA', ['063200', '063201'])
D1_ENTRY = {'363200': ['SEQA', ['063200', '063201']]}
D2 = d_values('363201', ' SEQB  ', [])
D2_ENTRY = {'363201': [' SEQB', []]}

DELAYED = [103000, 31001, 1, 2, 3, 101000, 31001, 300004, 105000, 31001, 300003, 205064, 101000, 31001, 30]


def fixed(n_a, n_b, n_d):
    return [103000 + n_a, 1, 2, 3, 101000 + n_b, 300004, 105000 + n_d, 300003, 205064, 101000, 31001, 30]


def merged(*entries):
    ret = {}
    for entry in entries:
        ret.update(entry)
    return ret


# name -> (message, what process() returns)
SUPPORTED = {
    'delayed 1/2/1': (
        build(DELAYED, [[1] + a_values('AAAA') + [2] + B1 + B2 + [1] + D1]),
        [[], merged(B1_ENTRY, B2_ENTRY), D1_ENTRY]),
    'delayed 0/0/0': (
        build(DELAYED, [[0, 0, 0]]),
        [[], {}, {}]),
    'delayed 2/1/2': (
        build(DELAYED, [[2] + a_values('AAAA') + a_values('BBBB') + [1] + B2 + [2] + D1 + D2]),
        [[], B2_ENTRY, merged(D1_ENTRY, D2_ENTRY)]),
    'delayed, same key twice (the later entry wins)': (
        build(DELAYED, [[0, 2] + B1 + B3 + [0]]),
        [[], B3_ENTRY, {}]),
    'fixed 2/1/1': (
        build(fixed(2, 1, 1), [a_values('AAAA') + a_values('BBBB') + B1 + D1]),
        [[], B1_ENTRY, D1_ENTRY]),
    'fixed 1/2/2': (
        build(fixed(1, 2, 2), [a_values('AAAA') + B1 + B2 + D2 + D1]),
        [[], merged(B1_ENTRY, B2_ENTRY), merged(D1_ENTRY, D2_ENTRY)]),
    'A fixed, B delayed, D fixed': (
        build([103001, 1, 2, 3, 101000, 31001, 300004, 105001, 300003, 205064, 101000, 31001, 30],
              [a_values('AAAA') + [1] + B2 + D1]),
        [[], B2_ENTRY, D1_ENTRY]),
    'A delayed, B fixed, D delayed': (
        build([103000, 31001, 1, 2, 3, 101002, 300004, 105000, 31001, 300003, 205064, 101000, 31001, 30],
              [[1] + a_values('AAAA') + B1 + B2 + [2] + D2 + D1]),
        [[], merged(B1_ENTRY, B2_ENTRY), merged(D1_ENTRY, D2_ENTRY)]),
    'compressed, one subset': (
        build(DELAYED, [[1] + a_values('AAAA') + [1] + B1 + [1] + D1], compressed=True),
        [[], B1_ENTRY, D1_ENTRY]),
}

PREFIX = 'Not a supported BUFR table definition message: '
A_PART, B_PART, D_PART = DELAYED[:5], DELAYED[5:8], DELAYED[8:]

# name -> (message, the message of the library error that process() raises)
UNSUPPORTED = {
    'two subsets': (
        build(DELAYED, [[0, 0, 0], [0, 0, 0]], n_subsets=2),
        PREFIX + 'Expect only one subset for defining BUFR tables, got 2'),
    'two nodes': (
        build(A_PART + B_PART, [[0, 0]]),
        PREFIX + 'Expect 3 sections in template data for defining BUFR tables'),
    'four nodes': (
        build(DELAYED + [1001], [[0, 0, 0, 5]]),
        PREFIX + 'Expect 3 sections in template data for defining BUFR tables'),
    'first node is an element': (
        build([1001] + B_PART + D_PART, [[5, 0, 0]]),
        PREFIX + 'Expect table entries to be replicated'),
    'second node is an element': (
        build(A_PART + [1001] + D_PART, [[0, 5, 0]]),
        PREFIX + 'Expect table entries to be replicated'),
    'third node is a sequence': (
        build(A_PART + B_PART + [300003], [[0, 0, b'0', b'01', b'001']]),
        PREFIX + 'Expect table entries to be replicated'),
    'members of A (delayed)': (
        build([102000, 31001, 1, 2] + B_PART + D_PART, [[0, 0, 0]]),
        PREFIX + 'Unexpected members of Table A entries'),
    'members of A (fixed)': (
        build([103001, 1, 2, 4] + B_PART + D_PART, [[b'243', b'X', b'Y', 0, 0]]),
        PREFIX + 'Unexpected members of Table A entries'),
    'members of B (delayed)': (
        build(A_PART + [101000, 31001, 300003] + D_PART, [[0, 0, 0]]),
        PREFIX + 'Unexpected members of Table B entries'),
    'members of B (fixed)': (
        build(A_PART + [101001, 300003] + D_PART, [[0, b'0', b'01', b'001', 0]]),
        PREFIX + 'Unexpected members of Table B entries'),
    'members of D (delayed)': (
        build(A_PART + B_PART + [104000, 31001, 300003, 205064], [[0, 0, 0]]),
        PREFIX + 'Unexpected members of Table D entries'),
    'members of D (fixed)': (
        build(A_PART + B_PART + [101001, 300004], [[0, 0] + B1]),
        PREFIX + 'Unexpected members of Table D entries'),
    # what is wrong first is what is reported
    'A not replicated and members of B': (
        build([1001, 101000, 31001, 300003] + D_PART, [[5, 0, 0]]),
        PREFIX + 'Expect table entries to be replicated'),
    'members of A and members of D': (
        build([102000, 31001, 1, 2] + B_PART + [101000, 31001, 300003], [[0, 0, 0]]),
        PREFIX + 'Unexpected members of Table A entries'),
}

# Entries in the supported layout whose texts cannot be taken as what they stand for:
# the error is not a library error, it is met where the text is converted
B_BAD_SCALE = b_values('063202', 'X', '', 'K', '+', 'x', '+', '0', '8')
B_BAD_WIDTH = b_values('063202', 'X', '', 'K', '+', '0', '+', '0', '')
B_NOT_TEXT = b_values('063202', 'X', '', 'K', '+', '0', '+', '0', '8')
B_NOT_TEXT[3] = b'\xff\xfe' + b' ' * 30
BROKEN = {
    'scale is not a number': (build(DELAYED, [[0, 1] + B_BAD_SCALE + [0]]), ValueError),
    'width is empty (fixed)': (build(fixed(1, 1, 1), [a_values('AAAA') + B_BAD_WIDTH + D1]), ValueError),
    'name is not utf-8': (build(DELAYED, [[0, 2] + B1 + B_NOT_TEXT + [0]]), UnicodeDecodeError),
}


def outcome(func, *args, **kwargs):
    try:
        return 'returned', func(*args, **kwargs)
    except Exception as e:
        return type(e), str(e)


# ---------------------------------------------------------------------------
# 1. The processor on its own
# ---------------------------------------------------------------------------
reset_tables()
plain_decoder = Decoder()
for name, (message, expected) in sorted(SUPPORTED.items()):
    for wire in (True, False):
        bufr_message = plain_decoder.process(message, wire_template_data=wire)
        check('process: {} (wired by the decoder: {})'.format(name, wire),
              outcome(BufrTableDefinitionProcessor().process, bufr_message), ('returned', expected))
        # a processor can be used again, and so can a message
        processor = BufrTableDefinitionProcessor()
        check('process twice: {}'.format(name),
              [processor.process(bufr_message), processor.process(bufr_message)], [expected, expected])

for name, (message, expected) in sorted(UNSUPPORTED.items()):
    bufr_message = plain_decoder.process(message, wire_template_data=False)
    check('process: {}'.format(name),
          outcome(BufrTableDefinitionProcessor().process, bufr_message), (PyBufrKitError, 'Error: ' + expected))

for name, (message, expected) in sorted(BROKEN.items()):
    bufr_message = plain_decoder.process(message, wire_template_data=False)
    check('process: {}'.format(name), outcome(BufrTableDefinitionProcessor().process, bufr_message)[0], expected)

# A definition message without any subset (the sample file has one)
with open('tests/data/prepbufr.bufr', 'rb') as ins:
    prepbufr = ins.read()
with contextlib.redirect_stderr(io.StringIO()):
    sample = list(generate_bufr_message(Decoder(), prepbufr[:5048]))
reset_tables()
check('sample: categories and subsets',
      [(m.data_category.value, m.n_subsets.value) for m in sample], [(11, 1), (11, 0)])
check('process: no subset', outcome(BufrTableDefinitionProcessor().process, sample[1]),
      (PyBufrKitError, 'Error: ' + PREFIX + 'Expect only one subset for defining BUFR tables, got 0'))
got = BufrTableDefinitionProcessor().process(sample[0])
check('process: sample, sizes', [len(x) for x in got], [0, 35, 9])
check('process: sample, a Table B entry', got[1]['005002'],
      ['CLAT     TABLE B ENTRY - LATITUDE', 'DEG N', 2, -9000, 15, '', 0, 0])
check('process: sample, a Table D entry', got[2]['362001'],
      ['HEADR    TABLE D ENTRY - PROFILE COORDINATES', ['004194', '001205', '005002', '006002', '010194']])

# ---------------------------------------------------------------------------
# 2. Streams: what is delivered, warned about and registered
# ---------------------------------------------------------------------------
ORDINARY = build([1001, 1002], [[7, 42]], category=0)


def run_stream(stream, decoder, **kwargs):
    """-> (outcome, values of the messages delivered, warnings, entries registered)"""
    reset_tables()
    del COLLECTOR.messages[:]
    delivered = []
    stderr = io.StringIO()
    with contextlib.redirect_stderr(stderr):
        try:
            for bufr_message in generate_bufr_message(decoder, stream, **kwargs):
                delivered.append(bufr_message.template_data.value.decoded_values_all_subsets
                                 if '_template_data' in bufr_message.__dict__ else None)
            how = 'exhausted'
        except Exception as e:
            how = type(e)
    return how, delivered, list(COLLECTOR.messages), registered(), stderr.getvalue()


def values_of(message):
    return plain_decoder.process(message).template_data.value.decoded_values_all_subsets


def decoders():
    return [('interpreted', Decoder()), ('compiled', Decoder(compiled_template_cache_max=10))]


for name, (message, expected) in sorted(SUPPORTED.items()):
    reset_tables()
    own_values = values_of(message)
    for label, decoder in decoders():
        for coe in (False, True):
            check('stream: {} ({}, continue_on_error={})'.format(name, label, coe),
                  run_stream(ORDINARY + message + ORDINARY, decoder, continue_on_error=coe),
                  ('exhausted', [[[7, 42]], own_values, [[7, 42]]], [], (expected[1], expected[2]), ''))

for name, (message, expected) in sorted(UNSUPPORTED.items()):
    reset_tables()
    own_values = values_of(message)
    for label, decoder in decoders():
        for coe in (False, True):
            check('stream: {} ({}, continue_on_error={})'.format(name, label, coe),
                  run_stream(ORDINARY + message + ORDINARY, decoder, continue_on_error=coe),
                  ('exhausted', [[[7, 42]], own_values, [[7, 42]]],
                   ['No table definitions taken from the message: Error: ' + expected], ({}, {}), ''))

# Not a library error: it ends the stream whatever continue_on_error says, after the messages before it
for name, (message, expected) in sorted(BROKEN.items()):
    for label, decoder in decoders():
        for coe in (False, True):
            check('stream: {} ({}, continue_on_error={})'.format(name, label, coe),
                  run_stream(ORDINARY + message + ORDINARY, decoder, continue_on_error=coe),
                  (expected, [[[7, 42]]], [], ({}, {}), ''))

# Info only scanning never looks into the data: nothing is registered, nothing is warned about
everything = b''.join(message for message, _ in list(SUPPORTED.values()) + list(UNSUPPORTED.values()) +
                      list(BROKEN.values()))
n_messages = len(SUPPORTED) + len(UNSUPPORTED) + len(BROKEN)
check('stream: info only',
      run_stream(everything, Decoder(), info_only=True),
      ('exhausted', [None] * n_messages, [], ({}, {}), ''))

# ---------------------------------------------------------------------------
# 3. The definitions govern the messages that follow (and only those)
# ---------------------------------------------------------------------------
DEFINE_8_BITS = SUPPORTED['delayed 1/2/1'][0]           # 063200 of 8 bits, 063201, 363200
DEFINE_16_BITS = build(DELAYED, [[0, 1] + B3 + [0]])      # 063200 of 16 bits

reset_tables()
TableGroupCacheManager.add_extra_entries(merged(B1_ENTRY, B2_ENTRY), D1_ENTRY)
USER_8_BITS = build([63200, 63200], [[200, 100]], category=0)
USER_SEQUENCE = build([363200], [[5, 500.0]], category=0)
reset_tables()
TableGroupCacheManager.add_extra_entries(B3_ENTRY, {})
USER_16_BITS = build([63200, 63200], [[200, 100]], category=0)
reset_tables()
check('users differ in width', (len(USER_8_BITS) % 2, len(USER_16_BITS) - len(USER_8_BITS)), (0, 2))

ALL_ENTRIES = (merged(B1_ENTRY, B2_ENTRY), D1_ENTRY)
REDEFINED = (merged(B3_ENTRY, B2_ENTRY), D1_ENTRY)

for label, decoder in decoders():
    # before its definition the element is unknown
    how, delivered, warnings, entries, stderr = run_stream(USER_8_BITS + DEFINE_8_BITS, decoder)
    check('use before definition ({})'.format(label),
          (issubclass(how, PyBufrKitError) if how != 'exhausted' else how, delivered, warnings, entries, stderr),
          (True, [], [], ({}, {}), ''))

for label, decoder in decoders():
    check('use before definition, continue_on_error ({})'.format(label),
          run_stream(USER_8_BITS + DEFINE_8_BITS + USER_8_BITS, decoder, continue_on_error=True)[:4],
          ('exhausted', [values_of(DEFINE_8_BITS), [[200, 100]]], [], ALL_ENTRIES))

for label, decoder in decoders():
    check('definition, use, redefinition, use ({})'.format(label),
          run_stream(DEFINE_8_BITS + USER_8_BITS + USER_SEQUENCE + DEFINE_16_BITS + USER_16_BITS + USER_SEQUENCE[:-1],
                     decoder, continue_on_error=True)[:4],
          ('exhausted',
           [values_of(DEFINE_8_BITS), [[200, 100]], [[5, 500.0]], values_of(DEFINE_16_BITS), [[200, 100]]],
           [], REDEFINED))

for label, decoder in decoders():
    # The templates compiled before the redefinition are not used after it: the same
    # descriptor list is read with the new width
    check('redefinition reaches compiled templates ({})'.format(label),
          run_stream(DEFINE_8_BITS + USER_8_BITS + DEFINE_16_BITS + USER_16_BITS, decoder)[:4],
          ('exhausted', [values_of(DEFINE_8_BITS), [[200, 100]], values_of(DEFINE_16_BITS), [[200, 100]]],
           [], REDEFINED))
    if decoder.compiled_template_manager is not None:
        check('compiled templates after the stream', len(decoder.compiled_template_manager.cache), 1)

for label, decoder in decoders():
    # An unsupported message between them changes nothing and does not empty the cache of templates
    how, delivered, warnings, entries, _ = run_stream(
        DEFINE_8_BITS + USER_8_BITS + UNSUPPORTED['two nodes'][0] + USER_8_BITS, decoder)
    check('unsupported message in between ({})'.format(label),
          (how, delivered[1], delivered[3], warnings, entries),
          ('exhausted', [[200, 100]], [[200, 100]],
           ['No table definitions taken from the message: Error: ' + UNSUPPORTED['two nodes'][1]], ALL_ENTRIES))
    if decoder.compiled_template_manager is not None:
        check('compiled templates kept', len(decoder.compiled_template_manager.cache), 2)

for label, decoder in decoders():
    # A definition message that the filter rejects still defines
    check('filtered definition message ({})'.format(label),
          run_stream(DEFINE_8_BITS + USER_8_BITS + UNSUPPORTED['four nodes'][0], decoder,
                     filter_expr='${%data_category} == 0')[:4],
          ('exhausted', [[[200, 100]]],
           ['No table definitions taken from the message: Error: ' + UNSUPPORTED['four nodes'][1]], ALL_ENTRIES))

# An object that only looks like a decoder (no compiled_template_manager attribute)
class Wrapped(object):
    def __init__(self):
        self.inner = Decoder()

    def process(self, *args, **kwargs):
        return self.inner.process(*args, **kwargs)


check('decoder without the attribute',
      run_stream(DEFINE_8_BITS + USER_8_BITS, Wrapped())[:4],
      ('exhausted', [values_of(DEFINE_8_BITS), [[200, 100]]], [], ALL_ENTRIES))

# ---------------------------------------------------------------------------
# 4. Damage to a definition message is damage like any other (the property)
# ---------------------------------------------------------------------------
reset_tables()
for n in range(len(DEFINE_8_BITS)):
    got = outcome(Decoder().process, DEFINE_8_BITS[:n])[0]
    expected = PyBufrKitError if n < 4 else BitReadError
    if got is not expected:
        check('truncation at {}'.format(n), got, expected)
N_CHECKS[0] += 1

damaged_stop = DEFINE_8_BITS[:-1] + b'8'
for label, decoder in decoders():
    check('definition with damaged stop signature is skipped and defines nothing ({})'.format(label),
          run_stream(ORDINARY + damaged_stop + USER_8_BITS + ORDINARY, decoder, continue_on_error=True)[:4],
          ('exhausted', [[[7, 42]], [[7, 42]]], [], ({}, {})))
    how, delivered, warnings, entries, _ = run_stream(ORDINARY + damaged_stop + ORDINARY, decoder)
    check('definition with damaged stop signature ends the stream ({})'.format(label),
          (how, delivered, warnings, entries), (PyBufrKitError, [[[7, 42]]], [], ({}, {})))

reset_tables()
print('{} checks, {} failures'.format(N_CHECKS[0], len(FAILURES)))
sys.exit(1 if FAILURES else 0)
