import os, sys; sys.path.insert(0, os.getcwd())
"""
Differential demonstration for refactor 5 (lookup of tables B, C, R, D as a template method).

Part A calls lookup() of every table class directly, with every kind of ID the public method
accepts or rejects, and compares with expectations that are computed without the library:
the JSON table files read here, a ten line model of the B/C/R/D rules, literal exception types.

Part B decodes a pool of messages that need six different table groups in seeded random
interleavings (with failing decodes in between, table group cache limits 1, 2 and 50, compiled
template caches None, 0, 1, 2, 100) and compares every rendering with the one obtained by
decoding that message alone in a fresh process.

Exits 0 when everything agrees (both on the unpatched and on the patched tree).
"""
import json
import random
import hashlib
import subprocess
import logging
from fractions import Fraction

logging.disable(logging.WARNING)

import pybufrkit
assert os.path.dirname(os.path.abspath(pybufrkit.__file__)) == os.path.join(os.getcwd(), 'pybufrkit'), pybufrkit.__file__

from pybufrkit import tables
from pybufrkit.tables import (TableGroupKey, TableGroupCacheManager, TableA, TableB, TableC, TableD, TableR,
                              BufrTableGroup)
from pybufrkit.constants import DEFAULT_TABLES_DIR
from pybufrkit.descriptors import (ElementDescriptor, OperatorDescriptor, SequenceDescriptor,
                                   FixedReplicationDescriptor, DelayedReplicationDescriptor,
                                   UndefinedElementDescriptor, UndefinedSequenceDescriptor)
from pybufrkit.decoder import Decoder
from pybufrkit.encoder import Encoder
from pybufrkit.utils import JSON_DUMPS_KWARGS
from pybufrkit.renderer import FlatTextRenderer, NestedTextRenderer, FlatJsonRenderer, NestedJsonRenderer

DATA = os.path.join('tests', 'data')
N_CHECKS = [0]


def check(cond, *what):
    N_CHECKS[0] += 1
    if not cond:
        print('MISMATCH:', *what)
        sys.exit(1)


def raises(exc_type, func, *args):
    try:
        func(*args)
    except Exception as e:
        check(type(e) is exc_type, 'expected', exc_type.__name__, 'got', type(e).__name__, e, args)
    else:
        check(False, 'expected', exc_type.__name__, 'but no exception', args)


# ---------------------------------------------------------------------------------------------
# Part A: the lookups, one table class at a time
def merged_json(key, fname):
    merged = {}
    dirs = [os.path.join(key.tables_root_dir, *key.wmo_tables_sn)]
    if key.local_tables_sn:
        dirs.append(os.path.join(key.tables_root_dir, *key.local_tables_sn))
    for d in dirs:
        with open(os.path.join(d, fname)) as ins:
            merged.update(json.load(ins))
    return merged


def flat_ids(members):
    """The tree of member descriptors turned back into the flat list of IDs it was built from"""
    ret = []
    for m in members:
        ret.append(m.id)
        if isinstance(m, DelayedReplicationDescriptor):
            ret.append(m.factor.id)
        if isinstance(m, (FixedReplicationDescriptor, DelayedReplicationDescriptor)):
            ret.extend(flat_ids(m.members))
    return ret


# IDs that are not Integral go through int(); the pairs are (what is passed, what int() makes of it)
def spellings(id_):
    return [(id_, id_), (str(id_), id_), ('%06d' % id_, id_), (' %d\n' % id_, id_), (float(id_) + (0.75 if id_ >= 0 else -0.75), id_),
            (Fraction(id_), id_), (('%06d' % id_).encode(), id_)]


BAD_IDS = [('abc', ValueError), ('', ValueError), ('1.5', ValueError), (None, TypeError), ([], TypeError),
           ((1001,), TypeError), (float('nan'), ValueError), (float('inf'), OverflowError), (1j, TypeError)]


def part_a(key):
    TableGroupCacheManager.invalidate()
    group = TableGroupCacheManager.get_table_group_by_key(key)
    check(type(group) is BufrTableGroup and group.key == key, 'group', key)
    a, b, c, d, r = group.A, group.B, group.C, group.D, group.R
    check([type(t) for t in (a, b, c, d, r)] == [TableA, TableB, TableC, TableD, TableR], 'table types')
    check([t.type for t in (a, b, c, d, r)] == ['A', 'B', 'C', 'D', 'R'], 'type letters')
    check(all(isinstance(t, tables.BaseTable) for t in (a, b, c, d, r)), 'BaseTable')

    # Table A has never had a lookup
    check(not hasattr(a, 'lookup') and not hasattr(TableA, 'lookup'), 'TableA.lookup')

    # ---- B: every entry of the files, under every spelling of its ID
    json_b = merged_json(key, 'TableB.json')
    check(len(b.descriptors) == len(json_b), 'number of B entries')
    for n, (id_string, fields) in enumerate(sorted(json_b.items())):
        id_ = int(id_string)
        e = b.lookup(id_)
        check(type(e) is ElementDescriptor, 'B type', id_)
        check([e.id, e.name, e.unit, e.scale, e.refval, e.nbits] == [id_] + list(fields[:5]), 'B fields', id_)
        check(b.lookup(id_) is e and b.descriptors[id_] is e, 'B same object', id_)
        if n % 37 == 0:
            for given, as_int in spellings(id_):
                check(b.lookup(given) is e and group.lookup(given) is e, 'B spelling', repr(given))
    # bool is Integral: it is not converted and finds the entry of the equal integer
    check(b.lookup(True) is b.lookup(1) and b.lookup(False).id is False, 'B bool')

    # ---- B: IDs that are not in the files give a new undefined descriptor each time
    for missing in (0, 63255, 99, -5, 100000, 222000, 301001, 10 ** 12):
        check(str(missing) not in json_b and '%06d' % missing not in json_b, 'really missing', missing)
        for given, as_int in spellings(missing):
            u1, u2 = b.lookup(given), b.lookup(given)
            check(type(u1) is UndefinedElementDescriptor and u1.id == as_int and type(u1.id) is int, 'B undefined', given)
            check(u1 is not u2 and as_int not in b.descriptors, 'B undefined is not kept', given)

    # ---- D: every entry of the files
    json_d = merged_json(key, 'TableD.json')
    check(len(d.descriptors) == len(json_d), 'number of D entries')
    for n, (id_string, (name, member_ids)) in enumerate(sorted(json_d.items())):
        id_ = int(id_string)
        s = d.lookup(id_)
        check(type(s) is SequenceDescriptor and s.id == id_ and s.name == name, 'D entry', id_)
        check(flat_ids(s.members) == [int(x) for x in member_ids], 'D members', id_)
        check(d.lookup(id_) is s, 'D same object', id_)
        # the members were obtained through the lookups of B, C, D at loading time: same objects
        for m in s.members:
            if type(m) in (ElementDescriptor, SequenceDescriptor, OperatorDescriptor):
                check(group.lookup(m.id) is m, 'D member is the shared object', id_, m.id)
        if n % 23 == 0:
            for given, as_int in spellings(id_):
                check(d.lookup(given) is s and group.lookup(given) is s, 'D spelling', repr(given))
    for missing in (300000, 399999, 1001, 0, -1, 10 ** 12):
        check('%06d' % missing not in json_d, 'really missing', missing)
        for given, as_int in spellings(missing):
            u1, u2 = d.lookup(given), d.lookup(given)
            check(type(u1) is UndefinedSequenceDescriptor and u1.id == as_int and type(u1.id) is int, 'D undefined', given)
            check(u1 is not u2 and as_int not in d.descriptors, 'D undefined is not kept', given)
    check(d.lookup(True).id is True and type(d.lookup(True)) is UndefinedSequenceDescriptor, 'D bool')

    # ---- C: created on first use, then the same object
    check(c._cache == {} or all(type(k) is int for k in c._cache), 'C cache keys')
    for id_ in (201000, 201132, 204008, 222000, 237255, 299999, 1001, 0):
        for given, as_int in spellings(id_):
            o = c.lookup(given)
            check(type(o) is OperatorDescriptor and o.id == as_int, 'C', given)
            check(o.operator_code == as_int // 1000 and o.operand_value == as_int % 1000, 'C code and operand', given)
            check(c.lookup(as_int) is o and c._cache[as_int] is o, 'C same object', given)
    check(group.lookup(222000) is c.lookup('222000'), 'C through the group')

    # ---- R: fixed or delayed by the last three digits, never the same object twice
    for id_ in (101000, 101005, 112000, 104002, 199255, 100000, 100001, 1000, 7):
        for given, as_int in spellings(id_):
            r1, r2 = r.lookup(given), r.lookup(given)
            expected = DelayedReplicationDescriptor if as_int % 1000 == 0 else FixedReplicationDescriptor
            check(type(r1) is expected and r1.id == as_int and r1 is not r2, 'R', given)
            check(r1.n_items == as_int // 1000 % 100, 'R n_items', given)
            if expected is FixedReplicationDescriptor:
                check(r1.n_repeats == as_int % 1000, 'R n_repeats', given)
    check(type(r.lookup(True)) is FixedReplicationDescriptor and type(r.lookup(False)) is DelayedReplicationDescriptor,
          'R bool')

    # ---- what cannot be made an integer fails in the same way everywhere, and leaves nothing behind
    n_b, n_c, n_d = len(b.descriptors), len(c._cache), len(d.descriptors)
    for bad, exc_type in BAD_IDS:
        for table in (b, c, r, d, group):
            raises(exc_type, table.lookup, bad)
        raises(exc_type, group.descriptors_from_ids, bad)
    check((n_b, n_c, n_d) == (len(b.descriptors), len(c._cache), len(d.descriptors)), 'failed lookups leave no trace')

    # ---- the group sends an ID to the table of its range
    for id_, table in ((1001, b), (99999, b), (100000, r), (199999, r), (200000, c), (299999, c), (300000, d), (399999, d),
                       (400000, d), (-1, b)):
        check(type(group.lookup(id_)) is type(table.lookup(id_)) and group.lookup(str(id_)).id == id_, 'range', id_)

    # ---- a list of IDs with replications, looked up through all four tables
    members = group.descriptors_from_ids('301001', 102002, '001001', 1002, 201130, 105000, 31001, 301011, 12001,
                                         '101000', 31002, 2001, 201000, 63254)
    check(flat_ids(members) == [301001, 102002, 1001, 1002, 201130, 105000, 31001, 301011, 12001,
                                101000, 31002, 2001, 201000, 63254], 'descriptors_from_ids ids')
    check([type(m).__name__ for m in members] ==
          ['SequenceDescriptor', 'FixedReplicationDescriptor', 'OperatorDescriptor', 'DelayedReplicationDescriptor',
           'OperatorDescriptor', 'UndefinedElementDescriptor'], 'descriptors_from_ids types',
          [type(m).__name__ for m in members])
    check(members[0] is d.lookup(301001) and members[1].members[0] is b.lookup(1001) and
          members[3].factor is b.lookup(31001) and members[3].members[0] is d.lookup(301011) and
          members[2] is c.lookup(201130), 'descriptors_from_ids shares the table objects')

    # a new table object of the same key shares nothing with the one in the cache
    b2 = TableB(key)
    check(b2 == b and b2 is not b and b2.lookup(1001) is not b.lookup(1001) and b2.lookup(1001).name == b.lookup(1001).name,
          'second TableB')
    d2 = TableD(b2, TableC(key), TableR(key), key)
    check(d2 == d and d2.lookup('301001') is not d.lookup(301001) and d2.lookup(301001).members[0] is b2.lookup(1001),
          'second TableD')


# ---------------------------------------------------------------------------------------------
# Part B: histories against fresh processes
POOL = ['207003.bufr', 'ISMD01_OKPR.bufr', 'IUSK73_AMMC_182300.bufr', 'b002_95.bufr', 'g2nd_208.bufr',
        'contrived.bufr', 'profiler_european.bufr', 'uegabe.bufr', 'prepbufr.bufr', 'mpco_217.bufr',
        'multi_invalid_messages.bufr',  # fails: a Table D sequence that does not exist
        'b002_95.bufr:cut', 'uegabe.bufr:unknown-b']  # fail / decode with an undefined element


def message_bytes(name):
    fname, _, variant = name.partition(':')
    with open(os.path.join(DATA, fname), 'rb') as ins:
        s = ins.read()
    if variant == 'cut':
        s = s[:300]
    elif variant == 'unknown-b':
        # replace the first unexpanded descriptor by 0 63 254, which no Table B has
        pos = s.index(b'BUFR')
        edition = s[pos + 7]
        assert edition in (3, 4), edition
        sec1 = pos + 8
        sec1_len = int.from_bytes(s[sec1:sec1 + 3], 'big')
        has_sec2 = s[sec1 + (7 if edition == 3 else 9)] & 0x80
        sec3 = sec1 + sec1_len
        if has_sec2:
            sec3 += int.from_bytes(s[sec3:sec3 + 3], 'big')
        s = s[:sec3 + 7] + bytes([63, 254]) + s[sec3 + 9:]
    return s


def observe(decoder, encoder, name):
    """Everything that is compared, as one string"""
    s = message_bytes(name)
    try:
        m = decoder.process(s, file_path=name)
    except Exception as e:
        return 'FAILED {}: {}'.format(type(e).__name__, e)
    out = [repr(m.table_group_key[1:]), FlatTextRenderer().render(m), NestedTextRenderer().render(m)]
    flat_json = FlatJsonRenderer().render(m)
    flat_json_string = json.dumps(flat_json, **JSON_DUMPS_KWARGS)
    out.append(flat_json_string)
    out.append(json.dumps(NestedJsonRenderer().render(m), **JSON_DUMPS_KWARGS))
    # rendering twice, and wiring again, changes nothing
    m.wire()
    out.append(str(FlatTextRenderer().render(m) == out[1]))
    try:
        m2 = encoder.process(flat_json_string, file_path=name)
        out.append(hashlib.sha256(m2.serialized_bytes).hexdigest())
        out.append(str(m2.serialized_bytes == m.serialized_bytes))
    except Exception as e:
        out.append('ENCODE FAILED {}: {}'.format(type(e).__name__, e))
    return '\n'.join(out)


def digest(text):
    return text[:7] + hashlib.sha256(text.encode('utf-8', 'replace')).hexdigest() if not text.startswith('FAILED') else text


def fresh(name):
    p = subprocess.run([sys.executable, os.path.abspath(__file__), '--fresh', name],
                       stdout=subprocess.PIPE, stderr=subprocess.DEVNULL, check=True)
    return p.stdout.decode('utf-8').strip()


def part_b():
    reference = {name: fresh(name) for name in POOL}
    check(reference['multi_invalid_messages.bufr'].startswith('FAILED UnknownDescriptor') and
          '301195' in reference['multi_invalid_messages.bufr'] and
          'UndefinedSequenceDescriptor' in reference['multi_invalid_messages.bufr'], 'the failing message', reference)
    check(reference['b002_95.bufr:cut'].startswith('FAILED'), 'the cut message', reference['b002_95.bufr:cut'])
    check(reference['uegabe.bufr:unknown-b'].startswith('FAILED UnknownDescriptor') and
          'UndefinedElementDescriptor' in reference['uegabe.bufr:unknown-b'], 'the message with 063254',
          reference['uegabe.bufr:unknown-b'])
    check(sum(1 for v in reference.values() if not v.startswith('FAILED')) == 10, 'ten messages decode', reference)

    rnd = random.Random(13)
    real_limit = tables.MAXIMUM_NUMBER_OF_CACHED_TABLE_GROUPS
    check(real_limit == 50, 'real limit')
    for limit, cache_max, n_ops in ((1, None, 26), (2, 1, 26), (1, 0, 16), (2, 2, 20), (real_limit, 100, 20), (2, None, 14)):
        tables.MAXIMUM_NUMBER_OF_CACHED_TABLE_GROUPS = limit
        TableGroupCacheManager.invalidate()
        groups = TableGroupCacheManager._TABLE_GROUP_CACHE._groups
        if limit == real_limit:
            # fill the cache to the real limit, so that the next table group evicts one
            for i in range(real_limit):
                groups[TableGroupKey('/nowhere/{}'.format(i), ('0', '0_0', str(i)), None)] = None
        decoder = Decoder(compiled_template_cache_max=cache_max)
        encoder = Encoder(compiled_template_cache_max=cache_max)
        history = POOL[:] + [rnd.choice(POOL) for _ in range(n_ops)]
        rnd.shuffle(history)
        seen_keys = set()
        for i, name in enumerate(history):
            got = digest(observe(decoder, encoder, name))
            check(got == reference[name], 'history', (limit, cache_max), i, name, got, reference[name])
            check(len(groups) <= limit, 'cache limit', len(groups), limit)
            seen_keys.update(k for k in groups if not k.tables_root_dir.startswith('/nowhere'))
            if cache_max is not None:
                check(len(decoder.compiled_template_manager.cache) <= max(cache_max, 0), 'template cache limit')
        check(len(seen_keys) == 6, 'six table groups were used', seen_keys)
    tables.MAXIMUM_NUMBER_OF_CACHED_TABLE_GROUPS = real_limit
    TableGroupCacheManager.invalidate()


if __name__ == '__main__':
    if sys.argv[1:2] == ['--fresh']:
        print(digest(observe(Decoder(), Encoder(), sys.argv[2])))
        sys.exit(0)

    for key in (TableGroupKey(DEFAULT_TABLES_DIR, ('0', '0_0', '13'), ('0', '98_0', '1')),
                TableGroupKey(DEFAULT_TABLES_DIR, ('0', '0_0', '33'), None)):
        part_a(key)
    n_a = N_CHECKS[0]
    part_b()
    print('refactor 5 demo: {} lookup checks, {} history checks, all as expected'.format(n_a, N_CHECKS[0] - n_a))
