import os, sys; sys.path.insert(0, os.getcwd())

"""
Differential demonstration for refactor 8 (pragma handling: default / script /
argument layers, pragma lines read by a module level generator).

1. a table of (script, argument) -> expected pragma or expected exception type, by hand,
2. an independent model of the documented pragma rules compared with ScriptRunner on
   seeded random scripts assembled from pragma-ish and code-ish lines (valid and broken),
3. process_pragma as a method of a live runner: in place, progressive, keys taken from
   the live pragma dict,
4. the level actually used by run(): sample messages at levels 0, 1, 2, 4 given by
   pragma, by argument, and by both, with the documented relations between the levels
   computed by an independent flattening.

Only names that exist before and after the refactor are used.
"""

import ast
import random

from pybufrkit.decoder import Decoder
from pybufrkit.script import ScriptRunner
import pybufrkit.script as script_module

assert os.path.dirname(os.path.abspath(script_module.__file__)) == os.path.join(os.getcwd(), 'pybufrkit'), \
    'run me from the worktree root'

KEY = 'data_values_nest_level'


def outcome(script, *args, **kwargs):
    """The pragma of the constructed runner, or the type of the exception raised."""
    try:
        runner = ScriptRunner(script, *args, **kwargs)
    except Exception as e:
        return type(e)
    assert type(runner.pragma) is dict
    return runner.pragma


# ---------------------------------------------------------------------------
# 1. by hand
# ---------------------------------------------------------------------------
HAND = [
    # default
    ('', None, {KEY: 1}),
    ('x = 1', None, {KEY: 1}),
    ('\n#$ data_values_nest_level = 4', None, {KEY: 1}),          # not the first line
    ('x = 1\n#$ data_values_nest_level = 4', None, {KEY: 1}),
    (' #$ data_values_nest_level = 4', None, {KEY: 1}),           # leading blank: an ordinary comment
    ('# $ data_values_nest_level = 4', None, {KEY: 1}),            # plain comment
    ('#data_values_nest_level = 4', None, {KEY: 1}),
    # script pragma
    ('#$ data_values_nest_level = 4', None, {KEY: 4}),
    ('#$ data_values_nest_level = 4\n', None, {KEY: 4}),
    ('#$ data_values_nest_level=2\nx = 1', None, {KEY: 2}),
    ('#$   data_values_nest_level   =   0  \nx = 1', None, {KEY: 0}),
    ('#$\tdata_values_nest_level = 2', None, {KEY: 2}),             # the third character is skipped whatever it is
    ('#$Xdata_values_nest_level = 2', None, {KEY: 2}),
    ('#$data_values_nest_level = 2', None, {KEY: 1}),               # ... also the d: unknown name 'ata_values_nest_level'
    # several assignments, several lines, the last one wins
    ('#$ data_values_nest_level = 4, data_values_nest_level = 2', None, {KEY: 2}),
    ('#$ data_values_nest_level = 4\n#$ data_values_nest_level = 0\nx = 1', None, {KEY: 0}),
    ('#$ foo = 1, data_values_nest_level = 2 , bar = "x"', None, {KEY: 2}),
    ('#$ data_values_nest_level = 4\nx = 1\n#$ data_values_nest_level = 0', None, {KEY: 4}),
    ('#$ data_values_nest_level = 4\n\n#$ data_values_nest_level = 0', None, {KEY: 4}),
    # unknown directives are ignored and their values are never evaluated
    ('#$ foo = !!!', None, {KEY: 1}),
    ('#$ foo =', None, {KEY: 1}),
    ('#$ = ', None, {KEY: 1}),
    ('#$ Data_Values_Nest_Level = 4', None, {KEY: 1}),
    # any literal is accepted as a value
    ('#$ data_values_nest_level = None', None, {KEY: None}),
    ('#$ data_values_nest_level = "two"', None, {KEY: 'two'}),
    ('#$ data_values_nest_level = -1', None, {KEY: -1}),
    ('#$ data_values_nest_level = (1)', None, {KEY: 1}),
    ('#$ data_values_nest_level = 4 # really', None, {KEY: 4}),
    # the argument outranks the script, unless it is None
    ('x = 1', 0, {KEY: 0}),
    ('x = 1', 4, {KEY: 4}),
    ('#$ data_values_nest_level = 4', 0, {KEY: 0}),
    ('#$ data_values_nest_level = 0', 2, {KEY: 2}),
    ('#$ data_values_nest_level = 2', 1, {KEY: 1}),
    ('#$ data_values_nest_level = 2', None, {KEY: 2}),
    ('#$ data_values_nest_level = 2', False, {KEY: False}),          # falsy but not None
    ('#$ data_values_nest_level = 2', 'x', {KEY: 'x'}),
    ('#$ data_values_nest_level = 2', [], {KEY: []}),
    # the pragma lines are comments: nothing is substituted in them
    ('#$ data_values_nest_level = 2, foo = ${%length}\na = ${%length}', None, {KEY: 2}),
    ('#$ data_values_nest_level = ${%length}', None, SyntaxError),
    # malformed assignments
    ('#$', None, ValueError),
    ('#$ ', None, ValueError),
    ('#$ data_values_nest_level', None, ValueError),
    ('#$ data_values_nest_level = 1 = 2', None, ValueError),
    ('#$ data_values_nest_level == 2', None, ValueError),
    ('#$ data_values_nest_level = 2,', None, ValueError),
    ('#$ foo', None, ValueError),
    ('#$ data_values_nest_level = 2\n#$ nothing here', None, ValueError),
    ('#$ data_values_nest_level = [1, 2]', None, SyntaxError),       # cut at the comma
    ('#$ data_values_nest_level = (1, 2)', None, SyntaxError),
    # malformed values of the known directive
    ('#$ data_values_nest_level = ', None, SyntaxError),
    ('#$ data_values_nest_level = 1 +', None, SyntaxError),
    ('#$ data_values_nest_level = four', None, ValueError),
    ('#$ data_values_nest_level = f()', None, ValueError),
    # errors are not rescued by the argument, and come in the order they are written
    ('#$ data_values_nest_level = four', 2, ValueError),
    ('#$ data_values_nest_level', 2, ValueError),
    ('#$ data_values_nest_level = four, data_values_nest_level = 1 +', None, ValueError),
    ('#$ data_values_nest_level = 1 +, data_values_nest_level = four', None, SyntaxError),
    ('#$ data_values_nest_level = 1 +, foo', None, SyntaxError),
    ('#$ foo, data_values_nest_level = 1 +', None, ValueError),
    ('#$ data_values_nest_level = 1 +\n#$ foo', None, SyntaxError),
    # pragma is read before the script is compiled
    ('#$ data_values_nest_level\nx = = 1', None, ValueError),
    ('#$ data_values_nest_level = 2\nx = = 1', None, SyntaxError),
    ('x = = 1\n#$ data_values_nest_level', None, SyntaxError),
]

n_checked = 0
for script, argument, expected in HAND:
    got = outcome(script, argument)
    assert got == expected and type(got) is type(expected), (script, argument, got, expected)
    got = outcome(script, data_values_nest_level=argument)
    assert got == expected, (script, argument, got, expected)
    if argument is None:
        assert outcome(script) == expected, (script, outcome(script), expected)
    n_checked += 1
print('hand written cases:', n_checked)

# eval mode: same pragma handling
assert ScriptRunner('#$ data_values_nest_level = 4\n1', mode='eval').pragma == {KEY: 4}
assert ScriptRunner('#$ data_values_nest_level = 4\n1', 2, 'eval').pragma == {KEY: 2}
assert outcome('#$ data_values_nest_level\n1', mode='eval') is ValueError
assert outcome('#$ data_values_nest_level = 4\nx = 1', mode='eval') is SyntaxError
assert outcome('x = 1', mode='no such mode') is ValueError

# each runner has a pragma dict of its own
r1, r2 = ScriptRunner('1'), ScriptRunner('1')
assert r1.pragma is not r2.pragma
r1.pragma[KEY] = 4
r1.pragma['other'] = 1
assert r2.pragma == {KEY: 1} and ScriptRunner('1').pragma == {KEY: 1}


# ---------------------------------------------------------------------------
# 2. a model of the rules, on random scripts
# ---------------------------------------------------------------------------
def model(script, argument):
    """
    Scripts here contain no embedded queries, quotes or line separators other than
    LF, so the code string is the script and its lines are the LF separated ones.
    """
    level = 1
    for line in script.split('\n'):
        if line[:2] != '#$':
            break
        for part in line[3:].split(','):
            if part.count('=') != 1:
                return ValueError
            name = part[:part.index('=')].strip()
            value = part[part.index('=') + 1:].strip()
            if name != KEY:
                continue
            try:
                level = ast.literal_eval(value)
            except (ValueError, SyntaxError) as e:
                return type(e)
    try:
        compile(script, '', 'exec')
    except SyntaxError:
        return SyntaxError
    return {KEY: level if argument is None else argument}


rng = random.Random(18)
NAMES = [KEY, ' ' + KEY + '  ', 'foo', '', 'bar ', KEY.upper(), KEY + '_']
VALUES = ['0', '1', '2', '4', ' 4 ', '"x"', 'None', '-1', 'True', '!!!', '', '1 +', 'four', '[1', '(2)', '0x10']


def random_assignment():
    kind = rng.random()
    if kind < 0.80:
        return rng.choice(NAMES) + rng.choice(['=', ' = ', '= ']) + rng.choice(VALUES)
    if kind < 0.90:
        return rng.choice(NAMES)                       # no equal sign
    return rng.choice(NAMES) + '=' + rng.choice(VALUES) + '=' + rng.choice(VALUES)


def random_line():
    kind = rng.random()
    if kind < 0.65:
        prefix = rng.choice(['#$ ', '#$ ', '#$ ', '#$', '#$\t', '#$x'])
        return prefix + rng.choice([',', ', ', ' ,']).join(random_assignment() for _ in range(rng.randint(1, 3)))
    return rng.choice(['x = 1', '', '# comment', ' #$ ' + KEY + ' = 4', '# $ ' + KEY + ' = 4', 'x = = 1', 'pass'])


n_checked = n_ok = 0
seen = set()
for _ in range(40000):
    script = '\n'.join(random_line() for _ in range(rng.randint(0, 4)))
    argument = rng.choice([None, None, 0, 1, 2, 4])
    expected = model(script, argument)
    got = outcome(script, argument)
    assert got == expected, (script, argument, got, expected)
    n_checked += 1
    n_ok += isinstance(expected, dict)
    seen.add(expected if isinstance(expected, type) else expected[KEY] if expected[KEY] in (0, 1, 2, 4) else 'other')
assert {ValueError, SyntaxError, 0, 1, 2, 4, 'other'} <= seen, seen
print('random scripts: %d (%d constructed, %d rejected)' % (n_checked, n_ok, n_checked - n_ok))


# ---------------------------------------------------------------------------
# 3. process_pragma on a live runner
# ---------------------------------------------------------------------------
runner = ScriptRunner('#$ data_values_nest_level = 4\nx = 1', data_values_nest_level=0)
pragma = runner.pragma
assert pragma == {KEY: 0}
assert runner.process_pragma() is None
assert runner.pragma is pragma and pragma == {KEY: 4}           # re-read from the code string, in place

runner.code_string = '#$ data_values_nest_level = 2, broken\n'
try:
    runner.process_pragma()
except ValueError:
    pass
else:
    raise AssertionError('ValueError expected')
assert runner.pragma is pragma and pragma == {KEY: 2}           # what came before the broken part is applied

runner.code_string = '#$ data_values_nest_level = 0\n#$ data_values_nest_level = 1 +\n#$ data_values_nest_level = 4'
try:
    runner.process_pragma()
except SyntaxError:
    pass
else:
    raise AssertionError('SyntaxError expected')
assert pragma == {KEY: 0}

# the known names are those of the live dict
pragma['extra'] = 'default'
runner.code_string = '#$ extra = [7], data_values_nest_level = 2, more = 1\nx = 1'
runner.process_pragma()
assert runner.pragma is pragma and pragma == {KEY: 2, 'extra': [7]}
del pragma[KEY]
runner.code_string = '#$ data_values_nest_level = !!!, extra = 8'
runner.process_pragma()
assert pragma == {'extra': 8}
runner.pragma = {}
runner.process_pragma()
assert runner.pragma == {} and pragma == {'extra': 8}
runner.code_string = ''
runner.process_pragma()
assert runner.pragma == {}


# ---------------------------------------------------------------------------
# 4. the level that run() uses
# ---------------------------------------------------------------------------
def flatten(nested):
    out = []
    stack = [iter(nested)]
    while stack:
        for item in stack[-1]:
            if isinstance(item, list):
                stack.append(iter(item))
                break
            out.append(item)
        else:
            stack.pop()
    return out


decoder = Decoder()
CASES = [
    ('jaso_214.bufr', [
        '@[2:7:2]/123002/021062[0]', '@[1]/123002/021062', '/123002/021062[0].A21062.031021', '>004001',
        '@[-1]/123002/021062', '@[200:]/301011/004001', '@[3:3]/301011/004001', '/001001',
    ]),
    ('IUSK73_AMMC_182300.bufr', ['>007004', '>008042[0:3]', '/303054/007004', '/001081']),
    ('contrived.bufr', ['>008002', '/105002/102000/008002', '@[1]>020011', '>031001']),
    ('207003.bufr', ['>001007', '@[1]>005001']),
]
n_checked = 0
for file_name, queries in CASES:
    with open(os.path.join('tests', 'data', file_name), 'rb') as ins:
        message = decoder.process(ins.read(), file_path=file_name, wire_template_data=True)
    for query in queries:
        body = 'v = ${%s}; n = ${%%n_subsets}' % query
        results = {}
        for level in (0, 1, 2, 4):
            by_pragma = ScriptRunner('#$ data_values_nest_level = %d\n%s' % (level, body))
            by_argument = ScriptRunner(body, data_values_nest_level=level)
            by_both = ScriptRunner('#$ data_values_nest_level = %d\n%s' % ({0: 4, 1: 2, 2: 0, 4: 1}[level], body), level)
            values = []
            for runner in (by_pragma, by_argument, by_both):
                assert runner.pragma == {KEY: level} and runner.metadata_only is False
                variables = runner.run(message)
                assert variables['n'] == message.n_subsets.value
                assert variables['PBK_FILENAME'] == file_name and variables['PBK_BUFR_MESSAGE'] is message
                values.append(variables['v'])
            assert values[0] == values[1] == values[2], (file_name, query, level, values)
            results[level] = values[0]
            n_checked += 1
        default = ScriptRunner(body).run(message)['v']
        assert default == results[1]
        # the documented relations
        assert type(results[4]) is list and type(results[2]) is list
        assert results[2] == [flatten(subset) for subset in results[4]], (file_name, query)
        assert results[1] == [x for subset in results[2] for x in subset], (file_name, query)
        assert results[0] == (results[1][0] if results[1] else None), (file_name, query)
        # a level that is none of the documented ones leaves the values fully nested
        assert ScriptRunner('#$ data_values_nest_level = None\n' + body).run(message)['v'] == results[4]
        assert ScriptRunner(body, data_values_nest_level=3).run(message)['v'] == results[4]
print('levels through run():', n_checked)

# spot values written out by hand
with open(os.path.join('tests', 'data', 'jaso_214.bufr'), 'rb') as ins:
    message = decoder.process(ins.read())
script = '#$ data_values_nest_level = 4, unknown = whatever\n#$ another = 1\nv = ${@[2:7:2]/123002/021062[0]}\nw = ${/001001}'
assert ScriptRunner(script).run(message)['v'] == [[[[11.32], [14.77]]], [[[11.54], [14.95]]], [[[11.65], [15.24]]]]
assert ScriptRunner(script, 2).run(message)['v'] == [[11.32, 14.77], [11.54, 14.95], [11.65, 15.24]]
assert ScriptRunner(script, 1).run(message)['v'] == [11.32, 14.77, 11.54, 14.95, 11.65, 15.24]
assert ScriptRunner(script, 0).run(message)['v'] == 11.32
assert ScriptRunner(script, 0).run(message)['w'] is None
assert ScriptRunner(script, 1).run(message)['w'] == []
assert ScriptRunner(script, 2).run(message)['w'] == [[]] * 128
# the level is read when the script runs
runner = ScriptRunner(script)
runner.pragma[KEY] = 1
assert runner.run(message)['v'] == [11.32, 14.77, 11.54, 14.95, 11.65, 15.24]

print('OK')
