"""
Demo for refactor 2: the compressed string column of the encoder and the helper
that fetches the next value of all subsets and tells all-equal / all-missing.

Run as:  cd /tmp/tw_C05 && /venv/bin/python _out/2/demo.py
Exits 0 when every assertion holds (both without and with the patch).
"""
import os, sys; sys.path.insert(0, os.getcwd())

import itertools
import json
import random

import pybufrkit
assert os.path.dirname(os.path.abspath(pybufrkit.__file__)) == os.path.join(os.getcwd(), 'pybufrkit'), \
    'run me with the worktree as current directory'

from pybufrkit.bitops import get_bit_writer
from pybufrkit.coder import CoderState
from pybufrkit.decoder import Decoder
from pybufrkit.encoder import Encoder

SEC1 = [0, 0, 89, 0, 0, False, '0000000', 0, 2, 0, 13, 0, 2007, 11, 21, 12, 0, 0]
ENC = Encoder()
ENC_COMPILED = Encoder(compiled_template_cache_max=8)
DEC = Decoder()
DATA_DIR = os.path.join(os.getcwd(), 'tests', 'data')


def message(descriptors, subsets, compressed, n_subsets=None):
    return [['BUFR', 0, 4], list(SEC1),
            [0, '00000000', len(subsets) if n_subsets is None else n_subsets,
             True, compressed, '000000', list(descriptors)],
            [0, '00000000', [list(s) for s in subsets]], ['7777']]


def encode(descriptors, subsets, compressed, encoder=ENC, **kw):
    return encoder.process(json.dumps(message(descriptors, subsets, compressed, **kw))).serialized_bytes


def decode(data):
    td = DEC.process(data).template_data.value
    return (td.decoded_values_all_subsets,
            [[d.id for d in ds] for ds in td.decoded_descriptors_all_subsets],
            td.bitmap_links_all_subsets)


def data_octets(data, n_descriptors):
    """Octets of the data section after its 4 octets header (edition 4, no section 2)."""
    start = 8 + 22 + 7 + 2 * n_descriptors + 4
    return data[start:-4]


def bits_of(octets):
    return ''.join('{:08b}'.format(b) for b in octets)


def to_field(value, nbytes):
    """What a string value looks like once it went through a field of nbytes octets."""
    if value is None:
        return b'\xff' * nbytes
    raw = value.encode('latin-1')
    return raw[:nbytes] if len(raw) >= nbytes else raw + b' ' * (nbytes - len(raw))


def model_read_string_column(bits, pos, nbytes, n):
    """Independent reader of one compressed character column. Returns (fields, new position)."""
    base = bits[pos:pos + 8 * nbytes]; pos += 8 * nbytes
    width = int(bits[pos:pos + 6], 2); pos += 6
    to_bytes = lambda b: bytes(int(b[i:i + 8], 2) for i in range(0, len(b), 8))
    if width == 0:
        return [to_bytes(base)] * n, pos, width
    assert set(base) <= {'0'}, 'base of a column of different strings is binary zeros'
    fields = []
    for _ in range(n):
        fields.append(to_bytes(bits[pos:pos + 8 * width])); pos += 8 * width
    return fields, pos, width


# string descriptors of table B version 13 by width in octets
STRINGS = {1: 10, 2: 4, 3: 1, 4: 1062, 5: 1018, 8: 1006, 9: 1011, 20: 1015, 32: 2}


def check_string_columns(descriptors, widths, columns):
    n = len(columns[0])
    subsets = [[col[i] for col in columns] for i in range(n)]
    cmp_bytes = encode(descriptors, subsets, True)
    unc_bytes = encode(descriptors, subsets, False)
    assert encode(descriptors, subsets, True, encoder=ENC_COMPILED) == cmp_bytes
    cmp_dec = decode(cmp_bytes)
    unc_dec = decode(unc_bytes)
    expected = [[to_field(col[i], w) for col, w in zip(columns, widths)] for i in range(n)]
    assert cmp_dec == unc_dec, (descriptors, subsets, cmp_dec, unc_dec)
    assert cmp_dec[0] == expected, (descriptors, subsets, cmp_dec[0])
    assert cmp_dec[1] == [list(descriptors)] * n
    assert cmp_dec[2] == [{}] * n

    bits = bits_of(data_octets(cmp_bytes, len(descriptors)))
    pos = 0
    for col, w in zip(columns, widths):
        fields, pos, width = model_read_string_column(bits, pos, w, n)
        assert fields == [to_field(v, w) for v in col], (col, fields)
        all_same = len(set(col)) == 1
        assert width == (0 if all_same else w), (col, width)
    assert set(bits[pos:]) <= {'0'} and len(bits) - pos < 8


# ---------------------------------------------------------------------------
# 1. exhaustive small scope: every column of up to 4 subsets over
#    {missing, 'A', 'B', 'AB'} for a 1, 2, 3 and 20 octets field
# ---------------------------------------------------------------------------
count = 0
for nbytes in (1, 2, 3, 20):
    domain = [None, 'A', 'B', 'AB']
    for n in (1, 2, 3, 4):
        cols = [list(c) for c in itertools.product(domain, repeat=n)]
        if nbytes == 1:   # 'AB' is cut to 'A' in one octet: keep the values distinguishable
            cols = [c for c in cols if 'AB' not in c]
        for i in range(0, len(cols), 32):
            chunk = cols[i:i + 32]
            check_string_columns([STRINGS[nbytes]] * len(chunk), [nbytes] * len(chunk), chunk)
            count += len(chunk)
print('exhaustive string columns checked:', count)

# ---------------------------------------------------------------------------
# 2. random: all widths, dozens of subsets, padding, truncation, latin-1
# ---------------------------------------------------------------------------
rnd = random.Random(52)
ALPHABET = 'ABCDEFGHIJKLMNOPQRSTUVWXYZ0123456789-_/\xe9\xfc'
for _ in range(60):
    n = rnd.randint(1, 40)
    widths = [rnd.choice(sorted(STRINGS)) for _ in range(rnd.randint(1, 4))]
    columns = []
    for w in widths:
        style = rnd.choice(['missing', 'equal', 'different', 'mixed'])
        pool = [''.join(rnd.choice(ALPHABET) for _ in range(rnd.randint(1, w))) for _ in range(3)]
        if style == 'missing':
            col = [None] * n
        elif style == 'equal':
            col = [pool[0]] * n
        elif style == 'different':
            col = [rnd.choice(pool) for _ in range(n)]
        else:
            col = [rnd.choice(pool + [None]) for _ in range(n)]
        columns.append(col)
    check_string_columns([STRINGS[w] for w in widths], widths, columns)

# strings between numeric and code columns: the value index advances by one per column
mixed_subsets = [[273.2, 'ALPHA', 3, 'X', 1999], [None, None, None, 'X', 2000], [280.0, 'BETA', 3, 'X', None]]
mixed = [12001, 1015, 20011, 10, 4001]
c, u = decode(encode(mixed, mixed_subsets, True)), decode(encode(mixed, mixed_subsets, False))
assert c == u
assert c[0] == [[273.2, to_field('ALPHA', 20), 3, b'X', 1999],
                [None, b'\xff' * 20, None, b'X', 2000],
                [280.0, to_field('BETA', 20), 3, b'X', None]]

# ---------------------------------------------------------------------------
# 3. real compressed messages, re-encoded compressed and uncompressed
#    (bitmaps / 222000 constants / delayed replication / new reference values all
#     go through the same next-value helper)
# ---------------------------------------------------------------------------
for stub in ('207003', 'amv2_87', 'b005_89', 'jaso_214', 'g2nd_208', 'ISMD01_OKPR', 'mpco_217'):
    with open(os.path.join(DATA_DIR, stub + '.json')) as ins:
        js = json.load(ins)
    sec3 = next(s for s in js if isinstance(s[-1], list) and isinstance(s[3], bool) and isinstance(s[4], bool))
    assert sec3[4] is True, stub
    as_compressed = ENC.process(json.dumps(js)).serialized_bytes
    sec3[4] = False
    as_uncompressed = ENC.process(json.dumps(js)).serialized_bytes
    c, u = decode(as_compressed), decode(as_uncompressed)
    assert c == u, stub
    json_values = [[v.encode('latin-1') if isinstance(v, str) else v for v in subset]
                   for subset in next(s for s in js if s is not sec3 and isinstance(s[-1], list))[-1]]
    assert c[0] == json_values, stub
    assert all(ds == c[1][0] for ds in c[1]) and all(links == c[2][0] for links in c[2])

# ---------------------------------------------------------------------------
# 4. unit level: the helper and the string method on a real state and writer
# ---------------------------------------------------------------------------
class FakeDescriptor(object):
    id = 1015
    nbits = 24

    def __str__(self):
        return '001015'


def new_state(rows):
    return CoderState(True, len(rows), [list(r) for r in rows])


def helper(rows, idx_value=0):
    state = new_state(rows)
    state.idx_value = idx_value
    descriptor = FakeDescriptor()
    result = ENC._next_compressed_values_and_status_from_all_subsets(state, descriptor)
    assert state.idx_value == idx_value + 1
    assert state.decoded_descriptors == [descriptor]
    assert all(ds is state.decoded_descriptors for ds in state.decoded_descriptors_all_subsets)
    assert state.decoded_values_all_subsets == [list(r) for r in rows]
    assert type(result) is tuple and type(result[0]) is list
    assert result[1] is True or result[1] is False
    assert result[2] is True or result[2] is False
    return result


assert helper([[1], [1], [1]]) == ([1, 1, 1], True, False)
assert helper([[None], [None]]) == ([None, None], True, True)
assert helper([[None]]) == ([None], True, True)
assert helper([[7]]) == ([7], True, False)
assert helper([[None], [1]]) == ([None, 1], False, False)
assert helper([[1], [None]]) == ([1, None], False, False)
assert helper([[1], [1.0], [True]]) == ([1, 1.0, True], True, False)   # equality, not identity
assert helper([['A', 'x'], ['A', 'y']], idx_value=1) == (['x', 'y'], False, False)
nan = float('nan')
assert helper([[nan]])[1:] == (True, False)               # the same object counts as equal
assert helper([[nan], [float('nan')]])[1:] == (False, False)

# short row: IndexError, the descriptor is already recorded and the index is not advanced
state = new_state([[1, 2], [1]])
state.idx_value = 1
try:
    ENC._next_compressed_values_and_status_from_all_subsets(state, FakeDescriptor())
except IndexError:
    assert state.idx_value == 1 and len(state.decoded_descriptors) == 1
else:
    raise AssertionError('IndexError expected')

# no subsets at all: IndexError after the index was advanced
state = CoderState(True, 0, [])
try:
    ENC._next_compressed_values_and_status_from_all_subsets(state, FakeDescriptor())
except IndexError:
    assert state.idx_value == 1
else:
    raise AssertionError('IndexError expected')


def string_unit(rows, nbytes):
    state = new_state(rows)
    writer = get_bit_writer()
    result = ENC.process_string_compressed(state, writer, FakeDescriptor(), nbytes)
    assert result is None
    assert state.idx_value == 1 and len(state.decoded_descriptors) == 1
    assert state.decoded_values_all_subsets == [list(r) for r in rows]
    assert writer.get_pos() == len(writer.bit_stream.bin)
    return writer.bit_stream.bin


B = lambda bs: bits_of(bs)
assert string_unit([[None], [None]], 3) == B(b'\xff\xff\xff') + '000000'
assert string_unit([['AB'], ['AB']], 3) == B(b'AB ') + '000000'
assert string_unit([['ABCDE'], ['ABCDE']], 3) == B(b'ABC') + '000000'
assert string_unit([['AB'], [None], ['ABCD']], 3) == \
    B(b'\0\0\0') + '000011' + B(b'AB ') + B(b'\xff\xff\xff') + B(b'ABC')
assert string_unit([['AB'], [None]], 3) == B(b'\0\0\0') + '000011' + B(b'AB ') + B(b'\xff\xff\xff')
assert string_unit([[b'AB'], ['CD']], 2) == B(b'\0\0') + '000010' + B(b'AB') + B(b'CD')   # bytes accepted too
assert string_unit([['AB'], ['CD']], 0) == '000000'         # zero width: nothing but the width itself
assert string_unit([['AB'], ['AB']], 0) == '000000'
assert string_unit([[None], [None]], 0) == '000000'
assert string_unit([['A' * 63], ['B' * 63]], 63) == \
    B(b'\0' * 63) + '111111' + B(b'A' * 63) + B(b'B' * 63)


def string_unit_error(rows, nbytes):
    state = new_state(rows)
    writer = get_bit_writer()
    try:
        ENC.process_string_compressed(state, writer, FakeDescriptor(), nbytes)
    except Exception as e:
        return type(e).__name__, writer.bit_stream.bin
    return None, writer.bit_stream.bin


# a width of 64 octets does not fit the 6 bits: the base is written, then ValueError
assert string_unit_error([['A'], ['B']], 64) == ('ValueError', B(b'\0' * 64))
assert string_unit_error([['A'], ['A']], 64) == (None, B(b'A' + b' ' * 63) + '000000')
# a number in a character column: TypeError when its length is asked for
assert string_unit_error([[5], [5]], 2) == ('TypeError', '')
assert string_unit_error([['A'], [5]], 2) == ('TypeError', B(b'\0\0') + '000010' + B(b'A '))
# a width that is not a number
assert string_unit_error([['A'], ['B']], None)[0] == 'TypeError'
assert string_unit_error([[None], [None]], None)[0] == 'TypeError'
assert string_unit_error([['A'], ['A']], None) == (None, B(b'A') + '000000')

# ---------------------------------------------------------------------------
# 5. error cases through the public entry point
# ---------------------------------------------------------------------------
def error_of(descriptors, subsets, **kw):
    try:
        encode(descriptors, subsets, True, **kw)
    except Exception as e:
        return type(e).__name__
    return None


assert error_of([1015], [['A'], [5]]) == 'TypeError'
assert error_of([1015, 1015], [['A', 'B'], ['A']]) == 'IndexError'
assert error_of([208100, 1015, 208000], [['A'], ['B']]) == 'ValueError'   # 100 octets increments
assert error_of([208100, 1015, 208000], [['A'], ['A']]) is None           # no increments needed
assert error_of([1015], [], n_subsets=0) == 'IndexError'
assert error_of([203012, 4001, 203255, 4001], [[5, 2000], [6, 2000]]) == 'AssertionError'
assert error_of([203012, 4001, 203255, 4001], [[None, 2000], [None, 2000]]) == 'AssertionError'
assert error_of([203012, 4001, 203255, 4001], [[-5, 2000], [-5, 2001]]) is None

print('demo 2 OK')
