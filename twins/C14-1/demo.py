"""
Demo for refactor 1: _descriptors_from_ids_iter (replication ownership).

Run as: cd /tmp/tw_C14 && /venv/bin/python _out/1/demo.py
"""
import os, sys; sys.path.insert(0, os.getcwd())

import random

from pybufrkit.errors import PyBufrKitError, UnknownDescriptor
from pybufrkit.tables import TableGroupCacheManager, _descriptors_from_ids
from pybufrkit.descriptors import (ElementDescriptor, FixedReplicationDescriptor,
                                   DelayedReplicationDescriptor, OperatorDescriptor,
                                   SequenceDescriptor, UndefinedElementDescriptor,
                                   UndefinedSequenceDescriptor, flat_member_ids)
from pybufrkit.decoder import Decoder

tg = TableGroupCacheManager.get_table_group()  # default tables (version 33)

ELEMENTS = [1001, 1002, 2001, 4001, 4002, 5001, 6001, 7004, 10004, 12001, 12101, 8002, 20011]
OPERATORS = [201132, 201000, 202129, 202000, 204008, 204000, 207001, 207000, 208010, 208000]
SEQUENCES = [301011, 301013, 301021, 302001, 301001, 340009, 309052]
FACTORS = [31000, 31001, 31002, 31011, 31012]


# ---------------------------------------------------------------------------
# A reference model that follows the FM-94 consumption rules by itself:
# a model tree is a list of nodes, a node is
#     ('E', id) / ('O', id) / ('S', id) / ('F', id, children) / ('D', id, factor_id, children)
# The X of a replication counts the *ids* it owns: a nested replication counts
# for all ids it spans itself (own id + factor + everything it owns).
# ---------------------------------------------------------------------------
def span(node):
    kind = node[0]
    if kind == 'F':
        return 1 + sum(span(c) for c in node[2])
    if kind == 'D':
        return 2 + sum(span(c) for c in node[3])
    return 1


def random_nodes(rng, depth, budget):
    """Random node list spanning at most `budget` ids"""
    nodes = []
    used = 0
    n_wanted = rng.randint(0 if depth else 1, 6)
    while len(nodes) < n_wanted and used < budget:
        choice = rng.random()
        remaining = budget - used
        if depth < 4 and choice < 0.35 and remaining >= 2:
            delayed = rng.random() < 0.5
            head = 2 if delayed else 1
            if remaining < head:
                continue
            children = random_nodes(rng, depth + 1, min(63, remaining - head))
            x = sum(span(c) for c in children)
            assert 0 <= x <= 63
            if delayed:
                node = ('D', 100000 + x * 1000, rng.choice(FACTORS), children)
            else:
                node = ('F', 100000 + x * 1000 + rng.randint(1, 255), children)
        elif choice < 0.55:
            node = ('O', rng.choice(OPERATORS))
        elif choice < 0.7:
            node = ('S', rng.choice(SEQUENCES))
        else:
            node = ('E', rng.choice(ELEMENTS))
        if span(node) > remaining:
            continue
        nodes.append(node)
        used += span(node)
    return nodes


def flatten_model(nodes):
    ids = []
    for node in nodes:
        ids.append(node[1])
        if node[0] == 'F':
            ids.extend(flatten_model(node[2]))
        elif node[0] == 'D':
            ids.append(node[2])
            ids.extend(flatten_model(node[3]))
    return ids


def check_tree(descriptors, nodes):
    assert len(descriptors) == len(nodes), (descriptors, nodes)
    for descriptor, node in zip(descriptors, nodes):
        kind = node[0]
        assert descriptor.id == node[1]
        if kind == 'E':
            assert type(descriptor) is ElementDescriptor
            assert descriptor is tg.B.descriptors[node[1]]  # the cached table entry, attributes intact
        elif kind == 'O':
            assert type(descriptor) is OperatorDescriptor
        elif kind == 'S':
            assert type(descriptor) is SequenceDescriptor
            assert descriptor is tg.D.descriptors[node[1]]
        elif kind == 'F':
            assert type(descriptor) is FixedReplicationDescriptor
            assert descriptor.n_items == sum(span(c) for c in node[2])
            check_tree(descriptor.members, node[2])
        else:
            assert type(descriptor) is DelayedReplicationDescriptor
            assert type(descriptor.factor) is ElementDescriptor
            assert descriptor.factor.id == node[2] and descriptor.factor.X == 31
            assert descriptor.n_items == sum(span(c) for c in node[3])
            check_tree(descriptor.members, node[3])


rng = random.Random(20240914)
max_depth_seen = 0
max_x_seen = 0


def depth_and_x(nodes):
    depth, x = 0, 0
    for node in nodes:
        if node[0] in ('F', 'D'):
            sub_depth, sub_x = depth_and_x(node[-1])
            depth = max(depth, 1 + sub_depth)
            x = max(x, sub_x, node[1] // 1000 % 100)
    return depth, x


for _ in range(600):
    model = random_nodes(rng, 0, 200)
    depth_, x_ = depth_and_x(model)
    max_depth_seen, max_x_seen = max(max_depth_seen, depth_), max(max_x_seen, x_)
    ids = flatten_model(model)
    template = tg.template_from_ids(*ids)
    assert template.original_descriptor_ids == ids
    check_tree(template.members, model)
    # descriptors_from_ids gives the same tree, and string ids are accepted alike
    check_tree(tg.descriptors_from_ids(*ids), model)
    check_tree(tg.descriptors_from_ids(*['{:06d}'.format(i) for i in ids]), model)
    # replication descriptors are never shared between two builds
    again = tg.template_from_ids(*ids)
    for m1, m2 in zip(template.members, again.members):
        if isinstance(m1, (FixedReplicationDescriptor, DelayedReplicationDescriptor)):
            assert m1 is not m2
        else:
            assert m1 is m2

assert max_depth_seen == 4 and max_x_seen >= 30, (max_depth_seen, max_x_seen)

# ---------------------------------------------------------------------------
# Hand made cases
# ---------------------------------------------------------------------------
# empty list
assert tg.descriptors_from_ids() == []
assert tg.template_from_ids().original_descriptor_ids == []

# a plain case with exact shape
ds = tg.descriptors_from_ids(1001, 102003, 4001, 4002, 5001)
assert [d.id for d in ds] == [1001, 102003, 5001]
assert [d.id for d in ds[1].members] == [4001, 4002]
assert ds[1].n_repeats == 3 and ds[1].n_members == 2

# delayed replication: the factor does not count for X, but counts for an enclosing X
ds = tg.descriptors_from_ids(104002, 1001, 101000, 31001, 4001, 5001, 6001)
assert [d.id for d in ds] == [104002, 5001, 6001]
outer = ds[0]
assert [d.id for d in outer.members] == [1001, 101000]
inner = outer.members[1]
assert inner.factor.id == 31001 and [d.id for d in inner.members] == [4001]
assert tg.template_from_ids(104002, 1001, 101000, 31001, 4001, 5001, 6001).original_descriptor_ids == \
    [104002, 1001, 101000, 31001, 4001, 5001, 6001]

# a nested replication may only take what its owner has left for it
ds = tg.descriptors_from_ids(102002, 103002, 1001, 1002, 4001)
assert [d.id for d in ds] == [102002, 1002, 4001]
assert [d.id for d in ds[0].members] == [103002]
assert [d.id for d in ds[0].members[0].members] == [1001]

# X = 0: owns nothing
ds = tg.descriptors_from_ids(100002, 1001)
assert [d.id for d in ds] == [100002, 1001] and ds[0].members == []
ds = tg.descriptors_from_ids(100000, 31001, 1001)
assert [d.id for d in ds] == [100000, 1001] and ds[0].members == [] and ds[0].factor.id == 31001

# list runs out: members are the ones available, X = 63
ds = tg.descriptors_from_ids(163002, 1001, 1002)
assert len(ds) == 1 and [d.id for d in ds[0].members] == [1001, 1002] and ds[0].n_items == 63
ds = tg.descriptors_from_ids(1001, 101002)
assert [d.id for d in ds] == [1001, 101002] and ds[1].members == []

# delayed replication at the very end: no factor -> PyBufrKitError (not StopIteration)
for bad in ([101000], [1001, 102000], [102002, 1001, 101000], [101000, 31001, 101000]):
    try:
        tg.descriptors_from_ids(*bad)
    except PyBufrKitError as e:
        assert type(e) is PyBufrKitError
        assert e.message == 'Delayed replication descriptor {} is not followed by a replication factor'.format(
            bad[-1])
        assert isinstance(e.__context__, StopIteration)
    else:
        raise AssertionError('no error for {}'.format(bad))

# the same through the template
try:
    tg.template_from_ids(301011, 105000)
except PyBufrKitError as e:
    assert '105000' in e.message
else:
    raise AssertionError

# the descriptor following a delayed replication is taken as factor whatever it is
ds = tg.descriptors_from_ids(101000, 1001, 4001)
assert ds[0].factor.id == 1001 and [d.id for d in ds[0].members] == [4001]
# ... and is always looked up in Table B
ds = tg.descriptors_from_ids(101000, 301011, 4001)
assert type(ds[0].factor) is UndefinedElementDescriptor and ds[0].factor.id == 301011

# a non numeric id is a ValueError, wherever it is; None is a TypeError
for bad in (['abc'], [1001, 'x1'], [101001, 'zz'], [101000, 'zz', 1001], [102000, 31001, 1001, '0x10']):
    try:
        tg.descriptors_from_ids(*bad)
    except ValueError:
        pass
    else:
        raise AssertionError('no ValueError for {}'.format(bad))
for bad in ([None], [101001, None], [101000, None]):
    try:
        tg.descriptors_from_ids(*bad)
    except TypeError:
        pass
    else:
        raise AssertionError('no TypeError for {}'.format(bad))

# ids given as strings, also for the factor
ds = tg.descriptors_from_ids('101000', '031001', '004001')
assert ds[0].id == 101000 and ds[0].factor is tg.B.descriptors[31001] and ds[0].members[0].id == 4001

# ids of mixed kinds: bool and float-like strings are not accepted silently
try:
    tg.descriptors_from_ids('1001.0')
except ValueError:
    pass
else:
    raise AssertionError

# placeholders for ids not in the tables, on every position
ds = tg.descriptors_from_ids(63255, 363255, 102000, 31255, 63254, 363254)
assert type(ds[0]) is UndefinedElementDescriptor and ds[0].id == 63255
assert type(ds[1]) is UndefinedSequenceDescriptor and ds[1].id == 363255
assert type(ds[2].factor) is UndefinedElementDescriptor and ds[2].factor.id == 31255
assert type(ds[2].members[0]) is UndefinedElementDescriptor
assert type(ds[2].members[1]) is UndefinedSequenceDescriptor
t = tg.template_from_ids(63255, 363255, 102000, 31255, 63254, 363254)
assert t.original_descriptor_ids == [63255, 363255, 102000, 31255, 63254, 363254]

# negative and zero ids end up in Table B
ds = tg.descriptors_from_ids(0, -5)
assert [type(d) for d in ds] == [UndefinedElementDescriptor] * 2 and [d.id for d in ds] == [0, -5]

# the raw function with stub tables: who is asked for what, and in which order
calls = []


class Stub(object):
    def __init__(self, name, real):
        self.name, self.real = name, real

    def lookup(self, id_):
        calls.append((self.name, id_))
        return self.real.lookup(id_)


out = _descriptors_from_ids(Stub('b', tg.B), Stub('c', tg.C), Stub('r', tg.R), Stub('d', tg.D),
                            [301011, 201129, 103000, '31001', 1001, 101002, 4001, 5001])
assert calls == [('d', 301011), ('c', 201129), ('r', 103000), ('b', 31001), ('b', 1001),
                 ('r', 101002), ('b', 4001), ('b', 5001)], calls
assert [d.id for d in out] == [301011, 201129, 103000, 5001]

# ---------------------------------------------------------------------------
# A descriptor in no table makes decoding fail with an unknown-descriptor error
# ---------------------------------------------------------------------------
with open(os.path.join('tests', 'data', 'contrived.bufr'), 'rb') as ins:
    data = bytearray(ins.read())
decoder = Decoder()
message = decoder.process(bytes(data))
ids = message.unexpanded_descriptors.value

# locate section 3 and overwrite the first element descriptor of it by 0 63 255
sec1_len = int.from_bytes(data[8:11], 'big')
pos = 8 + sec1_len
if message.is_section2_presents.value:
    pos += int.from_bytes(data[pos:pos + 3], 'big')
sec3_len = int.from_bytes(data[pos:pos + 3], 'big')
n_desc = (sec3_len - 7) // 2
wire_ids = []
for i in range(n_desc):
    v = int.from_bytes(data[pos + 7 + 2 * i: pos + 9 + 2 * i], 'big')
    wire_ids.append((v >> 14) * 100000 + ((v >> 8) & 0x3f) * 1000 + (v & 0xff))
assert wire_ids == list(ids), (wire_ids, ids)
target = next(i for i, v in enumerate(wire_ids) if v < 100000)
for unknown in (63255, 363255):
    broken = bytearray(data)
    f, x, y = unknown // 100000, unknown // 1000 % 100, unknown % 1000
    broken[pos + 7 + 2 * target: pos + 9 + 2 * target] = ((f << 14) | (x << 8) | y).to_bytes(2, 'big')
    try:
        Decoder().process(bytes(broken))
    except UnknownDescriptor as e:
        assert '{:06d}'.format(unknown) in e.message, e.message
    else:
        raise AssertionError('decoding went on with an unknown descriptor')

print('demo 1 OK')
