import os, sys; sys.path.insert(0, os.getcwd())
"""
Differential demonstration for refactor 5 (nested renderers: shared base class).

The nested JSON and the nested text renderings produced by the library are
compared with renderings computed here, independently, from the node tree of
the wired template data:

* the reference nested JSON is built by `ref_nodes` (own walk of the tree, own
  grouping of replication members, own rule for the description of a value),
* the reference nested text is derived from the reference nested JSON,
* the values of the nested JSON, read in document order with the real
  (non virtual) attributes before their owner, must be the flat values.

Inputs: every sample below tests/data and tests/benchmark_data that decodes,
hand-built messages (replications nested in replications, zero counts, strings
with quotes) and hand-built node trees for the error behaviour.
"""
import copy
import glob
import itertools
import json
import logging

logging.disable(logging.CRITICAL)

import pybufrkit
from pybufrkit.decoder import Decoder
from pybufrkit.encoder import Encoder
from pybufrkit.errors import PyBufrKitError
from pybufrkit.descriptors import (MarkerDescriptor, AssociatedDescriptor, ElementDescriptor,
                                   FixedReplicationDescriptor, DelayedReplicationDescriptor)
from pybufrkit.renderer import NestedJsonRenderer, NestedTextRenderer, FlatJsonRenderer, Renderer
from pybufrkit.templatedata import (TemplateData, SequenceNode, FixedReplicationNode,
                                    DelayedReplicationNode, ValueDataNode, NoValueDataNode)
from pybufrkit.utils import nested_json_to_flat_json, nested_text_to_flat_json

assert os.path.dirname(os.path.abspath(pybufrkit.__file__)) == os.path.join(os.getcwd(), 'pybufrkit'), \
    'run me from the worktree root'

INDENT = '    '
seen = set()  # names of the branches reached


# ---------------------------------------------------------------- reference
def ref_description(node, descriptor):
    if type(descriptor) is MarkerDescriptor:
        seen.add('description: marker')
        return '%06d' % descriptor.marker_id
    try:
        name = descriptor.name
    except AttributeError:
        seen.add('description: class name of %s' % type(node).__name__)
        return type(node).__name__.replace('Node', '')
    seen.add('description: name')
    return name


def ref_value(node, D, V, as_attribute=False):
    descriptor = D[node.index]
    out = {'id': str(descriptor), 'description': ref_description(node, descriptor), 'value': V[node.index]}
    if as_attribute and type(descriptor) is not AssociatedDescriptor:
        out['virtual'] = True
    if 'attributes' in vars(node):
        seen.add('attributes')
        out['attributes'] = [ref_value(a, D, V, True) for a in node.attributes]
    return out


def ref_nodes(nodes, D, V):
    out = []
    for node in nodes:
        if isinstance(node, ValueDataNode):
            out.append(ref_value(node, D, V))
            continue
        entry = {'id': str(node.descriptor), 'description': str(node)}
        if type(node) is SequenceNode:
            entry['members'] = ref_nodes(node.members, D, V)
        elif type(node) in (FixedReplicationNode, DelayedReplicationNode):
            if type(node) is FixedReplicationNode:
                count = node.descriptor.id % 1000
                seen.add('fixed replication')
            else:
                count = V[node.factor.index]
                entry['factor'] = ref_value(node.factor, D, V)
                seen.add('delayed replication, count %s' % ('0' if count == 0 else '>0'))
                if 'attributes' in entry['factor']:
                    seen.add('attributes on a replication factor')
            size = len(node.descriptor.members)
            rest = iter(node.members)
            entry['members'] = []
            for _ in range(count):
                entry['members'].append(ref_nodes(list(itertools.islice(rest, size)), D, V))
        else:
            seen.add('no value node without members')
        out.append(entry)
    return out


def ref_value_lines(entry, indent, arrow=''):
    lines = ['%s%s%s %s %r' % (indent, arrow, entry['id'], entry['description'], entry['value'])]
    for attr in entry.get('attributes', []):
        lines += ref_value_lines(attr, indent + INDENT, '-> ')
    return lines


def ref_lines(entries, indent=''):
    lines = []
    for entry in entries:
        if 'value' in entry:
            lines += ref_value_lines(entry, indent)
            continue
        lines.append(indent + entry['description'])
        if 'members' not in entry:
            continue
        if entry['id'].startswith('3'):
            lines += ref_lines(entry['members'], indent + INDENT)
            continue
        if 'factor' in entry:
            lines += ref_value_lines(entry['factor'], indent + '....')
        total = len(entry['members'])
        for i, group in enumerate(entry['members']):
            lines.append('%s# --- %d of %d replications ---' % (indent + INDENT, i + 1, total))
            lines += ref_lines(group, indent + INDENT)
    return lines


def ref_flat(entries, out):
    for entry in entries:
        for part in ([entry] if 'value' in entry else [entry['factor']] if 'factor' in entry else []):
            out += [a['value'] for a in part.get('attributes', []) if not a.get('virtual')]
            out.append(part['value'])
        if 'members' in entry:
            if entry['id'].startswith('1'):
                for group in entry['members']:
                    ref_flat(group, out)
            else:
                ref_flat(entry['members'], out)
    return out


# ---------------------------------------------------------------- checks
def check_message(label, message):
    td = message.template_data.value
    message.wire()
    nested_json = NestedJsonRenderer().render(message)
    nested_text = NestedTextRenderer().render(message)
    flat_json = FlatJsonRenderer().render(message)

    expected_td_json = []
    expected_td_lines = []
    for i in range(td.n_subsets):
        D, V = td.decoded_descriptors_all_subsets[i], td.decoded_values_all_subsets[i]
        ref = ref_nodes(td.decoded_nodes_all_subsets[i], D, V)
        assert ref_flat(ref, []) == V, (label, i, 'reference does not flatten to the flat values')
        expected_td_json.append(ref)
        expected_td_lines.append('###### subset %d of %d ######' % (i + 1, td.n_subsets))
        expected_td_lines += ref_lines(ref)

    # the renderings of the template data alone
    assert NestedJsonRenderer().render(td) == expected_td_json, (label, 'nested JSON of the template data')
    assert NestedTextRenderer().render(td) == '\n'.join(expected_td_lines), (label, 'nested text of the template data')

    # the renderings of the whole message
    expected_json = []
    expected_lines = [str(message.table_group_key)]
    for section in message.sections:
        expected_lines.append('<<<<<< section %d >>>>>>' % section.get_metadata('index'))
        section_json = []
        for parameter in section:
            if parameter.name == 'template_data':
                section_json.append({'name': parameter.name, 'value': expected_td_json})
                expected_lines += expected_td_lines
            else:
                section_json.append({'name': parameter.name, 'value': parameter.value})
                expected_lines.append('%s = %r' % (parameter.name, parameter.value))
        expected_json.append(section_json)
    assert nested_json == expected_json, (label, 'nested JSON of the message')
    assert nested_text == '\n'.join(expected_lines), (label, 'nested text of the message')

    # and both go back to the flat form
    assert nested_json_to_flat_json(nested_json) == flat_json, (label, 'nested JSON -> flat')
    assert nested_text_to_flat_json(nested_text) == flat_json, (label, 'nested text -> flat')


decoder = Decoder()
encoder = Encoder(ignore_declared_length=True)

# Large files with the template of asbh_139 / mhsa_55, which are checked: left out to save
# a minute unless DEMO_FULL is set
SKIPPED = set() if os.environ.get('DEMO_FULL') else {
    'asbl_139.bufr', 'asca_139.bufr', 'asch_139.bufr', 'ascs_139.bufr', 'ashs_139.bufr', 'mhen_55.bufr'}

n_files = 0
for path in sorted(glob.glob('tests/data/*.bufr')) + sorted(glob.glob('tests/benchmark_data/*.bufr')):
    if os.path.basename(path) in SKIPPED:
        continue
    with open(path, 'rb') as ins:
        data = ins.read()
    try:
        message = decoder.process(data, wire_template_data=False)
    except Exception:
        continue  # not a decodable message
    check_message(path, message)
    n_files += 1
assert n_files >= 140, n_files

# ---- hand-built messages
with open('tests/data/IUSK73_AMMC_182300.json') as ins:
    BASE = json.load(ins)


def build(descriptors, subsets, compressed=False):
    flat = copy.deepcopy(BASE)
    flat[0][1] = 0
    flat[2][0] = 0
    flat[2][2] = len(subsets)
    flat[2][4] = compressed
    flat[2][-1] = descriptors
    flat[3][0] = 0
    flat[3][-1] = subsets
    encoded = encoder.process(flat, wire_template_data=False)
    return decoder.process(encoded.serialized_bytes, wire_template_data=False)


HAND = [
    # a delayed replication inside a fixed one, counts 2 then 0; one more delayed one outside
    ('fixed > delayed', [105002, 1001, 102000, 31001, 2001, 12001, 101000, 31001, 1002],
     [[1, 2, 0, 280.5, 1, 281.5, 2, 0, 3, 10, 20, 30],
      [5, 0, 6, 1, 3, 270.0, 0]]),
    # delayed > delayed > fixed, strings with quotes, spaces and 8-bit characters
    ('delayed > delayed > fixed', [105000, 31001, 1015, 102000, 31001, 101002, 1001],
     [[2, 'it\'s "x"  y', 1, 7, 8, u'\xe9\xff b\'', 2, 1, 2, 3, 4],
      [0]]),
    # the same shape, compressed: the node tree is shared by the subsets
    ('compressed', [101002, 1001, 101000, 31001, 1015],
     [[1, 2, 1, 'a b'], [3, 4, 1, "c'd"]], True),
    # operators: 201/202 without value, 205 with a value
    ('operators', [201130, 12001, 201000, 205003, 101002, 202129, 1001],
     [[280.55, 'abc', 1, 2]]),
]
for entry in HAND:
    check_message(entry[0], build(*entry[1:]))


# ---- error behaviour on hand-built node trees
class FakeElement(object):
    def __init__(self, id_):
        self.id = id_
        self.name = 'E%06d' % id_

    def __str__(self):
        return '%06d' % self.id


class NoMembersCount(object):
    """A replication descriptor that cannot tell its number of members"""
    id = 101002
    n_repeats = 2

    def __str__(self):
        return '101002'


class NoMembersCountNoRepeats(NoMembersCount):
    n_repeats = None


def hand_tree(replication_node, D, V):
    td = TemplateData(None, False, [D], [V], [{}])
    td.decoded_nodes_all_subsets[0].append(replication_node)
    return td


def outcome(renderer, td):
    try:
        return 'ok', renderer.render(td)
    except Exception as e:
        return type(e).__name__, str(e)


elements = [FakeElement(31001), FakeElement(1001), FakeElement(1001)]

# a count that is missing: range(None)
node = DelayedReplicationNode(DelayedReplicationDescriptor(101000, members=[elements[1]], factor=elements[0]))
node.factor = ValueDataNode(elements[0], 0)
node.members = [ValueDataNode(elements[1], 1)]
for V, expected in (([None, 5], 'TypeError'), (['2', 5], 'TypeError'), ([1.0, 5], 'TypeError'),
                    ([-1, 5], 'ok'), ([True, 5], 'ok')):
    td = hand_tree(node, elements[:2], V)
    for renderer in (NestedJsonRenderer(), NestedTextRenderer()):
        kind, what = outcome(renderer, td)
        assert kind == expected, (V, kind, what)
        if V[0] is None:
            assert what == "'NoneType' object cannot be interpreted as an integer", what
kind, what = outcome(NestedJsonRenderer(), hand_tree(node, elements[:2], [-1, 5]))
assert what == [[{'id': '101000', 'description': '101000', 'members': [],
                  'factor': {'id': '031001', 'description': 'E031001', 'value': -1}}]], what
kind, what = outcome(NestedTextRenderer(), hand_tree(node, elements[:2], [True, 5]))
assert what == '\n'.join(['###### subset 1 of 1 ######', '101000', '....031001 E031001 True',
                          '    # --- 1 of True replications ---', '    001001 E001001 5']), what

# fewer member nodes than the count announces: the missing groups are empty
node = FixedReplicationNode(FixedReplicationDescriptor(101003, members=[elements[1]]))
node.members = [ValueDataNode(elements[1], 0)]
kind, what = outcome(NestedJsonRenderer(), hand_tree(node, elements[1:2], [9]))
assert (kind, what) == ('ok', [[{'id': '101003', 'description': '101003',
                                 'members': [[{'id': '001001', 'description': 'E001001', 'value': 9}], [], []]}]]), what
kind, what = outcome(NestedTextRenderer(), hand_tree(node, elements[1:2], [9]))
assert (kind, what) == ('ok', '\n'.join(['###### subset 1 of 1 ######', '101003',
                                         '    # --- 1 of 3 replications ---', '    001001 E001001 9',
                                         '    # --- 2 of 3 replications ---',
                                         '    # --- 3 of 3 replications ---'])), what

# the number of members is asked for before the repetitions are counted, even if there are none
for descriptor, expected in ((NoMembersCount(), 'AttributeError'), (NoMembersCountNoRepeats(), 'AttributeError')):
    node = FixedReplicationNode(descriptor)
    node.members = [ValueDataNode(elements[1], 0), ValueDataNode(elements[2], 1)]
    td = hand_tree(node, elements[1:], [1, 2])
    for renderer in (NestedJsonRenderer(), NestedTextRenderer()):
        kind, what = outcome(renderer, td)
        assert kind == expected and 'n_members' in what, (kind, what)

# n_repeats of a delayed replication descriptor cannot be asked for
node = FixedReplicationNode(DelayedReplicationDescriptor(101000, members=[elements[1]], factor=elements[0]))
for renderer in (NestedJsonRenderer(), NestedTextRenderer()):
    kind, what = outcome(renderer, hand_tree(node, elements[1:], [1, 2]))
    assert kind == 'PyBufrKitError', (kind, what)

# a value node whose index is out of range
td = TemplateData(None, False, [elements[:1]], [[1]], [{}])
td.decoded_nodes_all_subsets[0].append(ValueDataNode(elements[1], 3))
for renderer in (NestedJsonRenderer(), NestedTextRenderer()):
    assert outcome(renderer, td)[0] == 'IndexError'

# both are renderers, and what they do not render stays as it was
for cls in (NestedJsonRenderer, NestedTextRenderer):
    assert issubclass(cls, Renderer)
    assert outcome(cls(), 12)[0] == 'PyBufrKitError'
assert outcome(NestedTextRenderer(), elements[0])[0] == 'PyBufrKitError'  # not a Descriptor
real = ElementDescriptor(1001, 'X', 'NUMERIC', 0, 0, 7, 'NUMERIC', 0, 3)
assert outcome(NestedTextRenderer(), real)[0] == 'NotImplementedError'
assert outcome(NestedJsonRenderer(), real) == ('ok', None)

expected_branches = {
    'description: marker', 'description: name',
    'description: class name of ValueDataNode', 'description: class name of AssociatedFieldNode',
    'attributes', 'attributes on a replication factor', 'fixed replication',
    'delayed replication, count 0', 'delayed replication, count >0', 'no value node without members',
}
assert expected_branches <= seen, expected_branches - seen
print('refactor 5 demo: %d sample files, %d hand-built messages, error cases: OK' % (n_files, len(HAND)))
