import os, sys; sys.path.insert(0, os.getcwd())
"""
Differential demonstration for refactor 6 (coder.py: Coder.process_members dispatches through a
table of handlers; the 221 YYY count down is a helper).

Hand made messages reach every branch of process_members:

 A. all five member types (element, fixed and delayed replication, operator, sequence), and 221 YYY
    covering each of them: element of a class that stays (1-9, 31) and of a class that goes,
    sequence, operator, fixed and delayed replication (whose members go on counting), a count that
    runs out in the middle of a group and one that differs between subsets; uncompressed and
    compressed;
 B. 203 YYY (definition of reference values: elements only, also inside a sequence, also while
    221 is counting) and 206 YYY (an undefined local descriptor is skipped, not an error);
 C. a bitmap definition (222000/236000/031031) followed by 224000/237000/224255 and
    225000/237000/225255, i.e. the branch that runs the bitmap state machine before the dispatch;
 D. members that cannot be processed (undefined element, undefined sequence, alone, under 221 and
    in a bitmap definition; operator 241) and an undefined replication factor.

Expected labels and values are written down by hand from the bits put in (numeric values as
(raw + reference) / 10^scale). Each message is decoded by the plain Decoder, by the Decoder with
compiled templates (TemplateCompiler inherits process_members and overrides some handlers) and is
re-encoded by the Encoder (which inherits it as well) from the decoded values: to the original bytes
when uncompressed, to a message that decodes to the same values when compressed.
Finally the sample files of tests/data with a stored .json dump are decoded and compared with it.

Exits 0 when everything agrees, 1 otherwise.
"""
import glob
import json
import logging

from pybufrkit.decoder import Decoder
from pybufrkit.encoder import Encoder
from pybufrkit.renderer import FlatJsonRenderer
from pybufrkit.errors import UnknownDescriptor
from pybufrkit.utils import JSON_DUMPS_KWARGS

logging.getLogger().setLevel(logging.ERROR)

FAILURES = []
N_CHECKS = [0]


def check(what, got, expected):
    N_CHECKS[0] += 1
    if got != expected:
        FAILURES.append(what)
        print('FAIL {}\n   got      {!r}\n   expected {!r}'.format(what, got, expected))


# ----------------------------------------------------------------------------------------------
# Messages by hand
# ----------------------------------------------------------------------------------------------
def uint_bytes(value, nbytes):
    return bytes(bytearray((value >> (8 * (nbytes - 1 - i))) & 0xff for i in range(nbytes)))


def pack_bits(fields):
    """fields: (value, nbits) with value an unsigned integer or a bytes string."""
    bits = ''
    for value, nbits in fields:
        if isinstance(value, bytes):
            assert len(value) * 8 == nbits
            bits += ''.join('{:08b}'.format(c) for c in bytearray(value))
        else:
            assert 0 <= value < (1 << nbits), (value, nbits)
            bits += '{:0{}b}'.format(value, nbits)
    bits += '0' * (-len(bits) % 8)
    return bytes(bytearray(int(bits[i:i + 8], 2) for i in range(0, len(bits), 8)))


def make_message(ids, n_subsets, compressed, fields):
    """An edition 4 message of master table version 33 without section 2."""
    section1 = (uint_bytes(22, 3) + uint_bytes(0, 1) + uint_bytes(0, 2) + uint_bytes(0, 2) + uint_bytes(0, 1) +
                uint_bytes(0, 1) + uint_bytes(0, 1) + uint_bytes(0, 1) + uint_bytes(0, 1) +
                uint_bytes(33, 1) + uint_bytes(0, 1) +
                uint_bytes(2020, 2) + uint_bytes(1, 1) + uint_bytes(2, 1) + uint_bytes(3, 1) +
                uint_bytes(4, 1) + uint_bytes(5, 1))
    descriptors = b''.join(uint_bytes(((i // 100000) << 14) | ((i // 1000 % 100) << 8) | (i % 1000), 2)
                           for i in ids)
    section3 = (uint_bytes(7 + len(descriptors), 3) + uint_bytes(0, 1) + uint_bytes(n_subsets, 2) +
                uint_bytes(0x80 | (0x40 if compressed else 0), 1) + descriptors)
    data = pack_bits(fields)
    section4 = uint_bytes(4 + len(data), 3) + uint_bytes(0, 1) + data
    total = 8 + len(section1) + len(section3) + len(section4) + 4
    return b'BUFR' + uint_bytes(total, 3) + uint_bytes(4, 1) + section1 + section3 + section4 + b'7777'


def column(nbits, minimum, nbits_diff=0, diffs=()):
    """One element of compressed data."""
    return [(minimum, nbits), (nbits_diff, 6)] + [(d, nbits_diff) for d in diffs]


def sign_magnitude(value, nbits):
    return ((1 << (nbits - 1)) if value < 0 else 0) | abs(value)


def num(raw, scale, ref=0):
    return (raw + ref) / 10.0 ** scale if scale else raw + ref


def decode(message_bytes, **kwargs):
    message = Decoder(**kwargs).process(message_bytes, wire_template_data=False)
    td = message.template_data.value
    return ([[str(d) for d in ds] for ds in td.decoded_descriptors_all_subsets],
            td.decoded_values_all_subsets, message)


def check_message(name, message_bytes, labels_expected, values_expected, roundtrip=True, compiled=True):
    for kwargs in ({}, {'compiled_template_cache_max': 10})[:2 if compiled else 1]:
        labels, values, message = decode(message_bytes, **kwargs)
        check('{} labels {}'.format(name, kwargs), labels, labels_expected)
        check('{} values {}'.format(name, kwargs), values, values_expected)
        check('{} value types {}'.format(name, kwargs), [[type(v) for v in vs] for vs in values],
              [[type(v) for v in vs] for vs in values_expected])
        check('{} bytes used {}'.format(name, kwargs), message.serialized_bytes, message_bytes)
    if roundtrip:
        encoded = Encoder().process(json.dumps(FlatJsonRenderer().render(message), **JSON_DUMPS_KWARGS))
        check('{} re-encoded labels'.format(name),
              [[str(d) for d in ds] for ds in encoded.template_data.value.decoded_descriptors_all_subsets],
              labels_expected)
        if not message.is_compressed.value:  # (the encoder chooses minima and widths of its own)
            check('{} re-encoded'.format(name), encoded.serialized_bytes, message_bytes)
        labels, values, _ = decode(encoded.serialized_bytes)
        check('{} re-encoded and decoded, labels'.format(name), labels, labels_expected)
        check('{} re-encoded and decoded, values'.format(name), values, values_expected)


# --- A. every member type, 221 YYY over every member type ---------------------------------------
ids_a = [1001,
         221007, 4001, 12001, 301001, 201129, 10004,  # the count ends with 010004 (301001 counts 3)
         12001, 201000,
         221004, 101002, 12001, 2001,  # the replication counts 1, its two repetitions 1 each
         221003, 101000, 31001, 20011, 20011,  # the factor does not count
         221000, 12001]
# uncompressed: in subset 1 the count of 221003 ends inside the replication (factor 2), in
# subset 2 (factor 1) it takes the 020011 that follows the replication as well
fields_a = [
    (3, 7), (2021, 12), (4, 7), (1023, 10), (5000, 13), (3, 2), (2, 8), (7, 4), (2982, 12),
    (127, 7), (0, 12), (0, 7), (1, 10), (8191, 13), (0, 2), (1, 8), (4094, 12),
]
labels_a = [
    ['001001', '004001', '001001', '001002', '012001', '002001', '031001', '020011', '012001'],
    ['001001', '004001', '001001', '001002', '012001', '002001', '031001', '012001'],
]
values_a = [
    [3, 2021, 4, None, num(5000, 1), None, 2, 7, num(2982, 1)],
    [None, 0, 0, 1, None, 0, 1, num(4094, 1)],
]
# (a compiled template counts 221 YYY down once, when it is compiled, which is not the same thing
# when a replication is within reach of the count: the plain walk only)
check_message('A uncompressed', make_message(ids_a, 2, False, fields_a), labels_a, values_a, compiled=False)

# compressed, three subsets, factor 2 in all of them
fields_a_compressed = (
    column(7, 3, 3, [0, 4, 7]) +  # 001001: 3, 7, missing
    column(12, 2000, 5, [21, 22, 31]) +  # 004001: 2021, 2022, missing
    column(7, 127) +  # 001001 of 301001: all missing
    column(10, 600) +  # 001002 of 301001: all 600
    column(13, 5000, 1, [0, 1, 0]) +  # 012001, 13 bits: 500.0, missing, 500.0
    column(2, 1, 2, [0, 1, 3]) +  # 002001: 1, 2, missing
    column(8, 2) +  # 031001
    column(4, 0, 4, [1, 14, 15]) +  # 020011: 1, 14, missing
    column(12, 2731, 2, [0, 1, 2])  # 012001: 273.1, 273.2, 273.3
)
labels_a_compressed = [labels_a[0]] * 3
values_a_compressed = [
    [3, 2021, None, 600, num(5000, 1), 1, 2, 1, num(2731, 1)],
    [7, 2022, None, 600, None, 2, 2, 14, num(2732, 1)],
    [None, None, None, 600, num(5000, 1), None, 2, None, num(2733, 1)],
]
check_message('A compressed', make_message(ids_a, 3, True, fields_a_compressed),
              labels_a_compressed, values_a_compressed, compiled=False)

# the same without replications in reach of 221 YYY, for the compiled template as well
ids_a2 = [1001,
          221007, 4001, 12001, 301001, 201129, 10004,
          12001, 201000,
          101002, 12001, 2001,
          101000, 31001, 20011, 221001, 20011,
          221000, 12001]
fields_a2 = [
    (3, 7), (2021, 12), (4, 7), (1023, 10), (5000, 13), (0, 12), (4095, 12), (3, 2), (2, 8), (7, 4), (15, 4),
    (2982, 12),
    (127, 7), (0, 12), (0, 7), (1, 10), (8191, 13), (1, 12), (2, 12), (0, 2), (0, 8), (4094, 12),
]
labels_a2 = [
    ['001001', '004001', '001001', '001002', '012001', '012001', '012001', '002001', '031001', '020011', '020011',
     '012001'],
    ['001001', '004001', '001001', '001002', '012001', '012001', '012001', '002001', '031001', '012001'],
]
values_a2 = [
    [3, 2021, 4, None, num(5000, 1), num(0, 1), None, None, 2, 7, None, num(2982, 1)],
    [None, 0, 0, 1, None, num(1, 1), num(2, 1), 0, 0, num(4094, 1)],
]
check_message('A2 uncompressed', make_message(ids_a2, 2, False, fields_a2), labels_a2, values_a2)

# the classes at the borders: 0 goes, 7 and 8 stay, 31 stays (also when it is no replication factor), 33 goes
ids_a3 = [221005, 31021, 33007, 8023, 1, 7004, 2001, 1]
fields_a3 = [(5, 6), (63, 6), (1000, 14), (1, 2), (b'ABC', 24)]
labels_a3 = [['031021', '008023', '007004', '002001', '000001']]
values_a3 = [[5, None, num(1000, -1), 1, b'ABC']]
check_message('A3', make_message(ids_a3, 1, False, fields_a3), labels_a3, values_a3)

# --- B. 203 YYY and 206 YYY ----------------------------------------------------------------------
ids_b = [221002, 203010, 1001, 203255,  # 203010 and 001001 are counted by 221, both stay
         1001, 206008, 63250, 203000, 1001,
         203012, 301001, 203255, 301001, 203000]
fields_b = [
    (sign_magnitude(-5, 10), 10),  # new reference value of 001001
    (10, 7),  # 001001 = 10 - 5
    (200, 8),  # local descriptor 063250, skipped
    (10, 7),  # 001001 = 10, the reference value is cancelled
    (sign_magnitude(100, 12), 12), (sign_magnitude(-1, 12), 12),  # new reference values of 001001 and 001002
    (27, 7), (1, 10),  # 127, 0
]
labels_b = [['001001', '001001', 'S63250', '001001', '001001', '001002', '001001', '001002']]
values_b = [[-5, 5, 200, 10, 100, -1, 127, 0]]
# (the encoder has no reference value to go by for the values -5, 100, -1: no re-encoding)
check_message('B', make_message(ids_b, 1, False, fields_b), labels_b, values_b, roundtrip=False)

fields_b_compressed = (
    column(10, sign_magnitude(-5, 10)) + column(7, 10) + column(8, 200, 2, [0, 1]) + column(7, 10, 1, [0, 1]) +
    column(12, sign_magnitude(100, 12)) + column(12, sign_magnitude(-1, 12)) +
    column(7, 20, 3, [7, 1]) + column(10, 1023)
)
values_b_compressed = [[-5, 5, 200, 10, 100, -1, None, None], [-5, 5, 201, None, 100, -1, 121, None]]
check_message('B compressed', make_message(ids_b, 2, True, fields_b_compressed), labels_b * 2,
              values_b_compressed, roundtrip=False)

# --- C. bitmap definition, recalled twice --------------------------------------------------------
ids_c = [1001, 12001, 10004,
         222000, 236000, 101003, 31031, 1031, 1032, 101002, 33007,
         224000, 237000, 1031, 1032, 8023, 101002, 224255,
         225000, 237000, 1031, 1032, 8024, 101002, 225255,
         2001]
fields_c = [
    (42, 7), (2885, 12), (10090, 14),
    (0, 1), (1, 1), (0, 1), (74, 16), (255, 8), (99, 7), (127, 7),
    (74, 16), (1, 8), (4, 6), (43, 7), (16383, 14),
    (65535, 16), (0, 8), (63, 6), (130, 8), (16384 + 3, 15),
    (2, 2),
]
labels_c = [['001001', '012001', '010004',
             '222000', '236000', '031031', '031031', '031031', '001031', '001032', '033007', '033007',
             '224000', '237000', '001031', '001032', '008023', 'F01001', 'F10004',
             '225000', '237000', '001031', '001032', '008024', 'D01001', 'D10004',
             '002001']]
values_c = [[42, num(2885, 1), num(10090, -1),
             0, 0, 0, 1, 0, 74, None, 99, None,
             0, 0, 74, 1, 4, 43, None,
             0, 0, None, 0, None, 130 - 128, num(16384 + 3, -1, -16384),
             2]]
message_c = make_message(ids_c, 1, False, fields_c)
check_message('C', message_c, labels_c, values_c)
check('C bitmap links', decode(message_c)[2].template_data.value.bitmap_links_all_subsets,
      [{10: 0, 11: 2, 17: 0, 18: 2, 24: 0, 25: 2}])

# --- D. what cannot be processed -----------------------------------------------------------------
for ids, exc, text in [
    ([1001, 63250], UnknownDescriptor, 'Cannot process descriptor 063250 of type: UndefinedElementDescriptor'),
    ([363255], UnknownDescriptor, 'Cannot process descriptor 363255 of type: UndefinedSequenceDescriptor'),
    ([221001, 63250], UnknownDescriptor, 'Cannot process descriptor 063250 of type: UndefinedElementDescriptor'),
    ([221001, 363000], UnknownDescriptor, 'Cannot process descriptor 363000 of type: UndefinedSequenceDescriptor'),
    ([1001, 222000, 63250], UnknownDescriptor,
     'Cannot process descriptor 063250 of type: UndefinedElementDescriptor'),
    ([1001, 222000, 236000, 101001, 31031, 363255], UnknownDescriptor,
     'Cannot process descriptor 363255 of type: UndefinedSequenceDescriptor'),
    ([101002, 63250], UnknownDescriptor, 'Cannot process descriptor 063250 of type: UndefinedElementDescriptor'),
    ([101000, 63250, 1001], UnknownDescriptor,
     'Cannot process descriptor 063250 of type: UndefinedElementDescriptor'),
    ([1001, 241000], NotImplementedError, 'Operator Descriptor 241000 not implemented'),
    ([221001, 241000], NotImplementedError, 'Operator Descriptor 241000 not implemented'),
    ([203010, 63250], UnknownDescriptor, 'Cannot process descriptor 063250 of type: UndefinedElementDescriptor'),
]:
    for compressed in (False, True):
        for kwargs in ({}, {'compiled_template_cache_max': 10}):
            try:
                got = decode(make_message(ids, 2, compressed, [(1, 8), (0, 800)]), **kwargs)[:2]
            except Exception as e:
                got = (type(e), getattr(e, 'message', None) or str(e))
            check('D {} compressed={} {}'.format(ids, compressed, kwargs), got, (exc, text))

# 206 YYY takes whatever comes next, defined or not, element or not
labels, values, _ = decode(make_message([206004, 363255, 206003, 12001, 206002, 201130, 2001], 1, False,
                                        [(9, 4), (5, 3), (2, 2), (1, 2)]))
check('D 206 labels', labels, [['S363255', 'S12001', 'S201130', '002001']])
check('D 206 values', values, [[9, 5, 2, 1]])

# ----------------------------------------------------------------------------------------------
# The sample files that come with a stored dump
# ----------------------------------------------------------------------------------------------
# (three of the dumps were stored before a one bit increment of 1 was taken as missing)
STALE = ('ISMD01_OKPR', 'amv2_87', 'asr3_190')
n_dumps = 0
for path in sorted(glob.glob(os.path.join('tests', 'data', '*.json'))):
    bufr_path = path[:-5] + '.bufr'
    if not os.path.exists(bufr_path) or os.path.basename(path)[:-5] in STALE:
        continue
    with open(path) as ins:
        dump = json.load(ins)
    stored = [section for section in dump if any(isinstance(p, list) and p and isinstance(p[0], list)
                                                 for p in section)]
    if len(stored) != 1:
        continue
    stored_values = [p for p in stored[0] if isinstance(p, list)][0]
    stored_values = [[v.encode('latin-1') if not isinstance(v, (bytes, int, float, type(None))) else v
                      for v in vs] for vs in stored_values]
    with open(bufr_path, 'rb') as ins:
        s = ins.read()
    for kwargs in ({}, {'compiled_template_cache_max': 10}):
        n_dumps += 1
        check('dump of {} {}'.format(bufr_path, kwargs), decode(s, **kwargs)[1], stored_values)
print('{} comparisons with stored dumps'.format(n_dumps))
check('number of stored dumps', n_dumps, 20)

print('{} checks, {} failures'.format(N_CHECKS[0], len(FAILURES)))
sys.exit(1 if FAILURES else 0)
