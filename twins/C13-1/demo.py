import os, sys; sys.path.insert(0, os.getcwd())

import hashlib
import json
import logging
import pickle
import random
import subprocess

logging.disable(logging.WARNING)  # silence the 'fallback' warnings of the tables module

from pybufrkit import tables as tables_module
from pybufrkit.constants import DEFAULT_TABLES_DIR
from pybufrkit.dataquery import NodePathParser, DataQuerent
from pybufrkit.decoder import Decoder
from pybufrkit.encoder import Encoder
from pybufrkit.renderer import (FlatTextRenderer, NestedTextRenderer,
                                FlatJsonRenderer, NestedJsonRenderer)
from pybufrkit.tables import TableGroupCacheManager

assert os.path.dirname(os.path.abspath(tables_module.__file__)) == os.path.join(os.getcwd(), 'pybufrkit'), \
    'run with the current directory = worktree root'

DATA_DIR = os.path.join('tests', 'data')
REAL_LIMIT = 50


def read_bytes(name):
    with open(os.path.join(DATA_DIR, name), 'rb') as ins:
        return ins.read()


def read_text(name):
    with open(os.path.join(DATA_DIR, name)) as ins:
        return ins.read()


# --------------------------------------------------------------------------
# Observation: everything that can be seen of a decoded / encoded message
def describe_descriptor(d):
    return (type(d).__name__, str(d), getattr(d, 'name', None), getattr(d, 'unit', None),
            getattr(d, 'scale', None), getattr(d, 'refval', None), getattr(d, 'nbits', None))


def observe_message(msg):
    """Values, labels, links, renderings and a query of a processed message."""
    td = msg.template_data.value
    parts = [
        repr(msg.table_group_key),
        repr(td.decoded_values_all_subsets),
        repr([[describe_descriptor(d) for d in ds] for ds in td.decoded_descriptors_all_subsets]),
        repr([sorted(links.items()) for links in td.bitmap_links_all_subsets]),
    ]
    for renderer_class in (FlatTextRenderer, NestedTextRenderer, FlatJsonRenderer, NestedJsonRenderer):
        parts.append(repr(renderer_class().render(msg)))
    path = '/{:06d}'.format(msg.unexpanded_descriptors.value[0])
    try:
        result = DataQuerent(NodePathParser()).query(msg, path)
        parts.append(repr(result.subset_indices()))
        parts.append(repr(result.all_values()))
        parts.append(repr(result.all_values(flat=True)))
        parts.append(FlatTextRenderer().render(result))
    except Exception as e:
        parts.append('QUERY-ERR {} {}'.format(type(e).__name__, e))
    return hashlib.sha256('\x00'.join(parts).encode('utf-8', 'backslashreplace')).hexdigest()


def run_item(item, decoder, encoder_by_version):
    """
    Perform the operation of a pool item and return (observation, message or None).
    A failing operation is observed by the type and text of its exception.
    """
    kind = item[0]
    try:
        if kind == 'dec':
            msg = decoder.process(item[2])
            return observe_message(msg), msg
        else:
            msg = encoder_by_version[item[3]].process(item[2])
            digest = hashlib.sha256(msg.serialized_bytes).hexdigest()
            return digest + observe_message(msg), msg
    except Exception as e:
        return 'ERR {} {}'.format(type(e).__name__, e), None


def make_coders(cache_max):
    decoder = Decoder(compiled_template_cache_max=cache_max)
    encoders = {
        None: Encoder(compiled_template_cache_max=cache_max),
        35: Encoder(compiled_template_cache_max=cache_max, master_table_version=35),
        7: Encoder(compiled_template_cache_max=cache_max, master_table_version=7),
    }
    return decoder, encoders


# --------------------------------------------------------------------------
# The pool: more table versions than the caches hold, good and bad messages
def build_pool():
    pool = []
    for stub in ('207003', 'ISMD01_OKPR', 'IUSK73_AMMC_182300', 'b002_95', 'g2nd_208',
                 'profiler_european', 'rado_250', 'uegabe', 'contrived', 'jaso_214'):
        pool.append(('dec', stub, read_bytes(stub + '.bufr')))

    # The same content under other master table versions (other labels, other table groups)
    for stub, versions in (('uegabe', (7, 16, 20, 35, 41)),
                           ('207003', (14, 16, 36)),
                           ('profiler_european', (6, 10)),
                           ('b002_95', (17,))):
        text = read_text(stub + '.json')
        for version in versions:
            data = Encoder(master_table_version=version).process(text).serialized_bytes
            pool.append(('dec', '{}@{}'.format(stub, version), data))

    # Failing decodes
    rado = read_bytes('rado_250.bufr')
    pool.append(('dec', 'invalid', read_bytes('multi_invalid_messages.bufr')))
    pool.append(('dec', 'truncated', rado[:len(rado) // 2]))
    pool.append(('dec', 'garbage', b'BUFR\x00\x00\x10\x04garbage!'))
    pool.append(('dec', 'nosignature', b'no start signature in here'))

    # Encodes, successful and failing (310060 is undefined in version 7)
    for stub, version in (('207003', None), ('uegabe', None), ('uegabe', 35), ('uegabe', 7),
                          ('profiler_european', 35), ('IUSK73_AMMC_182300', None), ('207003', 7)):
        pool.append(('enc', '{}->{}'.format(stub, version), read_text(stub + '.json'), version))
    return pool


def fresh_baselines(pool, demo_file):
    """Observation of each pool item as the FIRST operation of a fresh process."""
    jobs = [(mode, idx) for mode in ('plain', 'compiled') for idx in range(len(pool))]
    baselines = {}
    for start in range(0, len(jobs), 8):  # 8 children at a time
        procs = []
        for mode, idx in jobs[start:start + 8]:
            proc = subprocess.Popen([sys.executable, demo_file, '--fresh', mode],
                                    stdin=subprocess.PIPE, stdout=subprocess.PIPE, cwd=os.getcwd())
            procs.append((mode, idx, proc))
        for mode, idx, proc in procs:
            out, _ = proc.communicate(pickle.dumps(pool[idx]))
            assert proc.returncode == 0, (mode, idx)
            baselines[mode, idx] = out.decode().strip().splitlines()[-1]
    return baselines


def fresh_main(mode):
    """The child: nothing but this one operation has happened in the process."""
    item = pickle.loads(sys.stdin.buffer.read())
    decoder, encoders = make_coders(None if mode == 'plain' else 100)
    observation, _ = run_item(item, decoder, encoders)
    print(observation)


def filler_keys():
    """More than 50 table group keys that no pool message uses."""
    keys = []
    for root in (DEFAULT_TABLES_DIR + os.sep + '.', DEFAULT_TABLES_DIR + os.sep + os.sep):
        for version in range(6, 42):
            keys.append((root, version))
    return keys


def run_interleavings(pool, baselines, seeds=(1, 2), n_ops=26, cache_sizes=(None, 0, 1, 2, 100),
                      limits=(1, 2, 3, REAL_LIMIT), check=None):
    """
    Random interleavings of decode / encode / failing operations / queries and
    renderings of older message objects / table cache fillers, every result
    compared with the result of a fresh process.
    """
    fillers = filler_keys()
    n_checked = 0
    for seed in seeds:
        rng = random.Random(seed)
        for cache_max in cache_sizes:
            mode = 'plain' if cache_max is None else 'compiled'
            for limit in limits:
                tables_module.MAXIMUM_NUMBER_OF_CACHED_TABLE_GROUPS = limit
                decoder, encoders = make_coders(cache_max)
                kept = []  # message objects of earlier operations
                if limit == REAL_LIMIT:
                    # reach the real limit: more distinct table groups than it holds
                    for root, version in rng.sample(fillers, 58):
                        TableGroupCacheManager.get_table_group(tables_root_dir=root, master_table_version=version)
                for _ in range(n_ops):
                    dice = rng.random()
                    if dice < 0.15:
                        root, version = rng.choice(fillers)
                        TableGroupCacheManager.get_table_group(tables_root_dir=root, master_table_version=version)
                    elif dice < 0.35 and kept:
                        # query and render an older message object again
                        idx, msg = rng.choice(kept)
                        tail = observe_message(msg)
                        assert baselines[mode, idx].endswith(tail), \
                            ('old message object changed', pool[idx][1], cache_max, limit, seed)
                        n_checked += 1
                    else:
                        idx = rng.randrange(len(pool))
                        observation, msg = run_item(pool[idx], decoder, encoders)
                        assert observation == baselines[mode, idx], \
                            ('depends on history', pool[idx][1], cache_max, limit, seed)
                        n_checked += 1
                        if msg is not None:
                            kept.append((idx, msg))
                            del kept[:-6]
                    if check is not None:
                        check(decoder, encoders, cache_max, limit)
    tables_module.MAXIMUM_NUMBER_OF_CACHED_TABLE_GROUPS = REAL_LIMIT
    return n_checked


# --------------------------------------------------------------------------
# Checks specific to TableGroupCache.get
def key_of(version, root=DEFAULT_TABLES_DIR, local=None):
    return tables_module.TableGroupKey(root, ('0', '0_0', str(version)), local)


def describe_group(group):
    """What a table group answers to lookups (labels of a few descriptors)."""
    ids = (1001, 2017, 4001, 12101, 31001, 63255, 201130, 222000, 101000, 103002, 301011, 310060, 399999)
    return [describe_descriptor(group.lookup(i)) for i in ids] + \
           [[describe_descriptor(m) for m in group.template_from_ids(301011, 101000, 31001, 12101).members]]


def set_limit(limit):
    tables_module.MAXIMUM_NUMBER_OF_CACHED_TABLE_GROUPS = limit


def raises(exc_type, func, *args):
    try:
        func(*args)
    except Exception as e:
        assert type(e) is exc_type, (type(e), exc_type)
        return e
    raise AssertionError('{} not raised'.format(exc_type))


def check_table_group_cache_get():
    TableGroupCache = tables_module.TableGroupCache
    first_seen = {}

    def get_and_check(cache, key):
        group = cache.get(key)
        assert isinstance(group, tables_module.BufrTableGroup)
        assert group.key == key and cache._groups[key] is group
        assert [t.table_group_key for t in group] == [key] * 5
        assert [type(t).__name__ for t in group] == ['TableA', 'TableB', 'TableC', 'TableD', 'TableR']
        # extra entries are shared with the cache, not copied
        assert group.B.extra_entries is cache.extra_b_entries
        assert group.D.extra_entries is cache.extra_d_entries
        # same answers as the first time this key was ever loaded
        assert first_seen.setdefault(key, describe_group(group)) == describe_group(group)
        return group

    # hit: the very same object, nothing evicted; miss after eviction: a new but equal object
    set_limit(3)
    cache = TableGroupCache()
    g13 = get_and_check(cache, key_of(13))
    assert get_and_check(cache, key_of(13)) is g13
    g14 = get_and_check(cache, key_of(14))
    g15 = get_and_check(cache, key_of(15))
    assert list(cache._groups) == [key_of(13), key_of(14), key_of(15)]
    assert get_and_check(cache, key_of(14)) is g14  # a hit never evicts
    assert list(cache._groups) == [key_of(13), key_of(14), key_of(15)]
    g16 = get_and_check(cache, key_of(16))  # full: the latest entry (15) goes
    assert list(cache._groups) == [key_of(13), key_of(14), key_of(16)]
    g15_again = get_and_check(cache, key_of(15))
    assert g15_again is not g15 and g15_again == g15
    assert list(cache._groups) == [key_of(13), key_of(14), key_of(15)]
    assert cache.get(key_of(13)) is g13 and g16.key == key_of(16)

    # the limit lowered while the cache is full: len + 1 - limit entries go at the next miss
    set_limit(10)
    cache = TableGroupCache()
    for version in range(20, 27):
        get_and_check(cache, key_of(version))
    assert len(cache._groups) == 7
    set_limit(2)
    get_and_check(cache, key_of(20))  # hit: still 7 entries
    assert len(cache._groups) == 7
    get_and_check(cache, key_of(30))
    assert list(cache._groups) == [key_of(20), key_of(30)]
    set_limit(1)
    get_and_check(cache, key_of(31))
    assert list(cache._groups) == [key_of(31)]
    get_and_check(cache, key_of(31))
    assert list(cache._groups) == [key_of(31)]

    # a key with local tables and a key with another spelling of the root directory
    set_limit(2)
    local_key = key_of(13, local=('0', '98_0', '1'))
    other_root_key = key_of(13, root=DEFAULT_TABLES_DIR + os.sep + '.')
    g_local = get_and_check(cache, local_key)
    g_other = get_and_check(cache, other_root_key)
    assert list(cache._groups) == [key_of(31), other_root_key]
    assert g_local != g_other and g_local.lookup(1001).name == g_other.lookup(1001).name

    # failing load: the exception of the file system comes out, room was already
    # made, nothing is stored for the key, and the cache keeps working
    set_limit(2)
    cache = TableGroupCache()
    get_and_check(cache, key_of(13))
    get_and_check(cache, key_of(14))
    bad_key = key_of(999)
    raises(FileNotFoundError, cache.get, bad_key)
    assert list(cache._groups) == [key_of(13)]
    raises(FileNotFoundError, cache.get, key_of(13, root=os.path.join('no', 'such', 'dir')))
    assert list(cache._groups) == [key_of(13)]
    get_and_check(cache, key_of(14))
    assert list(cache._groups) == [key_of(13), key_of(14)]
    # not a TableGroupKey at all / not hashable
    raises(AttributeError, cache.get, ('x', 'y', 'z'))
    raises(TypeError, cache.get, [DEFAULT_TABLES_DIR, ('0', '0_0', '13'), None])
    assert list(cache._groups) == [key_of(13)]

    # degenerate limits
    set_limit(0)
    cache = TableGroupCache()
    e = raises(KeyError, cache.get, key_of(13))  # popitem on the empty dict
    assert 'popitem' in str(e) and len(cache._groups) == 0
    set_limit(-1)
    raises(KeyError, cache.get, key_of(13))
    set_limit(None)
    raises(TypeError, cache.get, key_of(13))
    set_limit(2.5)
    get_and_check(cache, key_of(13))
    get_and_check(cache, key_of(14))
    get_and_check(cache, key_of(15))  # 2 >= 2.5 is false: no eviction
    assert len(cache._groups) == 3
    raises(TypeError, cache.get, key_of(16))  # range() of a float
    assert len(cache._groups) == 3
    set_limit(float('inf'))
    get_and_check(cache, key_of(16))
    assert len(cache._groups) == 4

    # extra entries given to the cache reach the tables loaded afterwards
    set_limit(REAL_LIMIT)
    cache = TableGroupCache()
    assert not cache.has_extra_entries()
    cache.add_extra_entries({'063250': ['EXTRA ELEMENT', 'NUMERIC', 0, 0, 8, 'NUMERIC', 0, 3]}, {})
    group = cache.get(key_of(13))
    assert group.B.lookup(63250).name == 'EXTRA ELEMENT'
    assert type(TableGroupCache().get(key_of(13)).B.lookup(63250)).__name__ == 'UndefinedElementDescriptor'

    # the manager: the real limit of 50 is never exceeded and hits are stable
    set_limit(REAL_LIMIT)
    manager_cache = TableGroupCacheManager._TABLE_GROUP_CACHE
    for root, version in filler_keys():
        group = TableGroupCacheManager.get_table_group(tables_root_dir=root, master_table_version=version)
        assert TableGroupCacheManager.get_table_group_by_key(group.key) is group
        assert len(manager_cache._groups) <= REAL_LIMIT
        assert first_seen.setdefault(key_of(version), describe_group(group)) == describe_group(group)
    assert len(manager_cache._groups) == REAL_LIMIT


def check_after_each_op(decoder, encoders, cache_max, limit):
    assert len(TableGroupCacheManager._TABLE_GROUP_CACHE._groups) <= max(limit, REAL_LIMIT)


if __name__ == '__main__':
    if len(sys.argv) > 2 and sys.argv[1] == '--fresh':
        fresh_main(sys.argv[2])
        sys.exit(0)
    check_table_group_cache_get()
    pool = build_pool()
    baselines = fresh_baselines(pool, os.path.abspath(__file__))
    n_checked = run_interleavings(pool, baselines, seeds=(13,), n_ops=30, check=check_after_each_op)
    print('OK: {} operations gave the result of a fresh process'.format(n_checked))
