import os, sys; sys.path.insert(0, os.getcwd())
"""
Differential demonstration for refactor 7 (dataprocessor: value reader object,
replication tuple, shared reading of the Table B / D entries).

All messages are written bit by bit by the small writer below (no Encoder, no
tables involved) and the expected entries / decoded values are computed from
the same specifications by plain arithmetic.
"""
import logging

logging.disable(logging.CRITICAL)

from pybufrkit.decoder import Decoder, generate_bufr_message
from pybufrkit.dataprocessor import BufrTableDefinitionProcessor
from pybufrkit.errors import PyBufrKitError
from pybufrkit.tables import TableGroupCacheManager
from pybufrkit.templatedata import FixedReplicationNode, DelayedReplicationNode, SequenceNode

N_CHECKS = [0]


def check(condition, what):
    N_CHECKS[0] += 1
    if not condition:
        print('FAILED: {}'.format(what))
        sys.exit(1)


def reset_tables():
    cache = TableGroupCacheManager._TABLE_GROUP_CACHE
    cache.extra_b_entries.clear()
    cache.extra_d_entries.clear()
    TableGroupCacheManager.invalidate()


# ---------------------------------------------------------------- writing messages by hand
class Bits(object):
    def __init__(self):
        self.bits = []

    def uint(self, value, nbits):
        assert 0 <= value < (1 << nbits) or nbits == 0
        if nbits:
            self.bits.append(format(value, '0{}b'.format(nbits)))
        return self

    def chars(self, text, nchars):
        assert len(text) == nchars, (text, nchars)
        for c in text:
            self.uint(ord(c), 8)
        return self

    def to_bytes(self):
        s = ''.join(self.bits)
        s += '0' * (-len(s) % 8)
        return bytes(bytearray(int(s[i:i + 8], 2) for i in range(0, len(s), 8)))


def message(category, descriptors, data, n_subsets=1):
    """An edition 4 message, uncompressed, master table version 33, no local tables"""
    sec1 = Bits().uint(22, 24).uint(0, 8).uint(7, 16).uint(0, 16).uint(0, 8).uint(0, 8)
    sec1.uint(category, 8).uint(0, 8).uint(0, 8).uint(33, 8).uint(0, 8)
    sec1.uint(2020, 16).uint(1, 8).uint(2, 8).uint(3, 8).uint(4, 8).uint(5, 8)
    sec3 = Bits().uint(7 + 2 * len(descriptors), 24).uint(0, 8).uint(n_subsets, 16).uint(0x80, 8)
    for d in descriptors:
        sec3.uint(d // 100000, 2).uint(d // 1000 % 100, 6).uint(d % 1000, 8)
    payload = data.to_bytes()
    sec4 = Bits().uint(4 + len(payload), 24).uint(0, 8).to_bytes() + payload
    body = sec1.to_bytes() + sec3.to_bytes() + sec4 + b'7777'
    return b'BUFR' + Bits().uint(8 + len(body), 24).uint(4, 8).to_bytes() + body


class B(object):
    """Specification of one new Table B entry"""

    def __init__(self, fxy, line1, line2, unit, scale, refval, width, scale_sign=None, refval_sign=None):
        self.fxy, self.unit, self.scale, self.refval, self.width = fxy, unit, scale, refval, width
        self.line1, self.line2 = line1, line2
        self.scale_sign = scale_sign or ('+' if scale >= 0 else '-')
        self.refval_sign = refval_sign or ('+' if refval >= 0 else '-')

    def write(self, bits):
        bits.chars(self.fxy[0], 1).chars(self.fxy[1:3], 2).chars(self.fxy[3:], 3)
        bits.chars(self.line1.ljust(32), 32).chars(self.line2.ljust(32), 32)
        bits.chars(self.unit.center(24), 24)  # blanks on both sides
        bits.chars(self.scale_sign, 1).chars(str(abs(self.scale)).ljust(3), 3)
        bits.chars(self.refval_sign, 1).chars(str(abs(self.refval)).rjust(10), 10)
        bits.chars(str(self.width).center(3), 3)

    def expected(self):
        return self.fxy, [self.line1.rstrip() + self.line2.rstrip(), self.unit, self.scale, self.refval,
                          self.width, '', 0, 0]


class D(object):
    """Specification of one new Table D entry"""

    def __init__(self, fxy, name, members):
        self.fxy, self.name, self.members = fxy, name, members

    def write(self, bits):
        bits.chars(self.fxy[0], 1).chars(self.fxy[1:3], 2).chars(self.fxy[3:], 3)
        bits.chars(self.name.ljust(64), 64)
        bits.uint(len(self.members), 8)
        for member in self.members:
            bits.chars(member, 6)

    def expected(self):
        return self.fxy, [self.name.rstrip(), list(self.members)]


B_ENTRY = [300004]
D_ENTRY = [300003, 205064, 101000, 31001, 30]


def replicated(n_items, n, delayed, members):
    if delayed:
        return [100000 + n_items * 1000, 31001] + members
    assert 0 < n < 256
    return [100000 + n_items * 1000 + n] + members


def definition_message(a, b, d, a_delayed=True, b_delayed=True, d_delayed=True, n_subsets=1, category=11):
    descriptors = (replicated(3, len(a), a_delayed, [1, 2, 3]) +
                   replicated(1, len(b), b_delayed, B_ENTRY) +
                   replicated(5, len(d), d_delayed, D_ENTRY))
    bits = Bits()
    for _ in range(n_subsets):
        if a_delayed:
            bits.uint(len(a), 8)
        for entry, line1, line2 in a:
            bits.chars(entry, 3).chars(line1.ljust(32), 32).chars(line2.ljust(32), 32)
        if b_delayed:
            bits.uint(len(b), 8)
        for spec in b:
            spec.write(bits)
        if d_delayed:
            bits.uint(len(d), 8)
        for spec in d:
            spec.write(bits)
    return message(category, descriptors, bits, n_subsets=n_subsets)


def numeric(spec, raw):
    """What a raw number stands for under a Table B entry, worked out independently"""
    return (raw + spec.refval) * 10.0 ** (-spec.scale)


def same(actual, expected):
    if isinstance(expected, float):
        return actual is not None and abs(actual - expected) <= 1e-9 * max(1.0, abs(expected))
    return actual == expected and type(actual) is type(expected)


def decode_stream(stream):
    return list(generate_bufr_message(Decoder(), stream))


def values_of(bufr_message):
    return bufr_message.template_data.value.decoded_values_all_subsets[0]


def check_values(bufr_message, expected, what):
    actual = values_of(bufr_message)
    check(len(actual) == len(expected) and all(same(a, e) for a, e in zip(actual, expected)),
          '{}: {!r} != {!r}'.format(what, actual, expected))


def check_descriptor(bufr_message, index, spec, what):
    descriptor = bufr_message.template_data.value.decoded_descriptors_all_subsets[0][index]
    actual = (descriptor.id, descriptor.name, descriptor.unit, descriptor.scale, descriptor.refval, descriptor.nbits)
    expected = (int(spec.fxy),) + tuple(spec.expected()[1][:5])
    check(actual == expected, '{}: {!r} != {!r}'.format(what, actual, expected))


def check_registered(b, d, what):
    cache = TableGroupCacheManager._TABLE_GROUP_CACHE
    check(cache.extra_b_entries == dict(x.expected() for x in b), what + ': registered B entries')
    check(cache.extra_d_entries == dict(x.expected() for x in d), what + ': registered D entries')


def check_process(bufr_message, b, d, what):
    result = BufrTableDefinitionProcessor().process(bufr_message)
    expected = [[], dict(x.expected() for x in b), dict(x.expected() for x in d)]
    check(result == expected and type(result) is list and all(type(x) is dict for x in result[1:]),
          '{}: process gives {!r}, expected {!r}'.format(what, result, expected))


def check_raises(exception_type, text, func, what):
    try:
        func()
    except Exception as e:
        check(type(e) is exception_type and (text is None or str(e) == text),
              '{}: got {}: {}'.format(what, type(e).__name__, e))
    else:
        check(False, '{}: no exception'.format(what))


PREFIX = 'Error: Not a supported BUFR table definition message: '

A2 = [('240', 'NC240001 TABLE A ENTRY', 'LINE TWO'), ('241', 'NC241001', '')]

T1 = B('048001', 'TMPX     TABLE B ENTRY - TEMPERA', 'TURE X', 'K', 2, -1000, 17)
T2 = B('048002', 'HGTX', '', 'M', -1, 50, 9)
T3 = B('049003', 'NAMEX    TABLE B ENTRY', ' - A NAME', 'CCITT IA5', 0, 0, 40)
T4 = B('063001', 'CNTX', '', 'NUMERIC', 0, 0, 1)
# Any sign other than '+' is taken for a minus
T5 = B('055005', 'ODD', 'SIGNS', 'PA', -3, -7, 12, scale_sign=' ', refval_sign='x')

Q1 = D('348001', 'SEQX1    TABLE D ENTRY - PLAIN', ['048001', '048002'])
Q2 = D('363002', 'SEQX2', ['001001', '348001', '102002', '048002', '049003', '101000', '031001', '048001'])
Q3 = D('350003', '', [])


# ------------------------------------------------------------------ scenario 1: all delayed
def scenario_all_delayed():
    reset_tables()
    b, d = [T1, T2, T3, T4, T5], [Q1, Q2, Q3]
    definition = definition_message(A2, b, d)
    data1 = message(2, [363002, 12001, 48001], (
        Bits().uint(33, 7)  # 001001 as in the standard tables
        .uint(70000, 17).uint(300, 9)  # 348001
        .uint(1, 9).chars('ALPHA', 5).uint(2, 9).chars('BETA ', 5)  # 102002
        .uint(2, 8).uint(0, 17).uint(131070, 17)  # 101000 031001
        .uint(2931, 12)  # 012001 as in the standard tables
        .uint(99, 17)))
    data2 = message(2, [55005, 63001, 350003, 1001], Bits().uint(4000, 12).uint(0, 1).uint(5, 7))
    messages = decode_stream(definition + data1 + data2)
    check(len(messages) == 3, 'all delayed: three messages')
    check_registered(b, d, 'all delayed')
    check_values(messages[1], [
        33, numeric(T1, 70000), numeric(T2, 300),
        numeric(T2, 1), b'ALPHA', numeric(T2, 2), b'BETA ',
        2, numeric(T1, 0), numeric(T1, 131070),
        293.1, numeric(T1, 99)], 'all delayed: data 1')
    check_descriptor(messages[1], 1, T1, 'all delayed: 048001')
    check_descriptor(messages[1], 2, T2, 'all delayed: 048002')
    check_descriptor(messages[1], 4, T3, 'all delayed: 049003')
    check(messages[1].template_data.value.decoded_descriptors_all_subsets[0][0].name == 'WMO BLOCK NUMBER',
          'all delayed: 001001 keeps its standard meaning')
    check_values(messages[2], [numeric(T5, 4000), 0, 5], 'all delayed: data 2')
    check_descriptor(messages[2], 0, T5, 'all delayed: 055005')

    # the processor on the decoded message (bytes) and on text values
    reset_tables()
    definition_decoded = Decoder().process(definition)
    check_process(definition_decoded, b, d, 'all delayed, bytes')
    template_data = definition_decoded.template_data.value
    check(all(isinstance(v, (bytes, int)) for v in template_data.decoded_values), 'decoder gives bytes')
    template_data.decoded_values = [v.decode() if isinstance(v, bytes) else v for v in template_data.decoded_values]
    check_process(definition_decoded, b, d, 'all delayed, text')

    # the pieces the processor is made of
    processor = BufrTableDefinitionProcessor()
    nodes, values = template_data.decoded_nodes, template_data.decoded_values
    check(all(isinstance(node, DelayedReplicationNode) for node in nodes), 'all delayed: nodes')
    for node, n in zip(nodes, (2, 5, 3)):
        n_repeats, is_delayed = processor._get_n_repeats(node, values)
        check((n_repeats, is_delayed) == (n, True), 'all delayed: _get_n_repeats')
    next_value = processor._process_table_a_entries(nodes[0], values)
    check(next_value() == 5, 'all delayed: the first value behind the Table A entries is the number of B entries')
    check(next_value() + next_value() + next_value() == '048001', 'all delayed: then the first B entry')

    # values that end early: the reader runs off the end
    template_data.decoded_values = template_data.decoded_values[:-1]
    check_raises(IndexError, None, lambda: BufrTableDefinitionProcessor().process(definition_decoded),
                 'all delayed: truncated values')
    template_data.decoded_values = template_data.decoded_values[:7 + 5 * 11 - 3]
    check_raises(IndexError, None, lambda: BufrTableDefinitionProcessor().process(definition_decoded),
                 'all delayed: values truncated within the B entries')
    reset_tables()


# ------------------------------------------------------------------ scenario 2: all fixed
def scenario_all_fixed():
    reset_tables()
    b, d = [T2, T1], [Q1]
    definition = definition_message(A2, b, d, a_delayed=False, b_delayed=False, d_delayed=False)
    data = message(0, [348001, 48002], Bits().uint(12345, 17).uint(7, 9).uint(8, 9))
    messages = decode_stream(definition + data)
    check(len(messages) == 2, 'all fixed: two messages')
    check_registered(b, d, 'all fixed')
    check_values(messages[1], [numeric(T1, 12345), numeric(T2, 7), numeric(T2, 8)], 'all fixed: data')
    check_descriptor(messages[1], 0, T1, 'all fixed: 048001')

    reset_tables()
    definition_decoded = Decoder().process(definition)
    check_process(definition_decoded, b, d, 'all fixed')
    processor = BufrTableDefinitionProcessor()
    template_data = definition_decoded.template_data.value
    nodes, values = template_data.decoded_nodes, template_data.decoded_values
    check(all(isinstance(node, FixedReplicationNode) for node in nodes), 'all fixed: nodes')
    for node, n in zip(nodes, (2, 2, 1)):
        n_repeats, is_delayed = processor._get_n_repeats(node, values)
        check((n_repeats, is_delayed) == (n, False), 'all fixed: _get_n_repeats')
    next_value = processor._process_table_a_entries(nodes[0], values)
    check(next_value() + next_value() + next_value() == '048002', 'all fixed: B entries follow the A entries at once')
    reset_tables()


# ------------------------------------------------------------------ scenario 3: mixed, empty parts
def scenario_mixed():
    for a, a_delayed, b, b_delayed, d, d_delayed in [
        ([], True, [T4], False, [], True),
        (A2[:1], False, [], True, [Q3, Q1], False),
        (A2, True, [T1, T3], False, [Q1], True),
        (A2[:1], False, [T1], True, [Q1], False),
        ([], True, [], True, [], True),
    ]:
        reset_tables()
        what = 'mixed {}{}{} {}/{}/{}'.format(
            *[int(x) for x in (a_delayed, b_delayed, d_delayed, len(a), len(b), len(d))])
        definition = definition_message(a, b, d, a_delayed, b_delayed, d_delayed)
        messages = decode_stream(definition + message(0, [1001, 12001], Bits().uint(3, 7).uint(1, 12)))
        check(len(messages) == 2, what + ': two messages')
        check_registered(b, d, what)
        check_values(messages[1], [3, 0.1], what + ': standard data')
        reset_tables()
        check_process(Decoder().process(definition), b, d, what)
    reset_tables()


# ------------------------------------------------------------------ scenario 4: two definition messages
def scenario_redefinition():
    reset_tables()
    wider = B('048001', 'TMPX     REDEFINED', '', 'DEGREES', 0, 5, 20)
    stream = (definition_message(A2, [T1, T2], [Q1]) +
              message(0, [348001], Bits().uint(500, 17).uint(9, 9)) +
              definition_message([], [wider], [Q3], b_delayed=False) +
              message(0, [348001, 350003], Bits().uint(500, 20).uint(9, 9)))
    messages = decode_stream(stream)
    check(len(messages) == 4, 'redefinition: four messages')
    check_values(messages[1], [numeric(T1, 500), numeric(T2, 9)], 'redefinition: before')
    check_values(messages[3], [505, numeric(T2, 9)], 'redefinition: after')
    check_descriptor(messages[3], 0, wider, 'redefinition: 048001')
    cache = TableGroupCacheManager._TABLE_GROUP_CACHE
    check(cache.extra_b_entries == dict([T2.expected(), wider.expected()]), 'redefinition: B entries add up')
    check(cache.extra_d_entries == dict([Q1.expected(), Q3.expected()]), 'redefinition: D entries add up')
    reset_tables()


# ------------------------------------------------------------------ messages that are not definitions
def scenario_not_a_definition():
    reset_tables()
    b_bits = Bits()
    T1.write(b_bits)
    fxy = Bits().chars('0', 1).chars('48', 2).chars('001', 3)
    name64 = 'X' * 64
    cases = [
        # two subsets
        (definition_message(A2, [T1], [Q1], n_subsets=2), PyBufrKitError,
         PREFIX + 'Expect only one subset for defining BUFR tables, got 2'),
        # two and four nodes
        (message(11, [103000, 31001, 1, 2, 3, 101000, 31001, 300004], Bits().uint(0, 8).uint(0, 8)),
         PyBufrKitError, PREFIX + 'Expect 3 sections in template data for defining BUFR tables'),
        (message(11, [103000, 31001, 1, 2, 3, 101000, 31001, 300004, 105000, 31001] + D_ENTRY + [1001],
                 Bits().uint(0, 8).uint(0, 8).uint(0, 8).uint(1, 7)),
         PyBufrKitError, PREFIX + 'Expect 3 sections in template data for defining BUFR tables'),
        # first / second / third part not replicated
        (message(11, [1001, 101000, 31001, 300004, 105000, 31001] + D_ENTRY, Bits().uint(1, 7).uint(0, 8).uint(0, 8)),
         PyBufrKitError, PREFIX + 'Expect table entries to be replicated'),
        (message(11, [103000, 31001, 1, 2, 3, 300004, 105000, 31001] + D_ENTRY,
                 _bits_join(Bits().uint(0, 8), b_bits, Bits().uint(0, 8))),
         PyBufrKitError, PREFIX + 'Expect table entries to be replicated'),
        (message(11, [103001, 1, 2, 3, 101000, 31001, 300004, 300003],
                 _bits_join(Bits().chars('240', 3).chars(' ' * 32, 32).chars(' ' * 32, 32).uint(0, 8), fxy)),
         PyBufrKitError, PREFIX + 'Expect table entries to be replicated'),
        # members other than those of table entries, fixed and delayed
        (message(11, [102000, 31001, 2, 3, 101000, 31001, 300004, 105000, 31001] + D_ENTRY,
                 Bits().uint(0, 8).uint(0, 8).uint(0, 8)),
         PyBufrKitError, PREFIX + 'Unexpected members of Table A entries'),
        (message(11, [101001, 300002, 101000, 31001, 300004, 105000, 31001] + D_ENTRY,
                 Bits().chars(' ' * 32, 32).chars(' ' * 32, 32).uint(0, 8).uint(0, 8)),
         PyBufrKitError, PREFIX + 'Unexpected members of Table A entries'),
        (message(11, [103000, 31001, 1, 2, 3, 101000, 31001, 300003, 105000, 31001] + D_ENTRY,
                 _bits_join(Bits().uint(0, 8).uint(1, 8), fxy, Bits().uint(0, 8))),
         PyBufrKitError, PREFIX + 'Unexpected members of Table B entries'),
        (message(11, [103000, 31001, 1, 2, 3, 101001, 300003, 105000, 31001] + D_ENTRY,
                 _bits_join(Bits().uint(0, 8), fxy, Bits().uint(0, 8))),
         PyBufrKitError, PREFIX + 'Unexpected members of Table B entries'),
        (message(11, [103000, 31001, 1, 2, 3, 101000, 31001, 300004, 102000, 31001, 300003, 205064],
                 _bits_join(Bits().uint(0, 8).uint(0, 8).uint(1, 8), fxy, Bits().chars(name64, 64))),
         PyBufrKitError, PREFIX + 'Unexpected members of Table D entries'),
        (message(11, [103000, 31001, 1, 2, 3, 101000, 31001, 300004, 102001, 300003, 205064],
                 _bits_join(Bits().uint(0, 8).uint(0, 8), fxy, Bits().chars(name64, 64))),
         PyBufrKitError, PREFIX + 'Unexpected members of Table D entries'),
        # a B entry whose width is not a number
        (definition_message([], [B('048009', 'BAD', '', 'M', 0, 0, 'abc')], []), ValueError, None),
    ]
    follow_up = message(0, [1001, 12001], Bits().uint(3, 7).uint(1, 12))
    for i, (raw, exception_type, text) in enumerate(cases):
        what = 'not a definition, case {}'.format(i)
        bufr_message = Decoder().process(raw)
        check(bufr_message.data_category.value == 11, what + ': category 11')
        check_raises(exception_type, text, lambda: BufrTableDefinitionProcessor().process(bufr_message), what)
        if exception_type is PyBufrKitError:
            # In a stream it is an ordinary message: given out, nothing registered, the next one decoded
            messages = decode_stream(raw + follow_up)
            check(len(messages) == 2, what + ': stream goes on')
            check_values(messages[1], [3, 0.1], what + ': next message')
        else:
            check_raises(exception_type, text, lambda: decode_stream(raw + follow_up), what + ': stream')
        check_registered([], [], what)
        check(not TableGroupCacheManager.has_extra_entries(), what + ': no extra entries')
    # a node that is neither kind of replication
    definition_decoded = Decoder().process(cases[4][0])
    definition_decoded.wire()
    template_data = definition_decoded.template_data.value
    check(isinstance(template_data.decoded_nodes[1], SequenceNode), 'second node is a sequence')
    check_raises(PyBufrKitError, PREFIX + 'Expect table entries to be replicated',
                 lambda: BufrTableDefinitionProcessor()._get_n_repeats(
                     template_data.decoded_nodes[1], template_data.decoded_values), '_get_n_repeats on a sequence')
    reset_tables()


def _bits_join(*parts):
    joined = Bits()
    for part in parts:
        joined.bits.extend(part.bits)
    return joined


if __name__ == '__main__':
    scenario_all_delayed()
    scenario_all_fixed()
    scenario_mixed()
    scenario_redefinition()
    scenario_not_a_definition()
    print('OK: {} checks'.format(N_CHECKS[0]))
