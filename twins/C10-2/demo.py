import os, sys; sys.path.insert(0, os.getcwd())
import copy
import glob
import itertools
import random

import pybufrkit
assert os.path.dirname(os.path.dirname(os.path.abspath(pybufrkit.__file__))) == os.getcwd(), pybufrkit.__file__

from pybufrkit.decoder import Decoder
from pybufrkit.encoder import Encoder
from pybufrkit.errors import PyBufrKitError
from pybufrkit.renderer import FlatJsonRenderer

DATA_DIR = os.path.join('tests', 'data')
META_SKIP = {'length', 'section_length', 'n_subsets', 'template_data'}


# --------------------------------------------------------------------------
# inputs
# --------------------------------------------------------------------------
def make_json(n_subsets, compressed, rows):
    """A small edition 4 message: 301011 (y/m/d), 012101 (numeric, scale 2),
    001015 (20 byte string), 020011 (code table), 002001 (code table)."""
    return [
        ['BUFR', 0, 4],
        [22, 0, 1, 0, 0, False, '0000000', 2, 4, 0, 18, 0, 2016, 2, 18, 23, 0, 0],
        [0, '00000000', n_subsets, True, compressed, '000000',
         [301011, 12101, 1015, 20011, 2001]],
        [0, '00000000', [list(r) for r in rows]],
        ['7777'],
    ]


def generated_rows():
    name = lambda s: s.ljust(20)
    return [
        # y     m   d   temp     name             cloud  station
        [2016,  2,  18, 273.15,  name('ALPHA'),   3,     1],
        [2016,  2,  19, 280.01,  name('BRAVO'),   3,     None],
        [2016,  None, 19, None,  None,            3,     None],
        [2016,  2,  18, 273.15,  name('ALPHA'),   3,     1],
        [2016,  12, 1,  199.99,  name('ECHO'),    None,  None],
        [2016,  2,  20, 280.01,  None,            7,     None],
    ]


def build_inputs(decoder, corpus=True):
    """Yield (label, source message) pairs: generated, then sample corpus."""
    rows = generated_rows()
    encoder = Encoder()
    for compressed in (False, True):
        for n in (1, 2, len(rows)):
            encoded = encoder.process(make_json(n, compressed, rows[:n]))
            yield ('generated n=%d compressed=%s' % (n, compressed),
                   decoder.process(encoded.serialized_bytes))
    if corpus:
        for base in ('contrived', '207003', 'ISMD01_OKPR', 'g2nd_208', 'b005_89',
                     'jaso_214', 'IUSK73_AMMC_182300', 'b002_95', 'uegabe'):
            with open(os.path.join(DATA_DIR, base + '.bufr'), 'rb') as ins:
                yield base, decoder.process(ins.read())


def index_collections(n, rng):
    """Non-empty in-range collections: single, first/last, full, any order, repeats."""
    seen = []

    def add(c):
        if c not in seen:
            seen.append(c)
    add([0])
    add([n - 1])
    add([0, n - 1])
    add(list(range(n)))
    add(list(range(n - 1, -1, -1)))
    add([n - 1, 0, n - 1, 0])
    add((n // 2,))
    add({0, n - 1, n // 2})
    if n > 2:
        add([1, n - 2, 1])
        for _ in range(3):
            k = rng.randint(1, min(n, 5))
            add([rng.randrange(n) for _ in range(k)])
        picked = rng.sample(range(n), min(n, 4))
        add(picked)
        add(picked + picked[:1])
    return seen


# --------------------------------------------------------------------------
# the property
# --------------------------------------------------------------------------
def all_ones(descriptor, value):
    """True when value is the all-ones pattern of the (non-string) field."""
    nbits = getattr(descriptor, 'nbits', None)
    if nbits is None or isinstance(value, (bytes, str)) or value is None:
        return False
    try:
        raw = int(round(value * 10 ** descriptor.scale)) - descriptor.refval
    except Exception:
        return False
    return raw == 2 ** nbits - 1


def same_values(descriptors, expected, actual):
    if len(expected) != len(actual):
        return False
    for d, e, a in zip(descriptors, expected, actual):
        if e == a and type(e) is type(a):
            continue
        if a is None and all_ones(d, e):
            continue            # FM-94: all ones is missing
        return False
    return True


def metadata(message):
    return [(p.name, p.value) for s in message.sections for p in s
            if p.name not in META_SKIP]


def snapshot(message):
    return (message.serialized_bytes,
            FlatJsonRenderer().render(message),
            copy.deepcopy(message.template_data.value.decoded_values_all_subsets),
            [[d.id for d in ds] for ds in message.template_data.value.decoded_descriptors_all_subsets])


def verify_output(label, message, indices, raw, decoder, encoder):
    """raw is the encoded result of subsetting message by indices."""
    result = decoder.process(raw)
    wanted = sorted(set(indices))
    td_src = message.template_data.value
    td_new = result.template_data.value

    assert result.n_subsets.value == len(wanted), (label, indices)
    assert len(td_new.decoded_values_all_subsets) == len(wanted), (label, indices)
    for k, idx in enumerate(wanted):
        assert same_values(td_src.decoded_descriptors_all_subsets[idx],
                           td_src.decoded_values_all_subsets[idx],
                           td_new.decoded_values_all_subsets[k]), (label, indices, k, idx)
        assert ([d.id for d in td_new.decoded_descriptors_all_subsets[k]] ==
                [d.id for d in td_src.decoded_descriptors_all_subsets[idx]]), (label, indices, k)

    # template, identification and compression flag unchanged
    assert result.unexpanded_descriptors.value == message.unexpanded_descriptors.value, label
    assert result.is_compressed.value == message.is_compressed.value, label
    assert metadata(result) == metadata(message), (label, indices)
    # valid message: declared length is the real one, signatures in place
    assert raw[:4] == b'BUFR' and raw[-4:] == b'7777', label
    assert result.length.value == len(raw), label
    # the decoded message re-encodes to the very same bytes
    again = encoder.process(FlatJsonRenderer().render(result), wire_template_data=False)
    assert again.serialized_bytes == raw, (label, indices)
    return result


def check_subset(label, message, indices, decoder, encoder):
    before = snapshot(message)
    n = message.n_subsets.value
    indices_before = copy.copy(indices)

    data = message.subset(indices)
    assert isinstance(data, list) and len(data) == len(message.sections), label
    encoded = encoder.process(data, file_path='<demo>', wire_template_data=False)
    raw = encoded.serialized_bytes
    verify_output(label, message, indices, raw, decoder, encoder)

    # source and argument untouched
    assert snapshot(message) == before, (label, indices)
    assert message.n_subsets.value == n
    assert indices == indices_before and type(indices) is type(indices_before)
    return data, raw


def check_refusals(label, message):
    n = message.n_subsets.value
    before = snapshot(message)
    for bad in ([n], [0, n], [n, 0], [-1], [0, -1], [-1, 0], [n - 1, n], [n + 5], (n,), {0, -1}):
        try:
            message.subset(bad)
        except PyBufrKitError:
            pass
        else:
            raise AssertionError('%s: %r accepted' % (label, bad))
    # both ends wrong: the upper bound is reported
    try:
        message.subset([-1, n])
    except PyBufrKitError as e:
        assert 'maximum subset index out of range' in str(e), str(e)
    else:
        raise AssertionError('accepted')
    try:
        message.subset([-1])
    except PyBufrKitError as e:
        assert 'minimum subset index out of range' in str(e), str(e)
    else:
        raise AssertionError('accepted')
    # an empty collection is not a selection at all
    for empty in ([], (), set()):
        try:
            message.subset(empty)
        except ValueError:
            pass
        else:
            raise AssertionError('empty accepted')
    assert snapshot(message) == before, label


def run_property(corpus=True, seed=10, encoders=None, extra=None):
    rng = random.Random(seed)
    decoder = Decoder()
    encoders = encoders or [Encoder(), Encoder(compiled_template_cache_max=8)]
    count = 0
    for label, message in build_inputs(decoder, corpus=corpus):
        n = message.n_subsets.value
        check_refusals(label, message)
        for indices in index_collections(n, rng):
            outputs = []
            for encoder in encoders:
                data, raw = check_subset(label, message, indices, decoder, encoder)
                outputs.append(raw)
                if extra:
                    extra(label, message, indices, data, raw)
                count += 1
            assert len(set(outputs)) == 1, (label, indices)   # compiled == interpreted
    return count


# --------------------------------------------------------------------------
# demo 2: the command line wrapper, command_subset()
# --------------------------------------------------------------------------
import argparse
import contextlib
import io
import shutil
import tempfile

from pybufrkit.commands import command_subset


def namespace(indices_text, filename, output_filename, cache_max=None):
    return argparse.Namespace(command='subset', info=False, debug=False,
                              definitions_directory=None, tables_root_directory=None,
                              subset_indices=indices_text, filename=filename,
                              output_filename=output_filename,
                              ignore_value_expectation=False,
                              compiled_template_cache_max=cache_max)


def run_main(argv):
    """python -m pybufrkit <argv>, in process; returns what went to stderr."""
    old_argv = sys.argv
    sys.argv = ['pybufrkit'] + argv
    err = io.StringIO()
    try:
        with contextlib.redirect_stderr(err):
            pybufrkit.main()
    finally:
        sys.argv = old_argv
    return err.getvalue()


def read(path):
    with open(path, 'rb') as ins:
        return ins.read()


def expect(error, ns):
    try:
        command_subset(ns)
    except error as e:
        return e
    raise AssertionError('no %s for %r' % (error.__name__, ns.subset_indices))


def demo_commands():
    rng = random.Random(2)
    decoder = Decoder()
    encoder = Encoder()
    tmp = tempfile.mkdtemp(prefix='c10demo2_')
    count = 0
    try:
        for label, message in build_inputs(decoder):
            source = os.path.join(tmp, 'in.bufr')
            with open(source, 'wb') as outs:
                outs.write(message.serialized_bytes)
            n = message.n_subsets.value
            for indices in index_collections(n, rng):
                as_list = list(indices)
                text = ','.join(str(i) for i in as_list)
                outputs = []
                for k, cache_max in enumerate((None, 4)):
                    target = os.path.join(tmp, 'out%d.bufr' % k)
                    assert command_subset(namespace(text, source, target, cache_max)) is None
                    raw = read(target)
                    verify_output(label, message, as_list, raw, decoder, encoder)
                    outputs.append(raw)
                    os.remove(target)
                    count += 1
                assert outputs[0] == outputs[1], (label, text)
                # the same as the library calls the command is a wrapper of
                direct = encoder.process(message.subset(as_list), wire_template_data=False)
                assert direct.serialized_bytes == outputs[0], (label, text)
                assert read(source) == message.serialized_bytes, label    # input file untouched

        # ---- spelling of the index list, through the real argument parser
        source = os.path.join(tmp, 'seven.bufr')
        shutil.copy(os.path.join(DATA_DIR, 'ISMD01_OKPR.bufr'), source)      # 7 subsets
        message = decoder.process(read(source))
        target = os.path.join(tmp, 'cli.bufr')
        for text, meant in (('3', [3]), ('6,0', [0, 6]), (' 2 , 4 ', [2, 4]), ('5,5,5', [5]),
                            ('+1,02', [1, 2]), ('0,1,2,3,4,5,6', list(range(7)))):
            assert run_main(['subset', text, source, target]) == ''
            verify_output('cli ' + text, message, meant, read(target), decoder, encoder)
            os.remove(target)
        # default output name is out.bufr in the current directory
        cwd = os.getcwd()
        os.chdir(tmp)
        try:
            assert run_main(['subset', '1,3', source]) == ''
        finally:
            os.chdir(cwd)
        verify_output('cli default', message, [1, 3], read(os.path.join(tmp, 'out.bufr')), decoder, encoder)
        # an existing output file is replaced, not appended to
        with open(target, 'wb') as outs:
            outs.write(b'x' * 5000)
        command_subset(namespace('0', source, target))
        verify_output('overwrite', message, [0], read(target), decoder, encoder)
        os.remove(target)

        # ---- refusals: nothing is written, the error type tells what was wrong
        for text in ('7', '0,7', '-1', '3,-1', '-1,7', '100'):
            e = expect(PyBufrKitError, namespace(text, source, target))
            assert 'subset index out of range' in str(e), str(e)
            assert not os.path.exists(target), text
            argv = ['subset', '--', text, source, target] if text.startswith('-') else \
                ['subset', text, source, target]
            assert 'out of range' in run_main(argv), text
            assert not os.path.exists(target), text
        for text in ('', ',', '1,', 'a', '1;2', '1.0', '1,,2', '0x1'):
            expect(ValueError, namespace(text, source, target))
            assert not os.path.exists(target), text
        missing = os.path.join(tmp, 'no-such-file.bufr')
        e = expect(IOError, namespace('0', missing, target))
        assert e.filename == missing
        assert not os.path.exists(target)
        assert 'no-such-file.bufr' in run_main(['subset', '0', missing, target])
        # bad index list and missing input: the index list is looked at first
        expect(ValueError, namespace('zero', missing, target))
        # unwritable output: the source is decoded and subsetted first, then the open fails
        e = expect(IOError, namespace('0', source, os.path.join(tmp, 'nodir', 'x.bufr')))
        e = expect(PyBufrKitError, namespace('9', source, os.path.join(tmp, 'nodir', 'x.bufr')))
        # garbage input file
        junk = os.path.join(tmp, 'junk.bufr')
        with open(junk, 'wb') as outs:
            outs.write(b'this is not a message')
        try:
            command_subset(namespace('0', junk, target))
        except Exception as e:
            junk_error = type(e).__name__
        else:
            raise AssertionError('junk accepted')
        assert junk_error == 'PyBufrKitError', junk_error
        assert not os.path.exists(target)
        assert read(source) == read(os.path.join(DATA_DIR, 'ISMD01_OKPR.bufr'))
        # attribute style namespaces of the test-suite kind (missing options are None)
        class NS(object):
            def __init__(self, m):
                self._m = m

            def __getattr__(self, item):
                return self.__dict__['_m'].get(item, None)
        command_subset(NS({'subset_indices': '6,2', 'filename': source, 'output_filename': target}))
        verify_output('NS', message, [2, 6], read(target), decoder, encoder)
    finally:
        shutil.rmtree(tmp, ignore_errors=True)
    return count


if __name__ == '__main__':
    n = demo_commands()
    print('demo 2 ok: %d command_subset runs verified' % n)
