import os, sys; sys.path.insert(0, os.getcwd())
"""
Refactor 6 - differential demonstration.

The refactor rewrites the two pure helpers behind the width of the increments of a compressed
column: nbits_for_uint (encoder.py; was counting characters of bin(x), now integer arithmetic)
and minmax (coder.py; was a static method of CoderState with a None-initialised loop, now a
module function over a filtered iterator, still reachable as CoderState.minmax).

A. nbits_for_uint against a copy of the textual rule and against an independent statement of
   it ("smallest width whose all-ones pattern is above x"), for every x in -5000..70000, around
   all powers of two up to 2**200, random big numbers, bool and __index__ objects; same
   exception type for what is not an integer.
B. minmax against min() / max() of the values that are not None, for all columns of up to 5
   entries over {None, 0, 1, 2, 3}, floats, NaN, strings, equal values of different type
   (identity of the returned objects), iterators, and TypeError for values that do not compare.
C. The equal-values check of delayed replication factors of compressed data, directly on
   CoderState and through hand-made messages (encoder and decoder side).
D. Exhaustively: all columns of up to 4 subsets (3 for width 4) over {missing, 0..2**w-2} for
   numeric and code columns of width 2..4 (width 1 numeric: bits only), encoded compressed; the
   bits are compared with an independent writer, the decoded values with the column, and with
   the decoded values of the uncompressed encoding.
E. Random wide columns (up to 64 bits, dozens of subsets) and the ranges 2**k-3 .. 2**k+1.
F. Values that are not integers in a column that is not scaled: same exception.
G. A few sample files.
"""
import itertools
import json
import random
from decimal import Decimal
from fractions import Fraction

import pybufrkit.coder as coder_module
import pybufrkit.encoder as encoder_module
from pybufrkit.coder import CoderState
from pybufrkit.decoder import Decoder
from pybufrkit.encoder import Encoder, nbits_for_uint
from pybufrkit.errors import PyBufrKitError

N_CHECKS = [0]
rnd = random.Random(20260929)


def check(cond, what):
    N_CHECKS[0] += 1
    if not cond:
        print('FAILED: {}'.format(what))
        sys.exit(1)


def exception_of(func, *args):
    try:
        func(*args)
    except Exception as e:
        return type(e)
    return None


# ---------------------------------------------------------------------------
# A. nbits_for_uint

def nbits_textual(x):
    """The rule as it was written first: digits of bin(x), one more if they are all 1"""
    digits = bin(x)[2:]
    return len(digits) + (1 if digits.count('1') == len(digits) else 0)


def nbits_smallest(x):
    """For x >= 1: the smallest width whose all-ones pattern (missing) lies above x"""
    n = 1
    while (1 << n) - 1 <= x:
        n += 1
    return n


for x in range(-5000, 70001):
    check(nbits_for_uint(x) == nbits_textual(x), 'nbits_for_uint({})'.format(x))
    if x >= 1:
        check(nbits_for_uint(x) == nbits_smallest(x), 'nbits_for_uint({}) is the smallest width'.format(x))
check(nbits_for_uint(0) == 1 and nbits_for_uint(1) == 2 and nbits_for_uint(2) == 2 and nbits_for_uint(3) == 3
      and nbits_for_uint(4) == 3 and nbits_for_uint(7) == 4 and nbits_for_uint(8) == 4, 'known widths')
for k in range(1, 201):
    for delta in (-2, -1, 0, 1, 2):
        for sign in (1, -1):
            x = sign * ((1 << k) + delta)
            check(nbits_for_uint(x) == nbits_textual(x), 'nbits_for_uint({})'.format(x))
            if x >= 1:
                check(nbits_for_uint(x) == nbits_smallest(x), 'nbits_for_uint({}) smallest'.format(x))
for _ in range(20000):
    x = rnd.getrandbits(rnd.randint(1, 130)) * rnd.choice((1, 1, 1, -1))
    check(nbits_for_uint(x) == nbits_textual(x), 'nbits_for_uint({})'.format(x))
check(nbits_for_uint(True) == 2 and nbits_for_uint(False) == 1, 'bool')
check(type(nbits_for_uint(5)) is int and type(nbits_for_uint(True)) is int, 'an int is returned')


class Indexable(object):
    def __init__(self, n):
        self.n = n

    def __index__(self):
        return self.n


for n in (-3, 0, 1, 2, 3, 255, 256, 2 ** 64 - 1):
    check(nbits_for_uint(Indexable(n)) == nbits_textual(n), '__index__ object {}'.format(n))
for bad in (3.0, 3.5, float('nan'), None, '3', b'3', Decimal(3), Fraction(3), [3], 3j):
    check(exception_of(nbits_for_uint, bad) is TypeError is exception_of(bin, bad),
          'TypeError for {!r}'.format(bad))

# ---------------------------------------------------------------------------
# B. minmax

MINMAXES = [('CoderState.minmax', CoderState.minmax),
            ('state.minmax', CoderState(True, 2).minmax),
            ('state.minmax (uncompressed)', CoderState(False, 0).minmax)]
if hasattr(coder_module, 'minmax'):  # after the refactor only
    MINMAXES.append(('coder.minmax', coder_module.minmax))
    check(encoder_module.minmax is coder_module.minmax, 'the encoder uses the function of coder')
    check(CoderState.minmax is coder_module.minmax, 'which is what the state offers')


def reference_minmax(values):
    present = [v for v in values if v is not None]
    return (min(present), max(present)) if present else (None, None)


for name, minmax in MINMAXES:
    for n in range(0, 6):
        for column in itertools.product((None, 0, 1, 2, 3), repeat=n):
            expected = reference_minmax(column)
            check(minmax(list(column)) == expected, '{}({})'.format(name, column))
            check(minmax(column) == expected, '{}(tuple)'.format(name))
            check(minmax(iter(column)) == expected, '{}(iterator)'.format(name))
    check(minmax([]) == (None, None) and minmax([None] * 7) == (None, None), 'nothing present')
    for _ in range(3000):
        column = [rnd.choice((None, rnd.randint(-10, 10), rnd.getrandbits(70), -rnd.getrandbits(70),
                              rnd.random() * 100, -0.0, 0, 10 ** 30))
                  for _ in range(rnd.randint(0, 40))]
        got, expected = minmax(column), reference_minmax(column)
        check(got == expected and type(got) is tuple, '{} on random columns'.format(name))
    # equal values of different type: the first one met stays (as min() and max() do)
    one, one_f, one_b = 1, 1.0, True
    for column in ([one, one_f, one_b], [one_f, one, None], [None, one_b, one_f, one], [one_f, None, one_f]):
        mn, mx = minmax(column)
        first = [v for v in column if v is not None][0]
        check(mn is first and mx is first, '{}: the first of equal values'.format(name))
    big = 2 ** 80
    mn, mx = minmax([None, 5, big, None, -big, 5])
    check(mn == -big and mx == big, '{}: long integers'.format(name))
    # NaN never compares: whatever came first stays
    nan = float('nan')
    mn, mx = minmax([nan, 1.0, 2.0])
    check(mn is nan and mx is nan, '{}: NaN first'.format(name))
    check(minmax([1.0, nan, 2.0, None, nan, 0.5]) == (0.5, 2.0), '{}: NaN later'.format(name))
    check(minmax(['b', None, 'a', 'c']) == ('a', 'c'), '{}: strings'.format(name))
    check(minmax([[2], [1, 5], None]) == ([1, 5], [2]), '{}: lists'.format(name))
    for column in ([1, 'a'], [None, 'a', None, 1], [1, 2, 'a'], [{}, {}], [1, None, [1]]):
        check(exception_of(minmax, column) is TypeError, '{}: TypeError for {!r}'.format(name, column))
    check(minmax([{}]) == ({}, {}) and minmax(['a', None]) == ('a', 'a'), '{}: a single value'.format(name))
    check(exception_of(minmax, None) is TypeError and exception_of(minmax, 5) is TypeError,
          '{}: not iterable'.format(name))

    # the values are met in order and each of them once
    class Noting(object):
        log = []

        def __init__(self, n):
            self.n = n

        def __gt__(self, other):
            Noting.log.append(('>', self.n, other.n))
            return self.n > other.n

        def __lt__(self, other):
            Noting.log.append(('<', self.n, other.n))
            return self.n < other.n

    a, b, c = Noting(2), Noting(1), Noting(3)
    check(minmax([None, a, b, None, c]) == (b, c), '{}: objects'.format(name))
    check(Noting.log == [('>', 2, 1), ('<', 2, 1), ('>', 1, 3), ('<', 2, 3)], '{}: comparisons made'.format(name))

# ---------------------------------------------------------------------------
# The independent writer (no pybufrkit code)


def ubits(value, width):
    assert 0 <= value < (1 << width), (value, width)
    return format(value, '0{}b'.format(width)) if width else ''


def column_bits(width, column):
    """Compressed form of a column of unsigned numbers, None for missing"""
    present = [r for r in column if r is not None]
    if not present:
        return '1' * width + ubits(0, 6)
    if len(present) == len(column) and min(present) == max(present):
        return ubits(present[0], width) + ubits(0, 6)
    low = min(present)
    nd = nbits_smallest(max(present) - low + 1)
    return ubits(low, width) + ubits(nd, 6) + ''.join(
        '1' * nd if r is None else ubits(r - low, nd) for r in column)


def increments_width(column):
    present = [r for r in column if r is not None]
    if not present or (len(present) == len(column) and min(present) == max(present)):
        return 0
    return nbits_smallest(max(present) - min(present) + 1)


def padded(bits):
    return bits + '0' * (-len(bits) % 8)


def make_message(descriptors, subsets, compressed):
    return [['BUFR', 0, 4],
            [22, 0, 0, 0, 0, False, '0000000', 0, 0, 0, 13, 0, 2012, 11, 2, 0, 0, 0],
            [0, '00000000', len(subsets), True, compressed, '000000', descriptors],
            [0, '00000000', subsets],
            ['7777']]


def uint24(b, pos):
    return (b[pos] << 16) + (b[pos + 1] << 8) + b[pos + 2]


def data_section_start(b):
    pos = 8
    pos += uint24(b, pos)  # section 1
    pos += uint24(b, pos)  # section 3
    return pos


def data_bits_of(serialized_bytes):
    b = bytearray(serialized_bytes)
    pos = data_section_start(b)
    length = uint24(b, pos)
    check(bytes(b[pos + length:]) == b'7777', 'the data section is followed by 7777')
    return ''.join(format(o, '08b') for o in b[pos + 4: pos + length])


def with_data_bits(serialized_bytes, bits):
    """The message with another content of the data section"""
    b = bytearray(serialized_bytes)
    pos = data_section_start(b)
    bits = padded(bits)
    data = bytearray(int(bits[i:i + 8], 2) for i in range(0, len(bits), 8))
    length = 4 + len(data)
    out = b[:pos] + bytearray([length >> 16, (length >> 8) & 255, length & 255, 0]) + data + bytearray(b'7777')
    out[4:7] = bytearray([len(out) >> 16, (len(out) >> 8) & 255, len(out) & 255])
    return bytes(out)


ENCODER, DECODER = Encoder(), Decoder()


def encode(descriptors, subsets, compressed):
    return ENCODER.process(json.dumps(make_message(descriptors, subsets, compressed))).serialized_bytes


def decode(serialized_bytes):
    return DECODER.process(serialized_bytes).template_data.value.decoded_values_all_subsets


# ---------------------------------------------------------------------------
# C. equal delayed replication factors of compressed data

state = CoderState(True, 3, [[4, None, 1], [4, None, None], [4, None, 2]])
check(state.get_value_for_delayed_replication_factor(0) == 4, 'equal factors')
check(exception_of(state.get_value_for_delayed_replication_factor, 1) is PyBufrKitError, 'missing factors')
check(exception_of(state.get_value_for_delayed_replication_factor, 2) is PyBufrKitError, 'different factors')
check(exception_of(state.get_value_for_delayed_replication_factor, 3) is IndexError, 'no such value')
check(state._assert_equal_values_of_index(0) is None and state._assert_equal_values_of_index(1) is None,
      'equal values')
check(exception_of(state._assert_equal_values_of_index, 2) is PyBufrKitError, 'different values')
# None is not looked at: a factor missing in a later subset passes, in the first it is refused as missing
state = CoderState(True, 2, [[2, None, 'a'], [None, 2, 1]])
check(state.get_value_for_delayed_replication_factor(0) == 2, 'factor missing in the second subset')
check(exception_of(state.get_value_for_delayed_replication_factor, 1) is PyBufrKitError,
      'factor missing in the first subset')
check(exception_of(state.get_value_for_delayed_replication_factor, 2) is TypeError, 'factors that do not compare')
state = CoderState(False, 2, [[2, 7], [3, 8]])
state.switch_subset_context(1)
check(state.get_value_for_delayed_replication_factor(0) == 3, 'uncompressed: the factor of the subset')

REPLICATION = [101000, 31001, 1002]  # 031001 is 8 bits wide, 001002 10 bits
good = encode(REPLICATION, [[2, 5, 6], [2, 7, 6]], True)
check(data_bits_of(good) == padded(column_bits(8, [2, 2]) + column_bits(10, [5, 7]) + column_bits(10, [6, 6])),
      'compressed delayed replication')
check(decode(good) == [[2, 5, 6], [2, 7, 6]], 'compressed delayed replication decoded')
check(exception_of(encode, REPLICATION, [[1, 5], [2, 7, 6]], True) is PyBufrKitError,
      'encoder: different factors in compressed subsets')
check(decode(encode(REPLICATION, [[1, 5], [2, 7, 6]], False)) == [[1, 5], [2, 7, 6]],
      'uncompressed: different factors')
check(exception_of(encode, REPLICATION, [[None, 5], [None, 7]], True) is PyBufrKitError,
      'encoder: missing factors')
different = with_data_bits(good, column_bits(8, [1, 2]) + column_bits(10, [5, 7]) + column_bits(10, [6, 6]))
check(exception_of(decode, different) is PyBufrKitError, 'decoder: different factors')
missing = with_data_bits(good, column_bits(8, [None, None]))
check(exception_of(decode, missing) is PyBufrKitError, 'decoder: missing factors')
second_missing = with_data_bits(good, column_bits(8, [2, None]) + column_bits(10, [5, 7]) + column_bits(10, [6, 6]))
check(decode(second_missing) == [[2, 5, 6], [None, 7, 6]], 'decoder: factor missing in the second subset')

# ---------------------------------------------------------------------------
# D. all small columns

NUMERIC = dict((w, ([201000 + 128 + w - 10], 1002, [201000])) for w in (1, 2, 3, 4))  # 001002 cut to w bits
CODE = {2: ([], 2001, []), 3: ([], 1003, []), 4: ([], 20011, [])}
COLUMNS_PER_MESSAGE = 256


def run_columns(kind, width, columns, decode_too=True):
    """All columns have the same number of entries; they travel side by side in messages"""
    before, descriptor, after = (NUMERIC if kind == 'numeric' else CODE)[width]
    n_subsets = len(columns[0])
    for start in range(0, len(columns), COLUMNS_PER_MESSAGE):
        chunk = columns[start: start + COLUMNS_PER_MESSAGE]
        descriptors = before + [descriptor] * len(chunk) + after
        subsets = [[column[i] for column in chunk] for i in range(n_subsets)]
        label = '{} width {} subsets {} columns from {}'.format(kind, width, n_subsets, start)
        compressed = encode(descriptors, subsets, True)
        check(data_bits_of(compressed) == padded(''.join(column_bits(width, column) for column in chunk)),
              'bits of ' + label)
        if decode_too:
            check(decode(compressed) == subsets, 'decoded ' + label)
            uncompressed = encode(descriptors, subsets, False)
            check(data_bits_of(uncompressed) == padded(''.join(
                '1' * width if v is None else ubits(v, width) for subset in subsets for v in subset)),
                  'uncompressed bits of ' + label)
            check(decode(uncompressed) == subsets, 'decoded uncompressed ' + label)


n_columns = 0
rnd.seed(4)  # the same columns whatever was drawn above
for kind, widths in (('numeric', (1, 2, 3, 4)), ('code', (2, 3, 4))):
    for width in widths:
        domain = [None] + list(range(0, 2 ** width - 1))
        for n_subsets in (1, 2, 3, 4):
            if width == 4 and n_subsets == 4:
                columns = [tuple(rnd.choice(domain) for _ in range(4)) for _ in range(2048)]
            else:
                columns = list(itertools.product(domain, repeat=n_subsets))
            n_columns += len(columns)
            # a field of one bit reads 1 as a value when it is not compressed: bits only
            run_columns(kind, width, columns, decode_too=width > 1)

# ---------------------------------------------------------------------------
# E. wide columns, ranges around powers of two


def wide_operator(width):
    return [201000 + 128 + width - 10], 1002, [201000]


for width in (5, 8, 9, 16, 31, 32, 33, 63, 64):
    NUMERIC[width] = wide_operator(width)
    top = 2 ** width - 2
    columns = []
    n_subsets = rnd.choice((2, 7, 24, 48))
    for k in range(0, width + 1):
        for span in (2 ** k - 3, 2 ** k - 2, 2 ** k - 1, 2 ** k, 2 ** k + 1):
            if 1 <= span <= top:
                for low in (0, top - span, rnd.randint(0, top - span)):
                    for with_missing in (False, True):
                        column = [low, low + span] + [rnd.randint(low, low + span) for _ in range(n_subsets - 2)]
                        rnd.shuffle(column)
                        if with_missing:
                            column[rnd.randrange(n_subsets)] = None
                            column[rnd.randrange(n_subsets)] = None
                        columns.append(tuple(column))
    for _ in range(60):
        low = rnd.randint(0, top)
        high = rnd.randint(low, top)
        columns.append(tuple(rnd.choice((None, low, high, rnd.randint(low, high))) for _ in range(n_subsets)))
    # the width of the increments is written in six bits: a column that needs more than 63 is refused
    too_wide = [c for c in columns if increments_width(c) > 63]
    columns = [c for c in columns if increments_width(c) <= 63]
    check(bool(too_wide) == (width >= 63), 'columns whose increments need 64 bits or more: width {}'.format(width))
    for column in too_wide[:40]:
        before, descriptor, after = NUMERIC[width]
        raised = exception_of(encode, before + [descriptor] + after, [[v] for v in column], True)
        check(raised is not None and issubclass(raised, ValueError), 'increments of 64 bits are refused')
        check(decode(encode(before + [descriptor] + after, [[v] for v in column], False)) == [[v] for v in column],
              'but travel uncompressed')
    n_columns += len(columns)
    run_columns('numeric', width, columns)

# a scaled numeric with reference value: 012001 widened to 20 bits, two decimals (202129), 207001
descriptors = [201136, 202129, 12001, 202000, 201000, 7001, 207001, 7001, 207000]   # 007001: ref -400, 15 bits
subsets = [[280.55, -399, 10.5], [None, 0, None], [0.01, 5, -400.0], [10485.73, None, 12706.5]]
message = encode(descriptors, subsets, True)
raws = [[28055, None, 1, 1048573], [1, 400, 405, None], [4105, None, 0, 131065]]
check(data_bits_of(message) == padded(column_bits(20, raws[0]) + column_bits(15, raws[1]) + column_bits(19, raws[2])),
      'scaled columns')
check(decode(message) == subsets == decode(encode(descriptors, subsets, False)), 'scaled columns decoded')

# ---------------------------------------------------------------------------
# F. values that are not integers in columns that are not scaled

for descriptors in ([1002], [2001]):
    for column in ([3.0, 1], [1, 2.5], [1.0, 2.0]):
        subsets = [[v] for v in column]
        check(exception_of(encode, descriptors, subsets, True) is TypeError,
              'TypeError for {} in compressed {}'.format(column, descriptors))
    # equal values never reach the width
    check(decode(encode(descriptors, [[2.0], [2.0]], True)) == [[2], [2]], 'equal floats')
for column in (['a', 1], [1, 'a'], [[1], 2]):
    check(exception_of(encode, [1002], [[v] for v in column], True) is TypeError, 'TypeError for {}'.format(column))

# ---------------------------------------------------------------------------
# G. sample files (compressed, with delayed replication / different strings / 222000)


def comparable(values_all_subsets):
    return [[v.encode('latin-1') if not isinstance(v, (bytes, type(None), int, float)) else v
             for v in values] for values in values_all_subsets]


for stub, json_is_current in (('207003', True), ('b005_89', True), ('jaso_214', True), ('mpco_217', True),
                              ('g2nd_208', True), ('amv2_87', False), ('ISMD01_OKPR', False), ('asr3_190', False)):
    with open(os.path.join('tests', 'data', stub + '.bufr'), 'rb') as ins:
        file_bytes = ins.read()
    with open(os.path.join('tests', 'data', stub + '.json')) as ins:
        stored = json.load(ins)
    if json_is_current:  # otherwise the decoder reads missing values where the stored JSON has values
        check(comparable(decode(file_bytes)) == comparable(stored[-2][-1]), '{}: decoded as stored'.format(stub))
    reencoded = ENCODER.process(json.dumps(stored)).serialized_bytes
    check(comparable(decode(reencoded)) == comparable(stored[-2][-1]), '{}: round trip of the JSON'.format(stub))
    if not json_is_current:
        continue
    stored[-3][4] = False  # the same subsets, not compressed
    check(comparable(decode(ENCODER.process(json.dumps(stored)).serialized_bytes)) == comparable(stored[-2][-1]),
          '{}: round trip of the JSON, uncompressed'.format(stub))

print('OK: {} checks, {} columns through the encoder'.format(N_CHECKS[0], n_columns))
