import os, sys; sys.path.insert(0, os.getcwd())
import pybufrkit
assert os.path.dirname(os.path.abspath(pybufrkit.__file__)) == os.path.join(os.getcwd(), 'pybufrkit'), pybufrkit.__file__

# ---- independent reference for the documented grammar (regex based) --------
import itertools, re, string
from pybufrkit.dataquery import NodePathParser, NodePath, PathComponent
from pybufrkit.errors import PathExprParsingError

_EL = r'[^@\[\]:/.>]*'
_ID = r'[^@\[\]:/.>]+'
_SL = r'\[%s(?::%s)*\]' % (_EL, _EL)
_WHOLE = re.compile(r'^(?:@(?P<ss>%s)(?=[/>])|(?=[/>0-9A-Z]))(?P<rest>.*)$' % _SL, re.S)
_COMP = re.compile(r'(?P<sep>[/.>])(?P<id>%s)(?P<sl>%s)?' % (_ID, _SL))
_INT = re.compile(r'^-?[0-9]+$')


def ref_slice(text, default):
    """text is '[...]' or None; returns (ok, object)"""
    if text is None:
        return True, default
    parts = text[1:-1].split(':')
    if len(parts) > 3 or not all(p == '' or _INT.match(p) for p in parts):
        return False, None
    nums = [None if p == '' else int(p) for p in parts]
    if len(nums) == 1:
        n = nums[0]
        if n is None:
            return False, None
        return True, (n if n >= 0 else slice(n, None if n == -1 else n + 1, None))
    return True, slice(*nums)


def reference(s, bare=True):
    """None if s is not in the language, else (subset_slice, [(sep, id, slice), ...])"""
    default = slice(None, None, None) if bare else 0
    t = ''.join(c for c in s if c not in string.whitespace)
    m = _WHOLE.match(t)
    if not t or not m:
        return None
    ok, subset = ref_slice(m.group('ss'), default)
    if not ok:
        return None
    rest = m.group('rest')
    if rest[0] not in '/>':
        rest = '>' + rest
    comps, pos = [], 0
    while pos < len(rest):
        cm = _COMP.match(rest, pos)
        if not cm:
            return None
        ok, slc = ref_slice(cm.group('sl'), default)
        if not ok:
            return None
        comps.append((cm.group('sep'), cm.group('id'), slc))
        pos = cm.end()
    return subset, comps


def observe(s, bare=True):
    """Same shape as reference(); anything but the parsing error propagates."""
    try:
        p = NodePathParser(bare_id_matches_all=bare).parse(s)
    except PathExprParsingError:
        return None
    assert isinstance(p, NodePath) and p.path_string == s
    assert all(type(c) is PathComponent for c in p.components)
    return p.subset_slice, [tuple(c) for c in p.components]


def same(a, b):
    """equality that also distinguishes 0 / False / 0.0 and 1 / True"""
    return repr(a) == repr(b)
# -----------------------------------------------------------------------------

import random
from pybufrkit import dataquery as dq

ALPHA = '@[]:/.>-01A '


def check(s, bare=True):
    r, o = reference(s, bare), observe(s, bare)
    assert same(r, o), (s, bare, r, o)
    return r is not None


def main():
    # 1. colon and right bracket in every state of the machine, called directly.
    #    expected[state] = (state after ':', state after ']'), None = the parsing error
    S = dq
    expected = {
        S.STATE_START_PARSING: (None, None),
        S.STATE_START_SUBSET: (None, None),
        S.STATE_START_SUBSET_SLICE_0: (S.STATE_START_SUBSET_SLICE_X, S.STATE_STOP_SUBSET_SLICE),
        S.STATE_START_SUBSET_SLICE_X: (S.STATE_START_SUBSET_SLICE_X, S.STATE_STOP_SUBSET_SLICE),
        S.STATE_STOP_SUBSET_SLICE: (None, None),
        S.STATE_START_ID: (None, None),
        S.STATE_START_SLICE_0: (S.STATE_START_SLICE_X, S.STATE_STOP_SLICE),
        S.STATE_START_SLICE_X: (S.STATE_START_SLICE_X, S.STATE_STOP_SLICE),
        S.STATE_STOP_SLICE: (None, None),
    }
    assert len(expected) == 9
    for state, nexts in expected.items():
        for c, nxt in zip(':]', nexts):
            for token, element in [('', None), ('5', 5), ('-12', -12), (' 7', 7), ('x', 'bad'), ('1-', 'bad')]:
                p = NodePathParser()
                p.reset()
                p.current_state, p.current_token, p.pos = state, token, 3
                p.current_slice_elements = before = [1]
                empty_brackets = (c == ']' and token == '' and state in (S.STATE_START_SLICE_0, S.STATE_START_SUBSET_SLICE_0))
                try:
                    ret = p.handle_colon_and_right_bracket(c)
                except PathExprParsingError:
                    assert nxt is None or empty_brackets or element == 'bad', (state, c, token)
                    # nothing consumed, nothing collected, state kept
                    assert (p.current_state, p.current_token, p.current_slice_elements, p.pos) == (state, token, [1], 3)
                else:
                    assert nxt is not None and not empty_brackets and element != 'bad', (state, c, token)
                    assert ret is None
                    assert p.current_state == nxt and p.current_token == '' and p.pos == 3
                    assert p.current_slice_elements is before and same(before, [1, element])

    # 2. what that means for whole expressions
    good = {
        'A[0]': 0, 'A[10]': 10, 'A[:]': slice(None, None), 'A[::]': slice(None, None, None), 'A[1:]': slice(1, None),
        'A[:1]': slice(None, 1), 'A[1:2]': slice(1, 2), 'A[::3]': slice(None, None, 3), 'A[1::3]': slice(1, None, 3),
        'A[:2:3]': slice(None, 2, 3), 'A[1:2:3]': slice(1, 2, 3), 'A[-1:-2:-3]': slice(-1, -2, -3), 'A[ 1 : 2 ]': slice(1, 2),
        'A[1 0]': 10, 'A[- 1:]': slice(-1, None),
    }
    for s, want in good.items():
        p = NodePathParser().parse(s)
        assert same(p.components[0].slice, want) and len(p.components) == 1, (s, p.components)
        q = NodePathParser().parse('@' + s[1:] + '/B' + s[1:] + '.C')
        want_sub = want if isinstance(want, slice) or want >= 0 else None
        assert same(q.subset_slice, want_sub) and same(q.components[0].slice, want), s
        assert [c.id for c in q.components] == ['B', 'C'] and same(q.components[1].slice, slice(None, None, None))
        assert check(s) and check(s, bare=False)
    for s in ['A[]', '@[]/A', 'A[ ]', 'A]', 'A:', ':', ']', 'A[0]]', 'A[0]:', 'A[0]:1]', 'A[[0]]', 'A[0][0]', '@[0]]/A', '@[0]:/A', '@]/A',
              '@:/A', '@[0:1:2:3]/A', 'A[0:1:2:3]', 'A[:::]', 'A[1-]', 'A[--1]', 'A[1:-]', 'A[B]', 'A[1:B]', 'A[1', 'A[1:', 'A/]', 'A/:',
              '/]', '/:', '@[0]/]', '@[0', 'A[0]/B]', 'A[0]/B[1]]', 'A[0].B:', 'A[1]2]']:
        for bare in (True, False):
            try:
                NodePathParser(bare).parse(s)
            except PathExprParsingError:
                pass
            else:
                raise AssertionError('accepted: %r' % s)
            assert not check(s, bare)

    # 3. exhaustive over a bracket-heavy alphabet up to length 6, and over the full alphabet up to length 4
    n = acc = 0
    for length in range(0, 7):
        for t in itertools.product('@[]:/A1', repeat=length):
            n += 1
            acc += check(''.join(t), bare=bool(n % 2))
    for length in range(0, 5):
        for t in itertools.product(ALPHA, repeat=length):
            n += 1
            acc += check(''.join(t), bare=bool(n % 2))

    # 4. random slices with colons / brackets inserted, removed or swapped
    rnd = random.Random(4)
    n_rand = acc_rand = 0
    for _ in range(4000):
        def num():
            return rnd.choice(['', '', '0', '-1', str(rnd.randint(-20, 20))])
        parts = []
        for i in range(rnd.randint(1, 4)):
            k = rnd.randint(0, 3)
            parts.append(rnd.choice(['A', '001001', 'B7']) + ('' if k == 0 else '[%s]' % ':'.join((num() or '2') if k == 1 else num() for _ in range(k))))
        s = rnd.choice(['', '/', '>', '@[%s:%s]/' % (num(), num())]) + rnd.choice('/.>').join(parts)
        assert check(s), s
        pos = rnd.randrange(len(s))
        for t in (s[:pos] + rnd.choice('[]:') + s[pos:], s[:pos] + s[pos + 1:], s[:pos] + rnd.choice('[]:-1') + s[pos + 1:]):
            n_rand += 1
            acc_rand += check(t, bare=rnd.random() < 0.5)
    print('demo 4 ok: %d/%d enumerated strings, %d/%d mutants accepted' % (acc, n, acc_rand, n_rand))


main()
