import os, sys; sys.path.insert(0, os.getcwd())

"""
Differential demonstration for refactor 7 (script preprocessing by a tokenising
regular expression).

1. a table of scripts with the expected (code, substitutions) written out by hand,
2. an independent reference model of the documented preprocessing (a span scanner
   built on str.find, sharing no code with either implementation) compared with
   process_embedded_query_expr on
     - every string of length <= 6 over the alphabet that drives the scanner,
     - a large number of seeded random strings assembled from fragments,
3. ScriptRunner on a decoded sample message: names bound to query results,
   metadata_only, pragma precedence and nest levels still work through the
   preprocessed code.
"""

import itertools
import random

from pybufrkit.decoder import Decoder
from pybufrkit.script import process_embedded_query_expr, ScriptRunner
import pybufrkit.script as script_module

assert os.path.dirname(os.path.abspath(script_module.__file__)) == os.path.join(os.getcwd(), 'pybufrkit'), \
    'run me from the worktree root'


# ---------------------------------------------------------------------------
# 1. hand written expectations
# ---------------------------------------------------------------------------
HAND = [
    # nothing to do
    ('', '', {}),
    ('a = 1', 'a = 1', {}),
    # plain substitution, trimming, numbering in order of first appearance
    ('${%length}', 'PBK_0', {'%length': 'PBK_0'}),
    ('a = ${ 001001 } + ${%length}', 'a = PBK_0 + PBK_1', {'001001': 'PBK_0', '%length': 'PBK_1'}),
    ('${a}${b}${a}${ b }${\ta\n}', 'PBK_0PBK_1PBK_0PBK_1PBK_0', {'a': 'PBK_0', 'b': 'PBK_1'}),
    ('${a b}${a  b}', 'PBK_0PBK_1', {'a b': 'PBK_0', 'a  b': 'PBK_1'}),
    # empty and blank expressions are one expression
    ('${}+${ }', 'PBK_0+PBK_0', {'': 'PBK_0'}),
    # quotes, comments and dollars inside an expression belong to the expression
    ('${a\'b"c#d$e${f}', 'PBK_0', {'a\'b"c#d$e${f': 'PBK_0'}),
    ('${a\nb}', 'PBK_0', {'a\nb': 'PBK_0'}),
    ('${a}}', 'PBK_0}', {'a': 'PBK_0'}),
    # a dollar that does not open an expression
    ('$', '$', {}),
    ('a$', 'a$', {}),
    ('$a{b}', '$a{b}', {}),
    ('$ {a}', '$ {a}', {}),
    ('$${a}', '$PBK_0', {'a': 'PBK_0'}),
    ('{a}$', '{a}$', {}),
    # quoted literals
    ("'${a}'", "'${a}'", {}),
    ('"${a}"', '"${a}"', {}),
    ("'${a}'${a}", "'${a}'PBK_0", {'a': 'PBK_0'}),
    ('"\'"${a}"\'"', '"\'"PBK_0"\'"', {'a': 'PBK_0'}),
    ("'\"${a}\"'", "'\"${a}\"'", {}),
    ("'#'${a}", "'#'PBK_0", {'a': 'PBK_0'}),
    ("'a\nb${x}'${y}", "'a\nb${x}'PBK_0", {'y': 'PBK_0'}),
    ("''${a}''", "''PBK_0''", {'a': 'PBK_0'}),
    # unterminated literal swallows the rest
    ("'${a}", "'${a}", {}),
    ('"${a}\n${b}#\'', '"${a}\n${b}#\'', {}),
    # comments
    ('#${a}', '#${a}', {}),
    ('#${a}\n${a}', '#${a}\nPBK_0', {'a': 'PBK_0'}),
    ('x # it\'s ${a}\n${b} "#" ${c} # "\n${d}',
     'x # it\'s ${a}\nPBK_0 "#" PBK_1 # "\nPBK_2', {'b': 'PBK_0', 'c': 'PBK_1', 'd': 'PBK_2'}),
    ('##\n#\n\n${a}', '##\n#\n\nPBK_0', {'a': 'PBK_0'}),
    ('#\r${a}\n', '#\r${a}\n', {}),
    # a quote inside a comment does not open a literal, a pond in a literal no comment
    ("# '\n${a} '", "# '\nPBK_0 '", {'a': 'PBK_0'}),
    ('"#"${a}#"${a}', '"#"PBK_0#"${a}', {'a': 'PBK_0'}),
    # unterminated expression: dropped together with the rest, nothing recorded
    ('${', '', {}),
    ('a${', 'a', {}),
    ('a = ${b', 'a = ', {}),
    ('${a}${b', 'PBK_0', {'a': 'PBK_0'}),
    ('${a\n\'x\' # y', '', {}),
    # many expressions: numbering follows the number of distinct expressions
    (''.join('${e%d}${e%d}' % (i, i // 2) for i in range(12)),
     ''.join('PBK_%d' % i + 'PBK_%d' % (i // 2) for i in range(12)),
     dict(('e%d' % i, 'PBK_%d' % i) for i in range(12))),
    # unicode and NUL are ordinary characters
    (u'é = ${é　}\x00${\x00}', u'é = PBK_0\x00PBK_1', {u'é': 'PBK_0', u'\x00': 'PBK_1'}),
]

n_checked = 0
for source, code, substitutions in HAND:
    got = process_embedded_query_expr(source)
    assert isinstance(got, tuple) and len(got) == 2, (source, got)
    assert got[0] == code, (source, got[0], code)
    assert type(got[1]) is dict and got[1] == substitutions, (source, got[1], substitutions)
    # first appearance order
    assert list(got[1].values()) == ['PBK_%d' % i for i in range(len(substitutions))], (source, got[1])
    n_checked += 1
print('hand written cases:', n_checked)


# ---------------------------------------------------------------------------
# 2. reference model
# ---------------------------------------------------------------------------
def reference(source):
    """
    The documented preprocessing, as a span scanner: look for the next of the
    four openers in plain code, then for what closes it.
    """
    out = []
    names = []  # list of (expr, name) in order of first appearance
    pos, n = 0, len(source)
    while pos < n:
        candidates = [i for i in (source.find(ch, pos) for ch in '\'"#') if i >= 0]
        dollar = source.find('${', pos)
        if dollar >= 0:
            candidates.append(dollar)
        if not candidates:
            out.append(source[pos:])
            break
        start = min(candidates)
        out.append(source[pos:start])
        opener = source[start]
        if opener == '$':
            end = source.find('}', start + 2)
            if end < 0:
                break  # never closed: dropped
            expr = source[start + 2:end].strip()
            for known, name in names:
                if known == expr:
                    break
            else:
                name = 'PBK_' + str(len(names))
                names.append((expr, name))
            out.append(name)
            pos = end + 1
        else:
            closer = '\n' if opener == '#' else opener
            end = source.find(closer, start + 1)
            end = n if end < 0 else end + 1
            out.append(source[start:end])
            pos = end
    return ''.join(out), names


def check(source):
    code, substitutions = process_embedded_query_expr(source)
    expected_code, expected_names = reference(source)
    assert code == expected_code, (source, code, expected_code)
    assert list(substitutions.items()) == expected_names, (source, substitutions, expected_names)


ALPHABET = 'a \'"#${}\n'
n_checked = 0
for length in range(0, 7):
    for chars in itertools.product(ALPHABET, repeat=length):
        check(''.join(chars))
        n_checked += 1
print('exhaustive strings up to length 6 over %r: %d' % (ALPHABET, n_checked))

rng = random.Random(20180718)
FRAGMENTS = [
    'a = 1', ' ', '\n', ';', 'x', '$', '{', '}', '${', "'", '"', '#', '\\', '\t', '\r',
    '${a}', '${ a }', '${b}', '${%length}', '${001001}', '${/301011/004001}', '${}', '${ }',
    "'lit'", '"lit"', "'${a}'", '"${b}"', "'#'", '"#"', '"\'"', "'\"'",
    '# comment\n', "# it's ${a}\n", '# "quoted" ${b}', '#$ data_values_nest_level = 2\n',
    'print(', ')', '$a', '$ {a}', '$$', '}}', '{{', u'é', '\x00',
]
n_checked = 0
for _ in range(60000):
    check(''.join(rng.choice(FRAGMENTS) for _ in range(rng.randint(0, 14))))
    n_checked += 1
# long inputs
for _ in range(200):
    check(''.join(rng.choice(FRAGMENTS) for _ in range(rng.randint(500, 1500))))
    n_checked += 1
check("'" + 'x' * 200000)
check('#' + '$' * 200000)
check('${' + ' ' * 200000 + '}')
check('${a}' * 50000)
print('random scripts assembled from fragments:', n_checked)

# the returned code is a new plain string and the input is left alone
source = 'a = ${b}'
code, substitutions = process_embedded_query_expr(source)
assert type(code) is type(source) and source == 'a = ${b}'
code2, substitutions2 = process_embedded_query_expr(source)
assert substitutions is not substitutions2 and substitutions == substitutions2  # no state kept between calls


# ---------------------------------------------------------------------------
# 3. through ScriptRunner
# ---------------------------------------------------------------------------
with open(os.path.join('tests', 'data', 'jaso_214.bufr'), 'rb') as ins:
    message = Decoder().process(ins.read(), file_path='jaso_214.bufr', wire_template_data=True)

SCRIPT = (
    '#$ data_values_nest_level = 2   # ${%edition}\n'
    'a = ${%length}  # not ${@[9]/nothing}\n'
    'b = ${ @[1]/123002/021062 }; c = "${%length}" + \'#${x}\'\n'
    'd = ${%length} ; e = ${@[2:7:2]/123002/021062[0]}\n'
    'f = "$" ; g = ${@[1]/123002/021062}'
)
runner = ScriptRunner(SCRIPT)
assert runner.code_string == (
    '#$ data_values_nest_level = 2   # ${%edition}\n'
    'a = PBK_0  # not ${@[9]/nothing}\n'
    'b = PBK_1; c = "${%length}" + \'#${x}\'\n'
    'd = PBK_0 ; e = PBK_2\n'
    'f = "$" ; g = PBK_1'
), runner.code_string
assert runner.substitutions == {
    '%length': 'PBK_0', '@[1]/123002/021062': 'PBK_1', '@[2:7:2]/123002/021062[0]': 'PBK_2'}
assert runner.metadata_only is False
assert runner.pragma == {'data_values_nest_level': 2}
variables = runner.run(message)
assert variables['PBK_BUFR_MESSAGE'] is message and variables['PBK_FILENAME'] == 'jaso_214.bufr'
assert variables['a'] == variables['d'] == variables['PBK_0'] == message.length.value
assert variables['b'] == variables['g'] == [[11.28, 0.02, 14.78, 0.03]]
assert variables['c'] == '${%length}#${x}'
assert variables['e'] == [[11.32, 14.77], [11.54, 14.95], [11.65, 15.24]]
assert variables['f'] == '$'
assert set(k for k in variables if k.startswith('PBK_')) == {
    'PBK_0', 'PBK_1', 'PBK_2', 'PBK_BUFR_MESSAGE', 'PBK_FILENAME'}

# nest levels by argument over the pragma; the documented relations between them
by_level = {}
for level in (0, 1, 2, 4):
    r = ScriptRunner(SCRIPT, data_values_nest_level=level)
    assert r.pragma == {'data_values_nest_level': level}
    by_level[level] = r.run(message)['e']
assert by_level[4] == [[[[11.32], [14.77]]], [[[11.54], [14.95]]], [[[11.65], [15.24]]]]
assert by_level[2] == [[11.32, 14.77], [11.54, 14.95], [11.65, 15.24]]
assert by_level[1] == [11.32, 14.77, 11.54, 14.95, 11.65, 15.24]
assert by_level[0] == 11.32

# metadata only exactly when every expression starts with %
assert ScriptRunner('${%length} + ${ %edition }  # ${001001}\n"${001001}"').metadata_only is True
assert ScriptRunner('${%length} + ${001001}').metadata_only is False
assert ScriptRunner('1').metadata_only is True
assert ScriptRunner('${%length} > 10 and ${%edition} == 3', mode='eval').run(message) is True
assert ScriptRunner('"${%length}"', mode='eval').run(message) == '${%length}'

# errors are the ones of the unchanged callers
try:
    ScriptRunner('a = ${%length')  # expression dropped: 'a = ' does not compile
except SyntaxError:
    pass
else:
    raise AssertionError('SyntaxError expected')
try:
    ScriptRunner('${}', mode='eval').run(message)  # empty expression reaches the querent
except IndexError:
    pass
else:
    raise AssertionError('IndexError expected')

print('OK')
