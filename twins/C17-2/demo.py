import os, sys; sys.path.insert(0, os.getcwd())
import glob
import json
import logging

import pybufrkit
assert os.path.dirname(os.path.abspath(pybufrkit.__file__)) == os.path.join(os.getcwd(), 'pybufrkit'), \
    'run from the worktree root'

from pybufrkit.errors import PyBufrKitError, MetadataExprParsingError
from pybufrkit.bufr import BufrMessage, BufrSection, SectionParameter, SectionConfigurer
from pybufrkit.decoder import Decoder, generate_bufr_message
from pybufrkit.encoder import Encoder
from pybufrkit.mdquery import MetadataExprParser, MetadataQuerent

DEFINITIONS_DIR = os.path.join('pybufrkit', 'definitions')
DATA_DIR = os.path.join('tests', 'data')


def build_message(edition, with_s2, n_subsets=2):
    """Encode a tiny message (descriptors 001001, 001002) of the given edition."""
    s0 = ['BUFR', 0, edition]
    head = [0, 0]  # section_length, master_table_number
    if edition == 2:
        centre = [98]
    elif edition == 3:
        centre = [7, 98]  # sub-centre, centre
    else:
        centre = [98, 7]  # centre, sub-centre
    category = [2, 1, 4] if edition == 4 else [2, 4]
    year = 2024 if edition == 4 else 24
    s1 = head + centre + [3, with_s2, '0000000'] + category + [13, 0, year, 5, 17, 11, 45, 9]
    sections = [s0, s1]
    if with_s2:
        sections.append([0, '00000000', '1010101111001101'])
    sections.append([0, '00000000', n_subsets, True, False, '000000', [1001, 1002]])
    sections.append([0, '00000000', [[(i + 5) % 100, 100 + i] for i in range(n_subsets)]])
    sections.append(['7777'])
    return Encoder().process(json.dumps(sections)).serialized_bytes


def read_data(name):
    with open(os.path.join(DATA_DIR, name), 'rb') as ins:
        return ins.read()


def all_message_bytes():
    """(label, bytes) for editions 2, 3, 4 with and without section 2 plus real samples."""
    out = []
    for edition in (2, 3, 4):
        for with_s2 in (False, True):
            out.append(('built-e{}-s2{}'.format(edition, int(with_s2)), build_message(edition, with_s2)))
    for name in ('jaso_214.bufr', '207003.bufr', 'contrived.bufr', 'uegabe.bufr'):
        out.append((name, read_data(name)))
    return out


def all_parameter_names():
    names = set()
    for path in glob.glob(os.path.join(DEFINITIONS_DIR, 'section*.json')):
        with open(path) as ins:
            for parameter in json.load(ins)['parameters']:
                names.add(parameter['name'])
    assert {'length', 'edition', 'section_length', 'originating_subcentre', 'data_i18n_subcategory',
            'local_bits', 'unexpanded_descriptors', 'template_data', 'stop_signature'} <= names
    return sorted(names)


def oracle(bufr_message, section_index, name):
    """The value the property demands, computed without the library's query code."""
    for section in bufr_message.sections:
        if section_index is not None and section.get_metadata('index') != section_index:
            continue
        if name in section:
            return getattr(section, name).value
    return None


def section_values(section):
    return [(p.name, p.type, p.nbits, p.value) for p in section]


def raises(exc_type, func, *args, **kwargs):
    try:
        func(*args, **kwargs)
    except Exception as e:  # noqa
        assert type(e) is exc_type, 'expected {} got {!r}'.format(exc_type.__name__, e)
        return e
    raise AssertionError('expected {} but nothing was raised'.format(exc_type.__name__))


# ---------------------------------------------------------------- demo 2: MetadataQuerent.query
parser = MetadataExprParser()
querent = MetadataQuerent(parser)
assert querent.metadata_expr_parser is parser
names = all_parameter_names()

# 1. every name x every message (editions 2/3/4, section 2 present/absent) x every index,
#    on the full decode and on the metadata-only decode
n_checked = 0
for label, data in all_message_bytes():
    for info_only in (False, True):
        msg = Decoder().process(data, info_only=info_only)
        indices = [s.get_metadata('index') for s in msg.sections]
        assert indices == sorted(indices)
        for name in names + ['blahblah', '', 'index', 'sections']:
            for section_index in (None, 0, 1, 2, 3, 4, 5, 6, 9, -1):
                expr = '%' + name if section_index is None else '%{}.{}'.format(section_index, name)
                expected = oracle(msg, section_index, name)
                got = querent.query(msg, expr)
                if name == 'template_data' and expected is not None:
                    assert got is expected
                else:
                    assert got == expected and type(got) is type(expected), (label, expr, got, expected)
                n_checked += 1
        # a few that are spelled out: which section is 'first' depends on the layout
        assert querent.query(msg, '%section_length') == msg.sections[1].section_length.value
        has_s2 = msg.is_section2_presents.value
        assert (querent.query(msg, '%2.section_length') is not None) == has_s2
        assert (querent.query(msg, '%local_bits') is not None) == has_s2
        assert querent.query(msg, '%reserved_bits') == (msg.sections[2].reserved_bits.value)
        assert querent.query(msg, '%flag_bits') == msg.sections[1].flag_bits.value == '0000000'
        assert querent.query(msg, '%3.flag_bits') == msg.sections[-2 if info_only else -3].flag_bits.value
        edition = msg.edition.value
        assert (querent.query(msg, '%data_i18n_subcategory') is not None) == (edition == 4)
        assert (querent.query(msg, '%1.originating_subcentre') is not None) == (edition >= 3)
        assert querent.query(msg, '%0.originating_centre') is None
        assert querent.query(msg, '%stop_signature') == (None if info_only else b'7777')
        assert (querent.query(msg, '%template_data') is None) == info_only
        # errors come from the parser, unchanged
        for bad in ('length', '', '1.length', '%x.length', '%.length', '%1 2.length'):
            raises(MetadataExprParsingError, querent.query, msg, bad)


# 2. hand-made messages: the answer is the value of the FIRST holder, whatever it is
def make_section(index, **values):
    section = BufrSection()
    section.set_metadata('index', index)
    for name, value in values.items():
        section.add_parameter(SectionParameter(name, 8, 'uint', None, False, value))
    return section


msg = BufrMessage()
assert querent.query(msg, '%length') is None and querent.query(msg, '%0.length') is None
shared_list = [1, 2]
msg.add_section(make_section(0, a=None, b=0, c=False))
msg.add_section(make_section(1, a=5, b=7, d='', e=shared_list))
msg.add_section(make_section(1, a=6, f=9))        # a second section with the same index
msg.add_section(make_section(3, a=8, c=True, g=1.5))
assert querent.query(msg, '%a') is None           # first holder has None
assert querent.query(msg, '%0.a') is None
assert querent.query(msg, '%1.a') == 5
assert querent.query(msg, '%3.a') == 8
assert querent.query(msg, '%b') == 0 and type(querent.query(msg, '%b')) is int
assert querent.query(msg, '%c') is False
assert querent.query(msg, '%3.c') is True
assert querent.query(msg, '%d') == ''
assert querent.query(msg, '%e') is shared_list     # the object itself, not a copy
assert querent.query(msg, '%f') == 9 and querent.query(msg, '%1.f') == 9
assert querent.query(msg, '%g') == 1.5 and type(querent.query(msg, '%g')) is float
assert querent.query(msg, '%2.a') is None and querent.query(msg, '%-1.a') is None
assert querent.query(msg, '%h') is None
assert len(msg.sections) == 4                      # the message is not touched
assert [p.value for p in msg.sections[1]] == [5, 7, '', shared_list]

# a section that never got its 'index' metadata makes the query fail, with or without index
broken = BufrMessage()
broken.add_section(make_section(0, a=1))
broken.add_section(BufrSection())
raises(AttributeError, querent.query, broken, '%a')
raises(AttributeError, querent.query, broken, '%0.a')


# 3. the querent uses the parser it was given
class FixedParser(object):
    def __init__(self, answer):
        self.answer = answer
        self.seen = []

    def parse(self, metadata_expr):
        self.seen.append(metadata_expr)
        return self.answer


fixed = FixedParser((3, 'a'))
assert MetadataQuerent(fixed).query(msg, 'anything at all') == 8
assert fixed.seen == ['anything at all']
fixed = FixedParser((None, 'f'))
assert MetadataQuerent(fixed).query(msg, '%1.a') == 9 and fixed.seen == ['%1.a']

print('demo 2 ok: {} queries'.format(n_checked))
