"""Demo for refactor 4: ScriptRunner.__init__ (metadata_only, pragma precedence)
and ScriptRunner.process_pragma."""
import os, sys; sys.path.insert(0, os.getcwd())
import itertools
import types

import pybufrkit
from pybufrkit.decoder import Decoder
from pybufrkit.query import BufrMessageQuerent
from pybufrkit.script import ScriptRunner

assert os.path.abspath(pybufrkit.__file__).startswith(os.getcwd()), pybufrkit.__file__

KEY = 'data_values_nest_level'


def raises(exc, func, *args, **kwargs):
    try:
        func(*args, **kwargs)
    except exc as e:
        assert type(e) is exc, (type(e), exc)
        return e
    raise AssertionError('%s not raised' % exc.__name__)


def level_of(script, *args, **kwargs):
    runner = ScriptRunner(script, *args, **kwargs)
    assert list(runner.pragma) == [KEY]          # unknown names never get in
    return runner.pragma[KEY]


# ---- metadata_only: exactly when every embedded expression starts with % ----
MD = ['%length', '%n_subsets', '%1.year', '%', '%%']
DATA = ['001001', '/301001/001001', '@[0] > 008002', 'a%', '', '/%length']
cases = 0
for size in range(0, 4):
    for exprs in itertools.product(MD[:3] + DATA[:4], repeat=size):
        script = '\n'.join('v%d = ${ %s }' % (i, e) for i, e in enumerate(exprs))
        runner = ScriptRunner(script)
        assert runner.metadata_only is all(e.startswith('%') for e in exprs), exprs
        assert list(runner.substitutions) == list(dict.fromkeys(exprs))
        cases += 1
assert cases == 1 + 7 + 49 + 343
for e in MD:
    assert ScriptRunner('${%s}' % e).metadata_only is True
    assert ScriptRunner('${\t%s }; ${%s}' % (e, e)).metadata_only is True
for e in DATA:
    assert ScriptRunner('${%s}' % e).metadata_only is False, e
    assert ScriptRunner('${%%length}; ${%s}; ${%%length}' % e).metadata_only is False, e
assert ScriptRunner('').metadata_only is True and ScriptRunner('x = 1').metadata_only is True
# what is quoted or commented out is no query
assert ScriptRunner("a = '${001001}' # ${001001}\nb = ${%length}").metadata_only is True
assert ScriptRunner("a = '${%length}' # ${%length}\nb = ${001001}").metadata_only is False
assert ScriptRunner('a = "${001001}"').metadata_only is True
assert ScriptRunner('a = 1 # ${001001').metadata_only is True

# ---- the other attributes set up by __init__ ---------------------------------
runner = ScriptRunner('#$ data_values_nest_level = 2\na = ${%length} + len(${001001})')
assert runner.code_string == '#$ data_values_nest_level = 2\na = PBK_0 + len(PBK_1)'
assert runner.substitutions == {'%length': 'PBK_0', '001001': 'PBK_1'}
assert runner.pragma == {KEY: 2} and runner.mode == 'exec' and runner.metadata_only is False
assert isinstance(runner.code_object, types.CodeType) and runner.code_object.co_filename == ''
assert type(runner.querent) is BufrMessageQuerent
assert ScriptRunner('1', mode='eval').mode == 'eval'
assert ScriptRunner('1', None, 'eval').mode == 'eval'
raises(SyntaxError, ScriptRunner, 'a = = 1')
raises(SyntaxError, ScriptRunner, 'a = 1', mode='eval')
raises(ValueError, ScriptRunner, 'a = 1', mode='bogus')
raises(TypeError, ScriptRunner, None)
raises(TypeError, ScriptRunner, 5)

# ---- pragma: default, script, argument -----------------------------------------
assert level_of('print("something")') == 1
assert level_of('') == 1
for lvl in (0, 1, 2, 4):
    for line in ('#$ data_values_nest_level = %d', '#$ data_values_nest_level=%d', '#$\tdata_values_nest_level   =  %d  ',
                 '#$ data_values_nest_level = %d\r', '#$ unknown = 9, data_values_nest_level = %d',
                 '#$ data_values_nest_level = 7,data_values_nest_level=%d', '#$ data_values_nest_level = %d, other=what ever'):
        script = (line % lvl) + '\nx = 1\n'
        assert level_of(script) == lvl, script
        assert level_of(script, None) == lvl                      # None means not given
        for arg in (0, 1, 2, 4):
            assert level_of(script, arg) == arg                    # the argument wins
            assert level_of(script, data_values_nest_level=arg) == arg
    assert level_of('x = 1', lvl) == lvl
# several pragma lines: the last assignment wins
assert level_of('#$ data_values_nest_level = 2\n#$ data_values_nest_level = 4\npass') == 4
assert level_of('#$ foo = 1\n#$ data_values_nest_level = 0\npass') == 0
assert level_of('#$ data_values_nest_level = 2\r\n#$ data_values_nest_level = 4\r\npass') == 4
assert level_of('#$ data_values_nest_level = 2\x0c#$ data_values_nest_level = 4') == 4   # splitlines, not split
# only the leading block of pragma lines counts
assert level_of('x = 1\n#$ data_values_nest_level = 4') == 1
assert level_of('\n#$ data_values_nest_level = 4') == 1
assert level_of(' #$ data_values_nest_level = 4') == 1
assert level_of('# a comment\n#$ data_values_nest_level = 4') == 1
assert level_of('#$ data_values_nest_level = 2\n\n#$ data_values_nest_level = 4') == 2
assert level_of('#$ data_values_nest_level = 2\n# $\n#$ data_values_nest_level = 4') == 2
# the line is cut after the third character, whatever it is
assert level_of('#$data_values_nest_level = 4') == 1               # "ata_values_nest_level" is unknown
assert level_of('#$$data_values_nest_level = 4') == 4
assert level_of('#$ =5') == 1                                      # empty name, ignored
# any literal is taken, values of unknown names are not even looked at
assert level_of('#$ data_values_nest_level = "4"') == '4'
assert level_of('#$ data_values_nest_level = None') is None
assert level_of('#$ data_values_nest_level = [1]') == [1]
assert level_of('#$ data_values_nest_level = True') is True
assert level_of('#$ data_values_nest_level = -1') == -1
assert level_of('#$ nothing = not a literal at all !, data_values_nest_level = 2') == 2
assert level_of('#$ data_values_nest_level = "4"', 2) == 2
# a pragma mentioned in a later comment or in a literal is just text
assert level_of('x = "#$ data_values_nest_level = 4"') == 1

# ---- malformed pragma lines ---------------------------------------------------
for bad in ('#$', '#$ ', '#$ data_values_nest_level', '#$ data_values_nest_level = 1,', '#$ ,',
            '#$ data_values_nest_level = 1 = 2', '#$ a == 1', '#$ data_values_nest_level = name',
            '#$ data_values_nest_level = 1 + x', '#$ data_values_nest_level = f()',
            '#$ data_values_nest_level = 2\n#$ oops'):
    raises(ValueError, ScriptRunner, bad + '\npass')
    raises(ValueError, ScriptRunner, bad + '\npass', 2)            # the argument does not rescue it
for bad in ('#$ data_values_nest_level = ', '#$ data_values_nest_level = 1 2', '#$ data_values_nest_level = ${001001}',
            '#$ data_values_nest_level = )'):
    raises(SyntaxError, ScriptRunner, bad + '\npass')
# the pragma is read before the code is compiled
raises(ValueError, ScriptRunner, '#$ oops\na = = 1')
raises(SyntaxError, ScriptRunner, '#$ data_values_nest_level = 2\na = = 1')
# not reached: lines after the pragma block are not parsed as pragma
assert level_of('#$ data_values_nest_level = 2\npass\n#$ oops') == 2

# ---- process_pragma on its own: returns nothing, applies assignments one by one ----
runner = ScriptRunner('pass')
assert runner.process_pragma() is None and runner.pragma == {KEY: 1}
runner.code_string = '#$ data_values_nest_level = 4, oops'
raises(ValueError, runner.process_pragma)
assert runner.pragma == {KEY: 4}                 # what came before the bad assignment is kept
runner.code_string = '#$ data_values_nest_level = 0\n#$ data_values_nest_level = 2, data_values_nest_level = nope, data_values_nest_level = 1'
raises(ValueError, runner.process_pragma)
assert runner.pragma == {KEY: 2}
runner.pragma['extra'] = 'old'                   # any key present in the dict is a known name
runner.code_string = '#$ extra = {"a": 1.5}, more = 3\n#$ data_values_nest_level=0\nrest'
assert runner.process_pragma() is None
assert runner.pragma == {KEY: 0, 'extra': {'a': 1.5}}
runner.code_string = '#$ data_values_nest_level=4, extra = (1, 2)'   # the comma cuts the tuple in two
raises(SyntaxError, runner.process_pragma)
assert runner.pragma == {KEY: 4, 'extra': {'a': 1.5}}
runner.code_string = ''
assert runner.process_pragma() is None and runner.pragma == {KEY: 4, 'extra': {'a': 1.5}}
runner.code_string = None
raises(AttributeError, runner.process_pragma)
del runner.pragma
runner.code_string = 'no pragma here'
assert runner.process_pragma() is None           # the dict is only needed for pragma lines
runner.code_string = '#$ a = 1'
raises(AttributeError, runner.process_pragma)

# ---- and the level really drives the run ---------------------------------------
with open(os.path.join('tests', 'data', 'contrived.bufr'), 'rb') as ins:
    msg = Decoder().process(ins.read(), file_path='contrived.bufr')
expected = {0: 94, 1: [94, 95], 2: [[94], [95]], 4: [[94], [95]]}
for lvl, exp in expected.items():
    assert ScriptRunner('#$ data_values_nest_level = %d\nr = ${001001}' % lvl).run(msg)['r'] == exp
    assert ScriptRunner('#$ data_values_nest_level = 4\nr = ${001001}', lvl).run(msg)['r'] == exp
    assert ScriptRunner('#$ data_values_nest_level = %d\nr = ${%%length}' % lvl).run(msg)['r'] == 94

print('demo 4 ok')
