import os, sys; sys.path.insert(0, os.getcwd())
"""
Differential demonstration for refactor 6 (how NodePathParser turns the bracket
part of a step, and of the '@' selector, into an int or a slice object).

 A. the rewritten methods called directly (create_slice_object for 0, 1, 2, 3, 4+
    elements and both settings of bare_id_matches_all; handle_colon_and_right_bracket
    from every state), compared with literal expectations, including the state the
    parser object is left in after a failure;
 B. error inputs with the literal message expected for each;
 C. parse() on some 60000 generated path texts (valid ones, mutated ones, random
    ones), compared with a reference parser written here with regular expressions;
 D. whole queries, on hand built messages and on the sample corpus, whose expected
    values are computed with plain Python list slicing from the node lists.

Exits 0 when everything agrees.
"""
import glob
import random
import re
import string

import pybufrkit.dataquery as dq
from pybufrkit.dataquery import DataQuerent, NodePathParser, PathComponent
from pybufrkit.errors import PathExprParsingError
from pybufrkit.templatedata import (
    ValueDataNode, SequenceNode, FixedReplicationNode, DelayedReplicationNode,
)
from pybufrkit.decoder import Decoder

assert os.path.dirname(os.path.abspath(dq.__file__)) == os.path.join(os.getcwd(), 'pybufrkit'), dq.__file__

N_CHECKS = [0]
ALL = slice(None, None, None)


def check(cond, *what):
    N_CHECKS[0] += 1
    if not cond:
        print('MISMATCH', *what)
        sys.exit(1)


def same(a, b):
    """Equal and of the same type (0 is not False, 1 is not slice(...))"""
    return type(a) is type(b) and a == b


# ---------------------------------------------------------------------------
# A. direct calls
# ---------------------------------------------------------------------------
def part_a():
    for bare_all, default in ((True, ALL), (False, 0)):
        p = NodePathParser(bare_id_matches_all=bare_all)
        p.reset()
        cases = [
            ([], default),
            ([0], 0), ([1], 1), ([17], 17),
            ([-1], slice(-1, None, None)), ([-2], slice(-2, -1, None)), ([-10], slice(-10, -9, None)),
            ([None, None], slice(None, None, None)), ([1, None], slice(1, None, None)),
            ([None, 3], slice(None, 3, None)), ([1, 3], slice(1, 3, None)), ([-3, -1], slice(-3, -1, None)),
            ([None, None, None], slice(None, None, None)), ([None, None, -1], slice(None, None, -1)),
            ([0, None, 10], slice(0, None, 10)), ([2, 7, 2], slice(2, 7, 2)),
        ]
        for elements, want in cases:
            p.current_slice_elements = list(elements)
            got = p.create_slice_object()
            check(same(got, want), 'create_slice_object', bare_all, elements, got)
            check(p.current_slice_elements == [], 'elements reset', elements)
        # more than three: error, and the elements are left where they were
        for elements in ([1, 2, 3, 4], [None] * 5):
            p.current_slice_elements = list(elements)
            try:
                p.create_slice_object()
                check(False, 'no error')
            except PathExprParsingError as e:
                check(e.message == 'slice can have at most three indices', e.message)
            check(p.current_slice_elements == elements, 'elements kept after failure')
        # a single None can only come from a parser bug: the assertion is still there
        p.current_slice_elements = [None]
        try:
            p.create_slice_object()
            check(not __debug__, 'no AssertionError')
        except AssertionError:
            check(True)
        # a single bool is an int for isinstance
        p.current_slice_elements = [True]
        check(p.create_slice_object() is True, 'bool passes through')

    # handle_colon_and_right_bracket from every state
    S = dq
    inside = {
        S.STATE_START_SLICE_0: (S.STATE_START_SLICE_X, S.STATE_STOP_SLICE),
        S.STATE_START_SLICE_X: (S.STATE_START_SLICE_X, S.STATE_STOP_SLICE),
        S.STATE_START_SUBSET_SLICE_0: (S.STATE_START_SUBSET_SLICE_X, S.STATE_STOP_SUBSET_SLICE),
        S.STATE_START_SUBSET_SLICE_X: (S.STATE_START_SUBSET_SLICE_X, S.STATE_STOP_SUBSET_SLICE),
    }
    outside = [S.STATE_START_PARSING, S.STATE_START_SUBSET, S.STATE_STOP_SUBSET_SLICE, S.STATE_START_ID,
               S.STATE_STOP_SLICE, None]
    check(sorted(inside) == sorted([':', '[', '@:', '@[']), 'state constants', sorted(inside))
    p = NodePathParser()
    for state, (after_colon, after_bracket) in sorted(inside.items()):
        for c, after in ((':', after_colon), (']', after_bracket)):
            for token, element in (('12', 12), ('-3', -3), ('', None)):
                p.reset()
                p.pos = 5
                p.current_state = state
                p.current_token = token
                p.current_slice_elements = [7]
                if c == ']' and token == '' and state in (S.STATE_START_SLICE_0, S.STATE_START_SUBSET_SLICE_0):
                    try:
                        p.handle_colon_and_right_bracket(c)
                        check(False, 'no error for empty brackets')
                    except PathExprParsingError as e:
                        check(e.message == "unexpected char: ']' at position 5", e.message)
                    check((p.current_state, p.current_token, p.current_slice_elements) == (state, '', [7]),
                          'state after failure')
                    continue
                p.handle_colon_and_right_bracket(c)
                check(p.current_state == after, 'state after', repr(state), c, repr(p.current_state))
                check(p.current_slice_elements == [7, element] and p.current_token == '', 'element', state, c, token)
            # a token that is not an integer: error from the conversion, state untouched
            p.reset()
            p.pos = 9
            p.current_state = state
            p.current_token = '1x'
            try:
                p.handle_colon_and_right_bracket(c)
                check(False, 'no error')
            except PathExprParsingError as e:
                check(e.message == "invalid slice syntax: '1x' at position 9", e.message)
            check((p.current_state, p.current_token, p.current_slice_elements) == (state, '1x', []),
                  'state after failed conversion')
    for state in outside:
        for c in ':]':
            p.reset()
            p.pos = 3
            p.current_state = state
            p.current_token = '1'
            try:
                p.handle_colon_and_right_bracket(c)
                check(False, 'no error')
            except PathExprParsingError as e:
                check(e.message == 'unexpected char: {!r} at position 3'.format(c), e.message)
            check((p.current_state, p.current_token, p.current_slice_elements) == (state, '1', []), 'untouched')


# ---------------------------------------------------------------------------
# B. error inputs, literal messages
# ---------------------------------------------------------------------------
ERRORS = [
    ('', 'Empty path expression'),
    ('   ', 'Empty path expression'),
    ('.A01', "unexpected char: '.' at position 0"),
    ('  [0]/a', "unexpected char: '[' at position 2"),
    ('a', "unexpected char: 'a' at position 0"),
    ('/', 'empty ID at position 1'),
    ('/001001/', 'empty ID at position 8'),
    ('//001001', 'empty ID at position 1'),
    ('/[0]', 'empty ID at position 1'),
    ('/001001[]', "unexpected char: ']' at position 8"),
    ('@[]/001001', "unexpected char: ']' at position 2"),
    ('/001001[1:2:3:4]', 'slice can have at most three indices'),
    ('/001001[1:2:3:4]/002001', 'slice can have at most three indices'),
    ('@[::::]/001001', 'slice can have at most three indices'),
    ('/001001[a]', "invalid slice syntax: 'a' at position 9"),
    ('/001001[1:b]', "invalid slice syntax: 'b' at position 11"),
    ('/001001[1.5]', "unexpected char: '.' at position 9"),
    ('/001001[1', "unexpected char: '1' at position 8"),
    ('/001001[', 'unexpected end of path expression'),
    ('/001001[1:', 'unexpected end of path expression'),
    ('@', 'unexpected end of path expression'),
    ('@[0]', 'unexpected end of path expression'),
    ('@[0', "unexpected char: '0' at position 2"),
    ('@[0].001001', "unexpected char: '.' at position 4"),
    ('@[0]001001', "unexpected char: '0' at position 4"),
    ('@0/001001', "unexpected char: '0' at position 1"),
    ('@/001001', "unexpected char: '/' at position 1"),
    ('/001001@[0]', "unexpected char: '@' at position 7"),
    ('/001001]', "unexpected char: ']' at position 7"),
    ('/001001:', "unexpected char: ':' at position 7"),
    ('/001001[0]]', "unexpected char: ']' at position 10"),
    ('/001001[0]:', "unexpected char: ':' at position 10"),
    ('/001001[0][1]', "unexpected char: '[' at position 10"),
    ('/001001[0]1', "unexpected char: '1' at position 10"),
    ('/001001[[0]', "unexpected char: '[' at position 8"),
    ('/001001[0/1]', "unexpected char: '/' at position 9"),
    ('@[0:]:/001001', "unexpected char: ':' at position 5"),
    ('@[0]]/001001', "unexpected char: ']' at position 4"),
    (':', "unexpected char: ':' at position 0"),
    (']', "unexpected char: ']' at position 0"),
]


def part_b():
    for bare_all in (True, False):
        parser = NodePathParser(bare_id_matches_all=bare_all)
        for text, message in ERRORS:
            try:
                parser.parse(text)
                check(False, 'no error for', repr(text))
            except PathExprParsingError as e:
                check(e.message == message, repr(text), repr(e.message), 'expected', repr(message))
    # what is left in the parser after the "too many indices" failure
    parser = NodePathParser()
    try:
        parser.parse('/001001[1:2:3:4]')
    except PathExprParsingError:
        pass
    check(parser.current_slice_elements == [1, 2, 3, 4] and parser.current_state == dq.STATE_STOP_SLICE,
          'parser after failure', parser.current_slice_elements, parser.current_state)
    # and the parser is usable again afterwards
    check(parser.parse('/001001[1:2]').components == [PathComponent('/', '001001', slice(1, 2, None))], 'reuse')


# ---------------------------------------------------------------------------
# C. a reference parser made of regular expressions
# ---------------------------------------------------------------------------
class RefError(Exception):
    pass


ID_RE = r'[^@\[\]:/.>]+'
SLICE_RE = r'[^@\[\]/.>]*'
SUBSET_RE = re.compile(r'@\[(' + SLICE_RE + r')\]')
STEP_RE = re.compile(r'([/.>])(' + ID_RE + r')(?:\[(' + SLICE_RE + r')\])?')


def ref_slice(content, default):
    if content is None:
        return default
    parts = content.split(':')
    if len(parts) > 3:
        raise RefError('too many')
    try:
        numbers = [None if part == '' else int(part) for part in parts]
    except ValueError:
        raise RefError('not a number')
    if len(numbers) == 1:
        n = numbers[0]
        if n is None:
            raise RefError('empty brackets')
        if n >= 0:
            return n
        return slice(n, None, None) if n == -1 else slice(n, n + 1, None)
    return slice(*numbers)


def ref_parse(text, bare_all):
    default = ALL if bare_all else 0
    t = ''.join(ch for ch in text if ch not in ' \t\n\r\x0b\x0c')
    if t == '' or t[0] not in '@/>0123456789ABCDEFGHIJKLMNOPQRSTUVWXYZ':
        raise RefError('start')
    subset = default
    if t[0] == '@':
        m = SUBSET_RE.match(t)
        if not m:
            raise RefError('subset')
        subset = ref_slice(m.group(1), default)
        t = t[m.end():]
        if t[:1] not in ('/', '>'):
            raise RefError('after subset')
    elif t[0] not in '/>':
        t = '>' + t
    steps = []
    pos = 0
    while pos < len(t):
        m = STEP_RE.match(t, pos)
        if not m:
            raise RefError('step')
        steps.append((m.group(1), m.group(2), ref_slice(m.group(3), default)))
        pos = m.end()
    if not steps:
        raise RefError('no step')
    return subset, steps


PIECES = ['@', '[', ']', ':', '/', '.', '>', '0', '1', '2', '-1', '-2', '-3', '12', 'A', '001001', 'x', ' ', '\t',
          '_', '+', '-', 'B2', '031001', '[0]', '[-1]', '[::2]', '[1:]', '@[0]', '@[-2]', '@[1::2]']
NUMBERS = ['', '', '0', '1', '2', '3', '10', '-1', '-2', '-5', '+1', ' 4 ', '1_0', '00']


def random_slice_text(rng):
    kind = rng.randrange(5)
    if kind == 0:
        return ''
    if kind == 1:
        return '[{}]'.format(rng.choice(NUMBERS[2:]))
    return '[' + ':'.join(rng.choice(NUMBERS) for _ in range(rng.choice([2, 2, 3, 3, 4]))) + ']'


def random_valid_text(rng):
    ids = ['001001', '103002', 'A01001', '031001', 'TEMPLATE', 'e1', '2-04', 'Q']
    out = ''
    if rng.random() < 0.4:
        out += '@' + (random_slice_text(rng) or '[0]')
        first = rng.choice(['/', '>'])
    else:
        first = rng.choice(['/', '>', ''])
    n = rng.randint(1, 4)
    for i in range(n):
        ident = rng.choice(ids[:5] if (i == 0 and first == '') else ids)
        out += (first if i == 0 else rng.choice(['/', '/', '.', '>'])) + ident + random_slice_text(rng)
    if rng.random() < 0.3:
        out = ''.join(ch + (' ' if rng.random() < 0.2 else '') for ch in out)
    return out


def mutate(rng, text):
    for _ in range(rng.randint(1, 2)):
        i = rng.randrange(len(text) + 1)
        kind = rng.randrange(3)
        piece = rng.choice(PIECES)
        if kind == 0:
            text = text[:i] + piece + text[i:]
        elif kind == 1:
            text = text[:i] + text[i + 1:]
        else:
            text = text[:i] + piece + text[i + 1:]
    return text


def part_c():
    rng = random.Random(6)
    parsers = {True: NodePathParser(), False: NodePathParser(bare_id_matches_all=False)}
    counts = {'ok': 0, 'err': 0}
    texts = []
    for _ in range(12000):
        text = random_valid_text(rng)
        texts.append(text)
        texts.append(mutate(rng, text))
    for _ in range(8000):
        texts.append(''.join(rng.choice(PIECES) for _ in range(rng.randint(1, 9))))
    texts += [t for t, _ in ERRORS]
    for text in texts:
        for bare_all in (True, False):
            try:
                want = ref_parse(text, bare_all)
            except RefError:
                want = None
            try:
                node_path = parsers[bare_all].parse(text)
                got = (node_path.subset_slice, [tuple(c) for c in node_path.components])
            except PathExprParsingError:
                got = None
            if want is None or got is None:
                check(want is None and got is None, 'C', repr(text), bare_all, got, want)
                counts['err'] += 1
                continue
            ok = same(got[0], want[0]) and len(got[1]) == len(want[1]) and all(
                g[0] == w[0] and g[1] == w[1] and same(g[2], w[2]) for g, w in zip(got[1], want[1]))
            check(ok, 'C', repr(text), bare_all, got, want)
            check(all(isinstance(c, PathComponent) for c in node_path.components), 'component type')
            counts['ok'] += 1
    check(counts['ok'] > 20000 and counts['err'] > 15000, 'coverage of part C', counts)
    return counts


# ---------------------------------------------------------------------------
# D. whole queries; expectations by plain list slicing
# ---------------------------------------------------------------------------
class D(object):
    def __init__(self, ident, n_members=None):
        self.ident = ident
        if n_members is not None:
            self.n_members = n_members

    def __str__(self):
        return self.ident


class Box(object):
    def __init__(self, value):
        self.value = value


class FakeTemplateData(object):
    def __init__(self, nodes_all, values_all):
        self.decoded_nodes_all_subsets = nodes_all
        self.decoded_values_all_subsets = values_all
        self.n_subsets = len(values_all)


class FakeMessage(object):
    def __init__(self, nodes_all, values_all, compressed):
        self.n_subsets = Box(len(values_all))
        self.is_compressed = Box(compressed)
        self.template_data = Box(FakeTemplateData(nodes_all, values_all))


SLICE_TEXTS = ['', '[0]', '[1]', '[2]', '[5]', '[-1]', '[-2]', '[-3]', '[-9]', '[:]', '[::]', '[1:]', '[:2]', '[1:3]',
               '[::2]', '[1::2]', '[::-1]', '[-2:]', '[:-1]', '[3:1:-1]', '[ 1 : 3 ]', '[0:0]']
SUBSET_TEXTS = ['', '@[0]', '@[2]', '@[-1]', '@[-2]', '@[-9]', '@[:]', '@[1:]', '@[::2]', '@[::-1]', '@[1:3]', '@[7]',
                '@[5:]']


def py_select(items, text, bare_all=True):
    """What a step with this bracket part keeps of the items carrying its ID, in document order."""
    if text == '':
        return list(items) if bare_all else list(items[:1])
    inner = text[1:-1].replace(' ', '')
    if ':' in inner:
        bounds = [int(x) if x else None for x in inner.split(':')]
        return [items[i] for i in sorted(range(len(items))[slice(*bounds)])]
    k = int(inner)
    return [items[k]] if -len(items) <= k < len(items) else []


def py_subsets(n, text, bare_all=True):
    """The subsets an '@' selector designates, in the order they are returned; IndexError when beyond the end."""
    if text == '':
        return list(range(n)) if bare_all else [0]
    inner = text[2:-1]
    if ':' in inner:
        bounds = [int(x) if x else None for x in inner.split(':')]
        return list(range(n))[slice(*bounds)]
    k = int(inner)
    if k >= 0:
        return [k]  # taken as it is; beyond the end the values of the subset cannot be found
    return [n + k] if -n <= k else []


def run_query(querent, msg, text):
    try:
        r = querent.query(msg, text)
        return r.subset_indices(), r.all_values()
    except IndexError:
        return 'IndexError'


def build_message(compressed):
    """Three subsets: E1 E2 E1 S1(E1 E1 E2 E1) E1(.A1 .A2 .A1) R1{E1 E2}x3 D1(.F){E1 E1}x2 D1(.F){}x0 E1"""
    def tree():
        counter = [0]

        def v(ident, attrs=()):
            node = ValueDataNode(D(ident), counter[0])
            counter[0] += 1
            for a in attrs:
                node.add_attribute(a)
            return node
        nodes = [v('E1'), v('E2'), v('E1')]
        s = SequenceNode(D('S1'))
        s.members = [v('E1'), v('E1'), v('E2'), v('E1')]
        nodes.append(s)
        nodes.append(v('E1', [v('A1'), v('A2'), v('A1')]))
        r = FixedReplicationNode(D('R1', 2))
        r.members = [v('E1'), v('E2'), v('E1'), v('E2'), v('E1'), v('E2')]
        nodes.append(r)
        d = DelayedReplicationNode(D('D1', 2))
        d.factor = v('F')
        d.members = [v('E1'), v('E1'), v('E1'), v('E1')]
        nodes.append(d)
        z = DelayedReplicationNode(D('D1', 2))
        z.factor = v('F')
        nodes.append(z)
        nodes.append(v('E1'))
        return nodes, counter[0]
    if compressed:
        t, n = tree()
        nodes_all = [t, t, t]
    else:
        trees = [tree() for _ in range(3)]
        nodes_all = [t for t, _ in trees]
        n = trees[0][1]
    values_all = [[100 * i + j for j in range(n)] for i in range(3)]
    return FakeMessage(nodes_all, values_all, compressed)


def part_d_hand():
    n_nonempty = 0
    for bare_all in (True, False):
        querent = DataQuerent(NodePathParser(bare_id_matches_all=bare_all))
        for compressed in (False, True):
            msg = build_message(compressed)
            td = msg.template_data.value
            for subset_text in SUBSET_TEXTS:
                try:
                    subsets = py_subsets(3, subset_text, bare_all)
                    overflow = any(i >= 3 for i in subsets)
                except IndexError:
                    overflow = True
                for slice_text in SLICE_TEXTS:
                    expected = {}
                    for i in ([] if overflow else subsets):
                        vals = td.decoded_values_all_subsets[i]
                        root = td.decoded_nodes_all_subsets[i]

                        def of(nodes, ident):
                            return [vals[n.index] for n in nodes if str(n.descriptor) == ident]
                        seq, with_attrs, fixed, delayed, empty = root[3], root[4], root[5], root[6], root[7]
                        # '/E1<s>': the E1 at the root
                        expected.setdefault('/E1' + slice_text, []).append(
                            py_select(of(root, 'E1'), slice_text, bare_all))
                        # '/S1/E1<s>'
                        expected.setdefault('/S1/E1' + slice_text, []).append(
                            py_select(of(seq.members, 'E1'), slice_text, bare_all))
                        # '/E1[2].A1<s>': attributes of the third root E1
                        expected.setdefault('/E1[2].A1' + slice_text, []).append(
                            py_select(of(with_attrs.attributes, 'A1'), slice_text, bare_all))
                        # '/R1/E2<s>' and '/D1[0]/E1<s>': one list per repetition, one envelope around them
                        for key, node, ident in (('/R1/E2', fixed, 'E2'), ('/D1[0]/E1', delayed, 'E1')):
                            k = node.descriptor.n_members
                            blocks = [py_select(of(node.members[j:j + k], ident), slice_text, bare_all)
                                      for j in range(0, len(node.members), k)]
                            blocks = [b for b in blocks if b]
                            expected.setdefault(key + slice_text, []).append([blocks] if blocks else [])
                        # '/D1<s>.F': the factors of the delayed replications the slice keeps (3 and 0)
                        expected.setdefault('/D1' + slice_text + '.F', []).append(
                            of([n.factor for n in py_select([delayed, empty], slice_text, bare_all)], 'F'))
                        # '/D1[1]/E1<s>': the replication with no repetition
                        expected.setdefault('/D1[1]/E1' + slice_text, []).append([])
                    for path in ['/E1', '/S1/E1', '/E1[2].A1', '/R1/E2', '/D1[0]/E1', '/D1[1]/E1']:
                        path += slice_text
                        got = run_query(querent, msg, subset_text + path)
                        want = 'IndexError' if overflow else (subsets, expected.get(path, []))
                        check(got == want, 'D/hand', bare_all, compressed, repr(subset_text + path), got, want)
                        n_nonempty += got != 'IndexError' and any(got[1])
                    path = '/D1' + slice_text + '.F'
                    got = run_query(querent, msg, subset_text + path)
                    want = 'IndexError' if overflow else (subsets, expected.get(path, []))
                    check(got == want, 'D/hand', bare_all, compressed, repr(subset_text + path), got, want)
    check(n_nonempty > 1500, 'coverage of part D (hand built)', n_nonempty)
    return n_nonempty


def part_d_corpus():
    rng = random.Random(66)
    decoder = Decoder()
    querent = DataQuerent(NodePathParser())
    n_files = n_nonempty = 0
    for path in sorted(glob.glob(os.path.join('tests', 'data', '*.bufr'))):
        name = os.path.basename(path)
        if name == 'multi_invalid_messages.bufr':
            continue
        with open(path, 'rb') as ins:
            msg = decoder.process(ins.read())
        n_files += 1
        td = msg.template_data.value
        n = td.n_subsets
        # value nodes right under the root and right under the sequences at the root, per subset
        root_ids = sorted(set(str(x.descriptor) for x in td.decoded_nodes_all_subsets[0]
                              if isinstance(x, ValueDataNode)))
        seqs = [x for x in td.decoded_nodes_all_subsets[0] if isinstance(x, SequenceNode)]
        seq_pairs = sorted(set((str(s.descriptor), str(m.descriptor)) for s in seqs for m in s.members
                               if isinstance(m, ValueDataNode)))
        rng.shuffle(root_ids)
        rng.shuffle(seq_pairs)
        for kind, keys in (('root', root_ids[:15]), ('seq', seq_pairs[:15])):
            for key in keys:
                for slice_text in rng.sample(SLICE_TEXTS, 10):
                    subset_text = rng.choice(SUBSET_TEXTS) if rng.random() < 0.5 else ''
                    subsets = py_subsets(n, subset_text)
                    overflow = any(i >= n for i in subsets)
                    values = []
                    for i in ([] if overflow else subsets):
                        vals = td.decoded_values_all_subsets[i]
                        nodes = td.decoded_nodes_all_subsets[i]
                        if kind == 'root':
                            items = [vals[x.index] for x in nodes if str(x.descriptor) == key]
                            values.append(py_select(items, slice_text))
                        else:
                            # every sequence with that ID at the root, then the step below it in each of them
                            out = []
                            for s in nodes:
                                if str(s.descriptor) == key[0]:
                                    items = [vals[m.index] for m in s.members if str(m.descriptor) == key[1]]
                                    out += py_select(items, slice_text)
                            values.append(out)
                    text = subset_text + ('/' + key + slice_text if kind == 'root'
                                          else '/' + key[0] + '/' + key[1] + slice_text)
                    got = run_query(querent, msg, text)
                    want = 'IndexError' if overflow else (subsets, values)
                    check(got == want, 'D/corpus', name, repr(text), repr(got)[:200], repr(want)[:200])
                    n_nonempty += got != 'IndexError' and any(got[1])
    check(n_files >= 15 and n_nonempty > 500, 'coverage of part D (corpus)', n_files, n_nonempty)
    return n_files, n_nonempty


if __name__ == '__main__':
    part_a()
    a = N_CHECKS[0]
    part_b()
    b = N_CHECKS[0] - a
    counts = part_c()
    c = N_CHECKS[0] - a - b
    hand = part_d_hand()
    n_files, corpus = part_d_corpus()
    d = N_CHECKS[0] - a - b - c
    print('part A: {} direct checks'.format(a))
    print('part B: {} error inputs with their messages'.format(b))
    print('part C: {} checks of parse() against the reference parser {}'.format(c, counts))
    print('part D: {} whole queries ({} non-empty on hand built messages, {} non-empty on {} sample files)'.format(
        d, hand, corpus, n_files))
    print('OK')
