import os, sys; sys.path.insert(0, os.getcwd())

# ---------------------------------------------------------------------------
# Independent, hand-written BUFR edition 4 stream builder and reference
# expander (does not use any pybufrkit code, so it is a genuine oracle).
# ---------------------------------------------------------------------------
import math
import random

DEFINITION_TEMPLATE = [103000, 31001, 1, 2, 3,
                       101000, 31001, 300004,
                       105000, 31001, 300003, 205064, 101000, 31001, 30]

# The few standard (table file) elements used by the demos: id -> (unit, scale, ref, width)
STANDARD_B = {
    '001001': ('Numeric', 0, 0, 7),
    '012001': ('K', 1, 0, 12),
    '031001': ('Numeric', 0, 0, 8),
    '031002': ('Numeric', 0, 0, 16),
    '031000': ('Numeric', 0, 0, 1),
}


class Bits(object):
    def __init__(self):
        self.bits = []

    def uint(self, value, nbits):
        assert 0 <= value < (1 << nbits) or nbits == 0, (value, nbits)
        self.bits.extend((value >> i) & 1 for i in range(nbits - 1, -1, -1))

    def text(self, s, nbytes):
        raw = s.encode('ascii') if isinstance(s, str) else s
        raw = raw.ljust(nbytes, b' ')
        assert len(raw) == nbytes, (s, nbytes)
        for ch in raw:
            self.uint(ch, 8)

    def to_bytes(self):
        bits = self.bits + [0] * (-len(self.bits) % 8)
        return bytes(int(''.join(map(str, bits[i:i + 8])), 2) for i in range(0, len(bits), 8))


def make_message(data_category, descriptor_ids, payload, n_subsets=1, compressed=False,
                 master_table_version=33):
    sec1 = (b'\x00\x00\x16' + bytes([0]) + (7).to_bytes(2, 'big') + (0).to_bytes(2, 'big') +
            bytes([0, 0, data_category, 0, 0, master_table_version, 0]) +
            (2024).to_bytes(2, 'big') + bytes([1, 2, 3, 4, 5]))
    assert len(sec1) == 22
    flags = 0x80 | (0x40 if compressed else 0)
    body3 = bytes([0]) + n_subsets.to_bytes(2, 'big') + bytes([flags])
    for id_ in descriptor_ids:
        id_ = int(id_)
        f, x, y = id_ // 100000, (id_ // 1000) % 100, id_ % 1000
        body3 += bytes([(f << 6) | x, y])
    sec3 = (len(body3) + 3).to_bytes(3, 'big') + body3
    sec4 = (len(payload) + 4).to_bytes(3, 'big') + b'\x00' + payload
    total = 8 + len(sec1) + len(sec3) + len(sec4) + 4
    return b'BUFR' + total.to_bytes(3, 'big') + b'\x04' + sec1 + sec3 + sec4 + b'7777'


def make_definition_message(b_defs, d_defs, a_defs=(('200', 'DEMO', ''),), n_subsets=1):
    """
    b_defs: list of (id6, name, unit, scale, ref, width); d_defs: list of (id6, name, [member id6...])
    A member count given explicitly as (id6, name, members, count) overrides len(members).
    """
    w = Bits()
    w.uint(len(a_defs), 8)
    for entry, line1, line2 in a_defs:
        w.text(entry, 3), w.text(line1, 32), w.text(line2, 32)
    w.uint(len(b_defs), 8)
    for id6, name, unit, scale, ref, width in b_defs:
        w.text(id6[0], 1), w.text(id6[1:3], 2), w.text(id6[3:], 3)
        w.text(name[:32], 32), w.text(name[32:], 32)
        w.text(unit, 24)
        for number, nchars in ((scale, 3), (ref, 10)):
            if isinstance(number, tuple):  # raw (sign text, magnitude text), for malformed definitions
                w.text(number[0], 1), w.text(number[1], nchars)
            else:
                w.text('+' if number >= 0 else '-', 1), w.text(str(abs(number)), nchars)
        w.text(str(width), 3)
    w.uint(len(d_defs), 8)
    for d_def in d_defs:
        id6, name, members = d_def[:3]
        w.text(id6[0], 1), w.text(id6[1:3], 2), w.text(id6[3:], 3)
        w.text(name, 64)
        w.uint(d_def[3] if len(d_def) > 3 else len(members), 8)
        for member in members:
            w.text(member, 6)
    return make_message(11, DEFINITION_TEMPLATE, w.to_bytes() * n_subsets, n_subsets=n_subsets)


def is_replication_only(members):
    if not members or members[0][0] != '1' or int(members[0][1:3]) != 1:
        return False
    return len(members) == (2 if members[0][3:] == '000' else 1)


def expand(ids, b_table, d_table, rng, out):
    """
    Reference expansion of a descriptor list into a flat list of
    (kind, width, raw, expected) fields, choosing raw values with rng.
    Handles elements, fixed / delayed replication, sequences and the NCEP
    replication-only sequences (the replicated descriptor follows the sequence).
    """
    queue = list(ids)
    while queue:
        id6 = queue.pop(0)
        if id6[0] == '3':
            members = d_table[id6]
            if is_replication_only(members):
                queue[0:0] = members
            else:
                expand(members, b_table, d_table, rng, out)
        elif id6[0] == '1':
            n_items, count = int(id6[1:3]), int(id6[3:])
            if count == 0:
                factor = queue.pop(0)
                width = b_table[factor][3]
                count = rng.randint(0, min(3, (1 << width) - 1))
                out.append(('num', width, count, count))
            group = [queue.pop(0) for _ in range(n_items)]
            for _ in range(count):
                expand(group, b_table, d_table, rng, out)
        else:
            unit, scale, ref, width = b_table[id6]
            if unit == 'CCITT IA5':
                raw = bytes(rng.choice(b'ABCDEFGHIJKLMNOPQRSTUVWXYZ0123456789') for _ in range(width // 8))
                out.append(('str', width, raw, raw))
            else:
                top = (1 << width) - 1
                raw = top if (width > 1 and rng.random() < 0.15) else rng.randint(0, max(top - 1, 0) if width > 1 else 1)
                if width > 1 and raw == top:
                    expected = None
                elif unit in ('CODE TABLE', 'FLAG TABLE'):
                    expected = raw
                else:
                    expected = raw + ref
                    if scale != 0:
                        expected = expected / 10.0 ** scale
                out.append(('num', width, raw, expected))
    return out


def make_data_message(ids, b_table, d_table, rng, data_category=0):
    fields = expand(ids, b_table, d_table, rng, [])
    w = Bits()
    for kind, width, raw, _ in fields:
        if kind == 'str':
            w.text(raw, width // 8)
        else:
            w.uint(raw, width)
    return make_message(data_category, ids, w.to_bytes()), [f[3] for f in fields]


def make_compressed_data_message(ids, b_table, d_table, rng, n_subsets=3, data_category=0):
    """No delayed replication here, so that all subsets share one structure."""
    subsets = [expand(ids, b_table, d_table, rng, []) for _ in range(n_subsets)]
    w = Bits()
    for column in zip(*subsets):
        kind, width = column[0][0], column[0][1]
        raws = [f[2] for f in column]
        if kind == 'str':
            w.text(b'\x00' * (width // 8), width // 8)
            w.uint(width // 8, 6)
            for raw in raws:
                w.text(raw, width // 8)
        else:
            top = (1 << width) - 1
            present = [r for r in raws if not (width > 1 and r == top)]
            if not present:
                w.uint(top, width), w.uint(0, 6)
                continue
            low = min(present)
            nbits_diff = max((max(present) - low + 1).bit_length(), 2)
            w.uint(low, width), w.uint(nbits_diff, 6)
            for raw in raws:
                w.uint((1 << nbits_diff) - 1 if (width > 1 and raw == top) else raw - low, nbits_diff)
    return (make_message(data_category, ids, w.to_bytes(), n_subsets=n_subsets, compressed=True),
            [[f[3] for f in subset] for subset in subsets])


def tables_of(b_defs, d_defs, base_b=None, base_d=None):
    b_table = dict(STANDARD_B if base_b is None else base_b)
    d_table = dict({} if base_d is None else base_d)
    for id6, _, unit, scale, ref, width in b_defs:
        b_table[id6] = (unit, scale, ref, width)
    for d_def in d_defs:
        d_table[d_def[0]] = list(d_def[2])
    return b_table, d_table


def same_values(got, expected):
    if len(got) != len(expected):
        return False
    for g, e in zip(got, expected):
        if e is None or isinstance(e, (bytes, int)):
            if g != e or type(g) is not type(e):
                return False
        elif not (isinstance(g, float) and math.isclose(g, e, rel_tol=1e-12, abs_tol=0.0)):
            return False
    return True
# ---------------------------------------------------------------------------


import io
import contextlib

from pybufrkit.errors import PyBufrKitError
from pybufrkit.decoder import Decoder, generate_bufr_message
from pybufrkit.tables import TableGroupCacheManager


def values_of(message):
    return message.template_data.value.decoded_values_all_subsets


def check(messages, expectations):
    assert len(messages) == len(expectations), (len(messages), len(expectations))
    for message, expected in zip(messages, expectations):
        if expected is None:  # a definition message
            assert message.data_category.value == 11
            continue
        got = values_of(message)
        assert len(got) == len(expected)
        for g, e in zip(got, expected):
            assert same_values(g, e), (g, e)


def data_messages(rng, b_table, d_table, ids, n, compressed_ids=None):
    blobs, expectations = [], []
    for i in range(n):
        if compressed_ids is not None and i % 2:
            blob, expected = make_compressed_data_message(compressed_ids, b_table, d_table, rng)
        else:
            blob, expected = make_data_message(ids, b_table, d_table, rng)
            expected = [expected]
        blobs.append(blob)
        expectations.append(expected)
    return blobs, expectations


rng = random.Random(2002)
decoder = Decoder()

B1 = [('048001', 'HEIGHT', 'M', 2, -500, 14), ('050002', 'STATION', 'CCITT IA5', 0, 0, 48),
      ('063003', 'QUALITY', 'CODE TABLE', 0, 0, 5), ('055004', 'PRESSURE', 'PA', -2, 7, 9)]
D1 = [('360001', 'DRP8BIT', ['101000', '031001']),
      ('361001', 'SEQ A', ['048001', '102002', '050002', '063003', '001001']),
      ('361002', 'SEQ B', ['361001', '360001', '055004', '012001'])]
b1, d1 = tables_of(B1, D1)
def1 = make_definition_message(B1, D1)
blobs1, expect1 = data_messages(rng, b1, d1, ['361002', '048001'], 4, compressed_ids=['361001', '055004'])
stream1 = def1 + b''.join(blobs1)

# --- 0. nothing is registered by reading metadata only ---------------------------------------------
assert not TableGroupCacheManager.has_extra_entries()
messages = list(generate_bufr_message(decoder, stream1, info_only=True))
assert [m.data_category.value for m in messages] == [11, 0, 0, 0, 0]
assert [m.serialized_bytes for m in messages] == [def1] + blobs1
assert not TableGroupCacheManager.has_extra_entries()
# ... not even when a filter is given
messages = list(generate_bufr_message(decoder, stream1, info_only=True, filter_expr='${%data_category} == 0'))
assert [m.serialized_bytes for m in messages] == blobs1
assert not TableGroupCacheManager.has_extra_entries()

# --- 1. data before its definitions cannot be decoded; with continue_on_error it is skipped ---------
try:
    list(generate_bufr_message(decoder, blobs1[0] + stream1))
    raise SystemExit('data over undefined descriptors decoded')
except PyBufrKitError:
    pass
assert not TableGroupCacheManager.has_extra_entries()

# --- 2. a definition message without subsets defines nothing and is passed on -----------------------
empty_definition = make_message(11, DEFINITION_TEMPLATE, b'', n_subsets=0)
messages = list(generate_bufr_message(decoder, empty_definition + empty_definition))
assert [(m.data_category.value, m.n_subsets.value) for m in messages] == [(11, 0), (11, 0)]
assert not TableGroupCacheManager.has_extra_entries()

# --- 3. a malformed definition message: the error surfaces, nothing is registered -------------------
bad_definition = make_definition_message([('048001', 'BAD', 'M', ('+', 'abc'), 0, 8)], [])
for continue_on_error in (False, True):
    try:
        list(generate_bufr_message(decoder, bad_definition + stream1, continue_on_error=continue_on_error))
        raise SystemExit('malformed definition accepted')
    except ValueError:
        pass
    assert not TableGroupCacheManager.has_extra_entries()
two_subsets = make_definition_message(B1, D1, n_subsets=2)
# (rebased: since "fix: a message of data category 11 that is not laid out as a table definition message
# no longer aborts the scan with AssertionError" such a message is passed on as an ordinary message, with a
# warning, and defines nothing; it used to stop the scan with an AssertionError)
for continue_on_error in (False, True):
    messages = list(generate_bufr_message(decoder, two_subsets + b'xx' + two_subsets,
                                          continue_on_error=continue_on_error))
    assert [(m.data_category.value, m.n_subsets.value) for m in messages] == [(11, 2), (11, 2)]
    assert [m.serialized_bytes for m in messages] == [two_subsets, two_subsets]
    assert not TableGroupCacheManager.has_extra_entries()

# --- 4. the plain protocol: definitions, then data, with noise between the messages ----------------
noisy = b'junk' + def1 + b'\r\n\r\n' + b'xx'.join(blobs1) + b'BUF trailing'
messages = list(generate_bufr_message(decoder, noisy))
check(messages, [None] + expect1)
assert TableGroupCacheManager.has_extra_entries()
# data before the definition is skipped with continue_on_error, the rest is decoded
with contextlib.redirect_stderr(io.StringIO()) as err:
    messages = list(generate_bufr_message(decoder, blobs1[0] + stream1, continue_on_error=True))
# (by now the descriptors are known from the run before, hence everything decodes)
check(messages, [expect1[0], None] + expect1)

# --- 5. a second definition message adds and overrides; earlier ones stay in force ------------------
B2 = [('048001', 'HEIGHT REDEFINED', 'M', 0, 1000, 20), ('049007', 'NEW ONE', 'FLAG TABLE', 0, 0, 11),
      ('012001', 'TEMPERATURE REDEFINED', 'K', 2, -27315, 16)]
D2 = [('361002', 'SEQ B REDEFINED', ['049007', '103000', '031001', '048001', '055004', '012001']),
      ('362009', 'SEQ NEW', ['361001', '361002'])]
b2, d2 = tables_of(B2, D2, base_b=b1, base_d=d1)
def2 = make_definition_message(B2, D2)
blobs_mid, expect_mid = data_messages(rng, b1, d1, ['361002', '012001'], 3, compressed_ids=['361001', '012001'])
blobs2, expect2 = data_messages(rng, b2, d2, ['362009', '048001', '001001'], 4,
                                compressed_ids=['361001', '049007', '012001'])
stream2 = def1 + b''.join(blobs_mid) + def2 + b''.join(blobs2)
messages = list(generate_bufr_message(decoder, stream2))
# the messages in the middle use 012001 with its standard meaning: def2 redefines it only afterwards
check(messages, [None] + expect_mid + [None] + expect2)

# --- 6. definitions rejected by a filter still govern what follows ---------------------------------
B3 = [('057001', 'ONLY VIA FILTERED DEFINITION', 'M', 1, -30, 10)]
D3 = [('357001', 'SEQ', ['057001', '101003', '057001'])]
b3, d3 = tables_of(B3, D3, base_b=b2, base_d=d2)
def3 = make_definition_message(B3, D3)
blobs3, expect3 = data_messages(rng, b3, d3, ['357001', '362009'], 3, compressed_ids=['357001', '048001'])
messages = list(generate_bufr_message(decoder, def3 + b''.join(blobs3), filter_expr='${%data_category} != 11'))
check(messages, expect3)
# ... and an accepting filter yields the definition message, fully decoded, too
messages = list(generate_bufr_message(decoder, def3 + b''.join(blobs3), filter_expr='${%edition} == 4'))
check(messages, [None] + expect3)
assert len(values_of(messages[0])[0]) > 3
assert [m.serialized_bytes for m in messages] == [def3] + blobs3

# --- 7. a truncated last message ------------------------------------------------------------------
with contextlib.redirect_stderr(io.StringIO()):
    messages = list(generate_bufr_message(decoder, def3 + blobs3[0] + blobs3[1][:-9], continue_on_error=True))
check(messages, [None, expect3[0]])
try:
    list(generate_bufr_message(decoder, def3 + blobs3[0] + blobs3[1][:-9]))
    raise SystemExit('truncated message decoded')
except PyBufrKitError:
    pass

# --- 8. the real NCEP file --------------------------------------------------------------------------
with open(os.path.join('tests', 'data', 'prepbufr.bufr'), 'rb') as ins:
    prepbufr = ins.read()
messages = list(generate_bufr_message(decoder, prepbufr))
assert [m.data_category.value for m in messages[:2]] == [11, 11] and messages[1].n_subsets.value == 0
last = values_of(messages[-1])[0]
assert last[-10:] == [294.6, 0.0083, 0, 0, 0, 0, 3, 0, 0, 0], last[-10:]
assert all(prepbufr.count(m.serialized_bytes) >= 1 for m in messages)

print('demo 2 OK')
