import os, sys; sys.path.insert(0, os.getcwd())
import copy
import glob
import itertools
import random

import pybufrkit
assert os.path.dirname(os.path.dirname(os.path.abspath(pybufrkit.__file__))) == os.getcwd(), pybufrkit.__file__

from pybufrkit.decoder import Decoder
from pybufrkit.encoder import Encoder
from pybufrkit.errors import PyBufrKitError
from pybufrkit.renderer import FlatJsonRenderer

DATA_DIR = os.path.join('tests', 'data')
META_SKIP = {'length', 'section_length', 'n_subsets', 'template_data'}


# --------------------------------------------------------------------------
# inputs
# --------------------------------------------------------------------------
def make_json(n_subsets, compressed, rows):
    """A small edition 4 message: 301011 (y/m/d), 012101 (numeric, scale 2),
    001015 (20 byte string), 020011 (code table), 002001 (code table)."""
    return [
        ['BUFR', 0, 4],
        [22, 0, 1, 0, 0, False, '0000000', 2, 4, 0, 18, 0, 2016, 2, 18, 23, 0, 0],
        [0, '00000000', n_subsets, True, compressed, '000000',
         [301011, 12101, 1015, 20011, 2001]],
        [0, '00000000', [list(r) for r in rows]],
        ['7777'],
    ]


def generated_rows():
    name = lambda s: s.ljust(20)
    return [
        # y     m   d   temp     name             cloud  station
        [2016,  2,  18, 273.15,  name('ALPHA'),   3,     1],
        [2016,  2,  19, 280.01,  name('BRAVO'),   3,     None],
        [2016,  None, 19, None,  None,            3,     None],
        [2016,  2,  18, 273.15,  name('ALPHA'),   3,     1],
        [2016,  12, 1,  199.99,  name('ECHO'),    None,  None],
        [2016,  2,  20, 280.01,  None,            7,     None],
    ]


def build_inputs(decoder, corpus=True):
    """Yield (label, source message) pairs: generated, then sample corpus."""
    rows = generated_rows()
    encoder = Encoder()
    for compressed in (False, True):
        for n in (1, 2, len(rows)):
            encoded = encoder.process(make_json(n, compressed, rows[:n]))
            yield ('generated n=%d compressed=%s' % (n, compressed),
                   decoder.process(encoded.serialized_bytes))
    if corpus:
        for base in ('contrived', '207003', 'ISMD01_OKPR', 'g2nd_208', 'b005_89',
                     'jaso_214', 'IUSK73_AMMC_182300', 'b002_95', 'uegabe'):
            with open(os.path.join(DATA_DIR, base + '.bufr'), 'rb') as ins:
                yield base, decoder.process(ins.read())


def index_collections(n, rng):
    """Non-empty in-range collections: single, first/last, full, any order, repeats."""
    seen = []

    def add(c):
        if c not in seen:
            seen.append(c)
    add([0])
    add([n - 1])
    add([0, n - 1])
    add(list(range(n)))
    add(list(range(n - 1, -1, -1)))
    add([n - 1, 0, n - 1, 0])
    add((n // 2,))
    add({0, n - 1, n // 2})
    if n > 2:
        add([1, n - 2, 1])
        for _ in range(3):
            k = rng.randint(1, min(n, 5))
            add([rng.randrange(n) for _ in range(k)])
        picked = rng.sample(range(n), min(n, 4))
        add(picked)
        add(picked + picked[:1])
    return seen


# --------------------------------------------------------------------------
# the property
# --------------------------------------------------------------------------
def all_ones(descriptor, value):
    """True when value is the all-ones pattern of the (non-string) field."""
    nbits = getattr(descriptor, 'nbits', None)
    if nbits is None or isinstance(value, (bytes, str)) or value is None:
        return False
    try:
        raw = int(round(value * 10 ** descriptor.scale)) - descriptor.refval
    except Exception:
        return False
    return raw == 2 ** nbits - 1


def same_values(descriptors, expected, actual):
    if len(expected) != len(actual):
        return False
    for d, e, a in zip(descriptors, expected, actual):
        if e == a and type(e) is type(a):
            continue
        if a is None and all_ones(d, e):
            continue            # FM-94: all ones is missing
        return False
    return True


def metadata(message):
    return [(p.name, p.value) for s in message.sections for p in s
            if p.name not in META_SKIP]


def snapshot(message):
    return (message.serialized_bytes,
            FlatJsonRenderer().render(message),
            copy.deepcopy(message.template_data.value.decoded_values_all_subsets),
            [[d.id for d in ds] for ds in message.template_data.value.decoded_descriptors_all_subsets])


def verify_output(label, message, indices, raw, decoder, encoder):
    """raw is the encoded result of subsetting message by indices."""
    result = decoder.process(raw)
    wanted = sorted(set(indices))
    td_src = message.template_data.value
    td_new = result.template_data.value

    assert result.n_subsets.value == len(wanted), (label, indices)
    assert len(td_new.decoded_values_all_subsets) == len(wanted), (label, indices)
    for k, idx in enumerate(wanted):
        assert same_values(td_src.decoded_descriptors_all_subsets[idx],
                           td_src.decoded_values_all_subsets[idx],
                           td_new.decoded_values_all_subsets[k]), (label, indices, k, idx)
        assert ([d.id for d in td_new.decoded_descriptors_all_subsets[k]] ==
                [d.id for d in td_src.decoded_descriptors_all_subsets[idx]]), (label, indices, k)

    # template, identification and compression flag unchanged
    assert result.unexpanded_descriptors.value == message.unexpanded_descriptors.value, label
    assert result.is_compressed.value == message.is_compressed.value, label
    assert metadata(result) == metadata(message), (label, indices)
    # valid message: declared length is the real one, signatures in place
    assert raw[:4] == b'BUFR' and raw[-4:] == b'7777', label
    assert result.length.value == len(raw), label
    # the decoded message re-encodes to the very same bytes
    again = encoder.process(FlatJsonRenderer().render(result), wire_template_data=False)
    assert again.serialized_bytes == raw, (label, indices)
    return result


def check_subset(label, message, indices, decoder, encoder):
    before = snapshot(message)
    n = message.n_subsets.value
    indices_before = copy.copy(indices)

    data = message.subset(indices)
    assert isinstance(data, list) and len(data) == len(message.sections), label
    encoded = encoder.process(data, file_path='<demo>', wire_template_data=False)
    raw = encoded.serialized_bytes
    verify_output(label, message, indices, raw, decoder, encoder)

    # source and argument untouched
    assert snapshot(message) == before, (label, indices)
    assert message.n_subsets.value == n
    assert indices == indices_before and type(indices) is type(indices_before)
    return data, raw


def check_refusals(label, message):
    n = message.n_subsets.value
    before = snapshot(message)
    for bad in ([n], [0, n], [n, 0], [-1], [0, -1], [-1, 0], [n - 1, n], [n + 5], (n,), {0, -1}):
        try:
            message.subset(bad)
        except PyBufrKitError:
            pass
        else:
            raise AssertionError('%s: %r accepted' % (label, bad))
    # both ends wrong: the upper bound is reported
    try:
        message.subset([-1, n])
    except PyBufrKitError as e:
        assert 'maximum subset index out of range' in str(e), str(e)
    else:
        raise AssertionError('accepted')
    try:
        message.subset([-1])
    except PyBufrKitError as e:
        assert 'minimum subset index out of range' in str(e), str(e)
    else:
        raise AssertionError('accepted')
    # an empty collection is not a selection at all
    for empty in ([], (), set()):
        try:
            message.subset(empty)
        except ValueError:
            pass
        else:
            raise AssertionError('empty accepted')
    assert snapshot(message) == before, label


def run_property(corpus=True, seed=10, encoders=None, extra=None):
    rng = random.Random(seed)
    decoder = Decoder()
    encoders = encoders or [Encoder(), Encoder(compiled_template_cache_max=8)]
    count = 0
    for label, message in build_inputs(decoder, corpus=corpus):
        n = message.n_subsets.value
        check_refusals(label, message)
        for indices in index_collections(n, rng):
            outputs = []
            for encoder in encoders:
                data, raw = check_subset(label, message, indices, decoder, encoder)
                outputs.append(raw)
                if extra:
                    extra(label, message, indices, data, raw)
                count += 1
            assert len(set(outputs)) == 1, (label, indices)   # compiled == interpreted
    return count


# --------------------------------------------------------------------------
# demo 4: Encoder.process_string_compressed / process_codeflag_compressed
# --------------------------------------------------------------------------
from pybufrkit.bitops import get_bit_writer, get_bit_reader
from pybufrkit.coder import CoderState


class Recorder(object):
    """Stands in for the bit writer, keeps what would be written."""

    def __init__(self):
        self.calls = []

    def write_uint(self, value, nbits):
        self.calls.append(('uint', value, nbits))

    def write_bytes(self, value, nbytes=None):
        self.calls.append(('bytes', value, nbytes))


class FakeDescriptor(object):
    def __init__(self, nbits):
        self.nbits = nbits


def ones(nbits):
    return (1 << nbits) - 1


def width_for(span):
    nbits = 1
    while ones(nbits) <= span:
        nbits += 1
    return nbits


def expected_codeflag(column, nbits):
    if all(v is None for v in column):
        return [('uint', ones(nbits), nbits), ('uint', 0, 6)]
    if all(v == column[0] for v in column):
        return [('uint', column[0], nbits), ('uint', 0, 6)]
    present = [v for v in column if v is not None]
    low = min(present)
    width = width_for(max(present) - low + 1)
    return ([('uint', low, nbits), ('uint', width, 6)] +
            [('uint', ones(width) if v is None else v - low, width) for v in column])


def expected_string(column, nbytes):
    if all(v is None for v in column):
        return [('bytes', '\xff' * nbytes, nbytes), ('uint', 0, 6)]
    if all(v == column[0] for v in column):
        return [('bytes', column[0], nbytes), ('uint', 0, 6)]
    return ([('bytes', '\0' * nbytes, nbytes), ('uint', nbytes, 6)] +
            [('bytes', '\xff' * nbytes if v is None else v, nbytes) for v in column])


CODEFLAG_COLUMNS = [
    ([None, None, None], 4),
    ([None], 2),
    ([3, 3, 3], 4),
    ([0, 0], 1),
    ([7], 4),
    ([3, 7], 4),
    ([3, None, 3], 4),
    ([None, 1], 2),
    ([1, None], 2),
    ([0, 1, 2, 3], 6),
    ([0, 2], 6),
    ([62, 0, 31, None, 62], 6),
    ([1024, 2048, 0], 18),
    ([5, 6], 9),
]

STRING_COLUMNS = [
    ([None, None], 8),
    ([None], 20),
    (['ALPHA   ', 'ALPHA   '], 8),
    ([b'ALPHA   ', b'ALPHA   ', b'ALPHA   '], 8),
    (['X'], 1),
    (['ALPHA   ', 'BRAVO   '], 8),
    ([b'ALPHA   ', b'BRAVO   ', None], 8),
    ([None, 'ECHO'], 4),
    (['ab', None, 'ab'], 2),
    (['short', 'longer than the field'], 8),        # the writer pads / cuts
    (['', 'x'], 1),
]


def run_column(method, column, width, writer, n_declared=None):
    lists = [[99, v, 98] for v in column]               # the element sits at position 1
    keep = copy.deepcopy(lists)
    state = CoderState(True, len(column) if n_declared is None else n_declared, lists)
    state.idx_value = 1
    descriptor = FakeDescriptor(width)
    assert method(state, writer, descriptor, width) is None
    assert state.idx_value == 2
    assert state.decoded_descriptors == [descriptor]
    assert lists == keep and state.decoded_values_all_subsets is lists     # inputs not modified
    assert all(type(a) is type(b) for x, y in zip(lists, keep) for a, b in zip(x, y))


def read_back(method, writer, n, width):
    nbits_written = writer.get_pos()
    writer.write_bin('0' * (-nbits_written % 8))
    back = CoderState(True, n)
    method(back, get_bit_reader(writer.to_bytes()), FakeDescriptor(width), width)
    return [vals[0] for vals in back.decoded_values_all_subsets]


def as_field(value, nbytes):
    if value is None:
        return b'\xff' * nbytes
    if isinstance(value, str):
        value = value.encode('latin-1')
    return value[:nbytes].ljust(nbytes, b' ')


def demo_columns():
    decoder = Decoder()
    for encoder in (Encoder(), Encoder(compiled_template_cache_max=2)):
        for column, nbits in CODEFLAG_COLUMNS:
            recorder = Recorder()
            run_column(encoder.process_codeflag_compressed, column, nbits, recorder)
            wanted = expected_codeflag(column, nbits)
            assert recorder.calls == wanted, (column, recorder.calls, wanted)
            assert all(type(c[1]) is int for c in recorder.calls)
            writer = get_bit_writer()
            run_column(encoder.process_codeflag_compressed, column, nbits, writer)
            assert writer.get_pos() == sum(c[2] for c in wanted)
            got = read_back(decoder.process_codeflag_compressed, writer, len(column), nbits)
            assert got == column, (column, got)

        for column, nbytes in STRING_COLUMNS:
            recorder = Recorder()
            run_column(encoder.process_string_compressed, column, nbytes, recorder)
            wanted = expected_string(column, nbytes)
            assert recorder.calls == wanted, (column, recorder.calls, wanted)
            writer = get_bit_writer()
            run_column(encoder.process_string_compressed, column, nbytes, writer)
            n_written = 1 if wanted[1][1] == 0 else 1 + len(column)
            assert writer.get_pos() == 8 * nbytes * n_written + 6, column
            got = read_back(decoder.process_string_compressed, writer, len(column), nbytes)
            assert got == [as_field(v, nbytes) for v in column], (column, got)

    # ---- corner cases keep failing the same way, before anything is written
    encoder = Encoder()
    for method, column, width, n_declared, error in (
            (encoder.process_codeflag_compressed, ['a', 1], 4, None, TypeError),
            (encoder.process_codeflag_compressed, [None, None], 4, 3, TypeError),
            (encoder.process_codeflag_compressed, [None], 70, None, IndexError),
            (encoder.process_codeflag_compressed, [1, None, 2 ** 70], 80, None, IndexError),
            (encoder.process_codeflag_compressed, [1.5, 3.5], 8, None, TypeError),
            (encoder.process_string_compressed, [None, None], 1.5, None, TypeError),
            (encoder.process_string_compressed, ['a', 'b'], None, None, TypeError),
    ):
        recorder = Recorder()
        try:
            run_column(method, column, width, recorder, n_declared)
        except error:
            pass
        else:
            raise AssertionError('no %s for %r' % (error.__name__, column))
        assert recorder.calls == [], (column, recorder.calls)
    # a zero width string field: header only
    recorder = Recorder()
    run_column(encoder.process_string_compressed, ['a', 'b'], 0, recorder)
    assert recorder.calls == [('bytes', '', 0), ('uint', 0, 6)], recorder.calls
    # a declared count that disagrees with the data disables the all-equal shortcut
    recorder = Recorder()
    run_column(encoder.process_codeflag_compressed, [4, 4], 8, recorder, n_declared=3)
    assert recorder.calls == [('uint', 4, 8), ('uint', 2, 6), ('uint', 0, 2), ('uint', 0, 2)]
    recorder = Recorder()
    run_column(encoder.process_string_compressed, ['ab', 'ab'], 2, recorder, n_declared=3)
    assert recorder.calls == [('bytes', '\0\0', 2), ('uint', 2, 6), ('bytes', 'ab', 2), ('bytes', 'ab', 2)]
    # a non-text value in a string column is left for the writer to refuse
    writer = get_bit_writer()
    try:
        run_column(encoder.process_string_compressed, [5, 5], 2, writer)
    except TypeError:
        pass
    else:
        raise AssertionError('number written as string')


if __name__ == '__main__':
    demo_columns()
    n = run_property()
    print('demo 4 ok: %d columns, %d subset/encode/decode round trips'
          % (len(CODEFLAG_COLUMNS) + len(STRING_COLUMNS), n))
