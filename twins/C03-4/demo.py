"""
Demo for refactor 4 (decoder.py: reference value and scale applied by one helper in
process_numeric_uncompressed / process_numeric_compressed; missing-increment test merged).

The messages are put together bit by bit here, independently of the encoder, so that the
decoder is checked against the layout of FM 94 and not merely against its own inverse.

Run as:  cd /tmp/tw_C03 && /venv/bin/python _out/4/demo.py
"""
import os, sys; sys.path.insert(0, os.getcwd())

import json
import random

import pybufrkit
assert os.path.dirname(os.path.abspath(pybufrkit.__file__)) == os.path.join(os.getcwd(), 'pybufrkit')

from pybufrkit.errors import PyBufrKitError, BitReadError
from pybufrkit.encoder import Encoder
from pybufrkit.decoder import Decoder
from pybufrkit.renderer import FlatJsonRenderer
from pybufrkit.utils import JSON_DUMPS_KWARGS

ENC = Encoder()
DEC = Decoder()
DEC_COMPILED = Decoder(compiled_template_cache_max=20)
REN = FlatJsonRenderer()
rnd = random.Random(11)


def expect(error, func, *args, **kwargs):
    try:
        func(*args, **kwargs)
    except error as e:
        return e
    raise AssertionError('%r did not raise %s' % (func, error))


def uint(value, nbits):
    assert 0 <= value < (1 << nbits), (value, nbits)
    return format(value, '0%db' % nbits) if nbits else ''


def craft(descriptors, n_subsets, compressed, data_bits):
    """A complete edition 4 message around the given bits of the data section."""
    data_bits += '0' * (-len(data_bits) % 8)
    payload = bytes(bytearray(int(data_bits[i:i + 8], 2) for i in range(0, len(data_bits), 8)))
    section1 = bytes(bytearray([0, 0, 22, 0, 0, 98, 0, 0, 0, 0, 0, 0, 0, 25, 0, 2020 >> 8, 2020 & 255, 1, 2, 3, 4, 5]))
    n3 = 7 + 2 * len(descriptors)
    section3 = bytearray([0, 0, n3, 0, n_subsets >> 8, n_subsets & 255, 0x80 | (0x40 if compressed else 0)])
    for d in descriptors:
        f, x, y = d // 100000, d // 1000 % 100, d % 1000
        section3 += bytearray([f << 6 | x, y])
    n4 = 4 + len(payload)
    section4 = bytes(bytearray([n4 >> 16, n4 >> 8 & 255, n4 & 255, 0])) + payload
    total = 8 + 22 + n3 + n4 + 4
    return (b'BUFR' + bytes(bytearray([total >> 16, total >> 8 & 255, total & 255, 4])) +
            section1 + bytes(section3) + section4 + b'7777')


def decode(b):
    flat = REN.render(DEC.process(b))
    assert flat[0] == [b'BUFR', len(b), 4]
    values = flat[3][2]
    assert values == REN.render(DEC_COMPILED.process(b))[3][2]
    return values


def reencode(b):
    return ENC.process(json.dumps(REN.render(DEC.process(b)), **JSON_DUMPS_KWARGS)).serialized_bytes


def value_of(raw, scale, refval):
    """What FM 94 says the raw number stands for."""
    return (raw + refval) / (1.0 * 10 ** scale) if scale else raw + refval


def same(x, y):
    """Equal also in type: an element of scale 0 stays an integer."""
    return x == y and type(x) is type(y)


# descriptor prefix, element, nbits, scale, refval as effective
COLUMNS = [((), 12001, 12, 1, 0),
           ((), 12101, 16, 2, 0),
           ((), 5001, 25, 5, -9000000),
           ((), 6001, 26, 5, -18000000),
           ((), 1001, 7, 0, 0),
           ((), 7004, 14, -1, 0),
           ((), 7001, 15, 0, -400),
           ((), 31000, 1, 0, 0),
           ((201130,), 12001, 14, 1, 0),
           ((201125,), 5001, 22, 5, -9000000),
           ((202129,), 12001, 12, 2, 0),
           ((202126,), 7001, 15, -2, -400),
           ((207001,), 5001, 29, 6, -90000000),
           ((201129, 202130), 7001, 16, 2, -400)]

n_checked = 0

# ---------------------------------------------------------------- uncompressed
for prefix, element, nbits, scale, refval in COLUMNS:
    descriptors = list(prefix) + [element]
    top = (1 << nbits) - 1  # the missing value, but for a single bit
    raws = sorted({0, 1, top - 1, top // 2} | {rnd.randint(0, max(top - 1, 0)) for _ in range(8)})
    raws = [raw for raw in raws if 0 <= raw < top or nbits == 1]
    for raw in raws:
        b = craft(descriptors, 1, False, uint(raw, nbits))
        (got,), = decode(b)
        assert same(got, value_of(raw, scale, refval)), (element, raw, got)
        # exact read back of a decoded value; the crafted message is canonical already
        assert reencode(b) == b
        n_checked += 1
    if nbits > 1:
        b = craft(descriptors, 1, False, uint(top, nbits))
        assert decode(b) == [[None]]
        assert reencode(b) == b
    else:
        assert decode(craft(descriptors, 1, False, '1')) == [[1]]

    # several subsets, one after the other
    raws = [rnd.randint(0, max(top - 1, 0)) for _ in range(6)] + [top]
    b = craft(descriptors, len(raws), False, ''.join(uint(raw, nbits) for raw in raws))
    want = [[None if raw == top and nbits > 1 else value_of(raw, scale, refval)] for raw in raws]
    got = decode(b)
    assert got == want and all(same(x[0], y[0]) for x, y in zip(got, want))
    assert reencode(b) == b

    # data that ends too early
    if nbits > 8:
        short = craft(descriptors, 1, False, '')
        expect(BitReadError, DEC.process, short[:-4])
        expect(PyBufrKitError, DEC_COMPILED.process, short[:-4])

# a new reference value (203) is taken at run time, also with the factor of 207
for new_refval in (-100, 0, 77, -2047):
    descriptors = [203012, 12001, 203255, 12001, 207001, 12001, 207000, 12001, 203000, 12001]
    sign_magnitude = ('1' if new_refval < 0 else '0') + uint(abs(new_refval), 11)
    for raw in (0, 1, 2047, 4094):
        bits = sign_magnitude + uint(raw, 12) + uint(raw, 16) + uint(raw, 12) + uint(raw, 12)
        b = craft(descriptors, 1, False, bits)
        (got,) = decode(b)
        want = [new_refval, value_of(raw, 1, new_refval), value_of(raw, 2, new_refval * 10),
                value_of(raw, 1, new_refval), value_of(raw, 1, 0)]
        assert got == want, (got, want)
        assert reencode(b) == b
        n_checked += 1

# ------------------------------------------------------------------ compressed
for prefix, element, nbits, scale, refval in COLUMNS:
    descriptors = list(prefix) + [element]
    top = (1 << nbits) - 1
    for n_subsets in (1, 2, 5):
        # all missing: minimum of all ones, no increments
        if nbits > 1:
            b = craft(descriptors, n_subsets, True, uint(top, nbits) + uint(0, 6))
            assert decode(b) == [[None]] * n_subsets
            assert reencode(b) == b
            # ... increments are not allowed then
            for nbits_diff in (1, 3):
                bad = craft(descriptors, n_subsets, True,
                            uint(top, nbits) + uint(nbits_diff, 6) + '0' * nbits_diff * n_subsets)
                e = expect(PyBufrKitError, DEC.process, bad)
                assert 'nbits_diff must be zero' in e.message and not isinstance(e, BitReadError)
                expect(PyBufrKitError, DEC_COMPILED.process, bad)

        # all equal
        for raw in {0, 1 % (top or 2), max(top - 1, 0), top // 2, rnd.randint(0, max(top - 1, 0))}:
            b = craft(descriptors, n_subsets, True, uint(raw, nbits) + uint(0, 6))
            got = decode(b)
            want = value_of(raw, scale, refval)
            assert len(got) == n_subsets and all(len(x) == 1 and same(x[0], want) for x in got)
            assert reencode(b) == b
            n_checked += 1

        if nbits == 1:
            continue

        # increments of every width, the all-ones increment being the missing value
        for nbits_diff in range(1, min(nbits, 20) + 1):
            top_diff = (1 << nbits_diff) - 1
            raw_min = rnd.randint(0, top - 1 - min(top_diff, top - 1))
            diffs = [rnd.randint(0, top_diff) for _ in range(n_subsets)]
            if n_subsets > 1:
                diffs[0] = 0
                diffs[-1] = top_diff  # missing
            if n_subsets > 2:
                diffs[1] = max(top_diff - 1, 0)
            if raw_min + max(d for d in diffs + [0] if d != top_diff) >= top:
                continue
            bits = uint(raw_min, nbits) + uint(nbits_diff, 6) + ''.join(uint(d, nbits_diff) for d in diffs)
            b = craft(descriptors, n_subsets, True, bits)
            got = decode(b)
            want = [[None if d == top_diff else value_of(raw_min + d, scale, refval)] for d in diffs]
            assert got == want, (element, nbits_diff, got, want)
            assert all(same(x[0], y[0]) for x, y in zip(got, want))
            n_checked += 1
            # a second round trip is byte-identical to the first
            b1 = reencode(b)
            assert reencode(b1) == b1
            assert decode(b1) == got

    # one-bit increments: 0 is the minimum itself, 1 is missing
    raw_min = top // 3
    b = craft(descriptors, 4, True, uint(raw_min, nbits) + uint(1, 6) + '0110')
    x = value_of(raw_min, scale, refval)
    assert decode(b) == [[x], [None], [None], [x]]
    # (the encoder spends two bits on such increments, hence not the same bytes at first)
    b1 = reencode(b)
    assert decode(b1) == decode(b) and reencode(b1) == b1

    # increments cut short
    bad = craft(descriptors, 200, True, uint(0, nbits) + uint(9, 6))
    expect(BitReadError, DEC.process, bad[:-4])

# two elements side by side, compressed, with operators in between
descriptors = [5001, 201130, 202129, 12001, 202000, 201000, 1001]
bits = (uint(100, 25) + uint(4, 6) + uint(0, 4) + uint(15, 4) + uint(7, 4) +
        uint(5, 14) + uint(0, 6) +
        uint(127, 7) + uint(0, 6))
b = craft(descriptors, 3, True, bits)
assert decode(b) == [[value_of(100, 5, -9000000), 0.05, None],
                     [None, 0.05, None],
                     [value_of(107, 5, -9000000), 0.05, None]]
assert reencode(b) == b

# ------------------------------------------- values of the user, through the encoder
DESCRIPTORS = [12001, 5001, 1001, 7004]


def make(subsets, compressed=False):
    return [['BUFR', 0, 4],
            [22, 0, 0, 98, 0, False, '0000000', 0, 0, 0, 25, 0, 2020, 1, 2, 3, 4, 5],
            [0, '00000000', len(subsets), True, compressed, '000000', list(DESCRIPTORS)],
            [0, '00000000', [list(s) for s in subsets]],
            ['7777']]


for compressed in (False, True):
    subsets = [[273.14, -12.345678, 5, 101325.0], [0.04, 89.999996, 0, 4.9], [None, None, None, None],
               [409.4, -90, 126, 163820], [100.25, 0.0000049, 63, 99999.9]]
    b = ENC.process(make(subsets, compressed)).serialized_bytes
    got = decode(b)
    for r, g in zip(subsets, got):
        for x, y, unit in zip(r, g, (0.1, 0.00001, 1, 10)):
            if x is None:
                assert y is None
            else:
                assert abs(y - x) <= 0.5 * unit * (1 + 1e-9), (x, y)
    assert type(got[0][2]) is int and type(got[0][0]) is float and type(got[0][3]) is float
    assert reencode(b) == b
    assert ENC.process(make(got, compressed)).serialized_bytes == b
    for idx, x in ((0, 409.6), (0, -0.06), (1, -90.00001), (1, 245.54432), (2, 128), (2, -1), (3, 163835), (3, -6)):
        subset = list(subsets[0])
        subset[idx] = x
        expect(ValueError, ENC.process, make([subset], compressed))

# ---------------------------------------------------------------------- corpus
for name in ('207003', 'ISMD01_OKPR', 'IUSK73_AMMC_182300', 'amv2_87', 'b002_95', 'b005_89',
             'contrived', 'g2nd_208', 'jaso_214', 'mpco_217', 'profiler_european'):
    with open(os.path.join('tests', 'data', name + '.bufr'), 'rb') as ins:
        b0 = ins.read()
    values0 = REN.render(DEC.process(b0))[-2][-1]
    assert REN.render(DEC_COMPILED.process(b0))[-2][-1] == values0, name
    b1 = reencode(b0)
    assert reencode(b1) == b1, name
    assert REN.render(DEC.process(b1))[-2][-1] == values0, name

print('OK: %d crafted messages' % n_checked)
