import os, sys; sys.path.insert(0, os.getcwd())
"""
Differential demonstration for refactor 8 (Encoder.process: walking the sections, total length).

Expected results come from outside the code under test:
 * the octets of small messages of editions 2, 3 and 4 (with and without the optional section 2)
   are written down by hand from the layout of the sections in FM-94;
 * sample files that are already in canonical form must come back octet for octet;
 * error messages and lengths are worked out by hand.
"""
import copy
import json

import pybufrkit
from pybufrkit.decoder import Decoder, generate_bufr_message
from pybufrkit.encoder import Encoder
from pybufrkit.errors import PyBufrKitError
from pybufrkit.renderer import FlatJsonRenderer
from pybufrkit.utils import EntityEncoder

assert os.path.dirname(os.path.dirname(os.path.abspath(pybufrkit.__file__))) == os.getcwd(), pybufrkit.__file__

n_checks = 0


def check(cond, what):
    global n_checks
    n_checks += 1
    if not cond:
        print('FAILED: {}'.format(what))
        sys.exit(1)


def raises(exc_type, func, what, text=None):
    try:
        func()
    except Exception as e:
        check(type(e) is exc_type, '{}: {} expected, got {!r}'.format(what, exc_type.__name__, e))
        if text is not None:
            check(text in str(e), '{}: message {!r} expected, got {!r}'.format(what, text, str(e)))
    else:
        check(False, '{}: {} expected, nothing raised'.format(what, exc_type.__name__))


def h(s):
    return bytes.fromhex(s.replace(' ', ''))


def u24(n):
    return n.to_bytes(3, 'big')


# ---------------------------------------------------------------------------------------------
# 1. Hand-made messages: one subset, uncompressed, 004001 YEAR (12 bits) = 2024, 004002 MONTH (4 bits) = 5
# ---------------------------------------------------------------------------------------------
DATA = h('7E 85')  # 0111 1110 1000 | 0101
DESCRIPTORS = h('04 01 04 02')
LOCAL_BITS = '1010101011110000'

SECTION1 = {
    # edition: (values for the encoder with the flag of section 2 left open, octets behind the length)
    4: ([0, 0, 89, 0, 0, None, '0000000', 0, 2, 0, 13, 0, 2007, 11, 21, 12, 0, 0],
        '00 0059 0000 00 {flag} 00 02 00 0D 00 07D7 0B 15 0C 00 00'),
    3: ([0, 0, 0, 98, 0, None, '0000000', 2, 95, 13, 1, 12, 10, 31, 0, 0, 0],
        '00 00 62 00 {flag} 02 5F 0D 01 0C 0A 1F 00 00 00'),
    2: ([0, 0, 98, 0, None, '0000000', 2, 95, 13, 1, 12, 10, 31, 0, 0, 0],
        '00 0062 00 {flag} 02 5F 0D 01 0C 0A 1F 00 00 00'),
}


def handmade(edition, with_section2, declared=False):
    """
    :return: the message for the encoder and its octets
    :param declared: put the true lengths into the input instead of zeros
    """
    values1, octets1 = SECTION1[edition]
    values1 = list(values1)
    values1[values1.index(None)] = with_section2
    body1 = h(octets1.format(flag='80' if with_section2 else '00'))
    section1 = u24(3 + len(body1)) + body1
    check(len(section1) == (22 if edition == 4 else 18), 'layout of section 1')

    section2 = (u24(6) + h('00 AA F0')) if with_section2 else b''

    body3 = h('00 0001 80') + DESCRIPTORS
    # an even number of octets up to edition 3
    pad3 = b'\0' if edition <= 3 else b''
    section3 = u24(3 + len(body3) + len(pad3)) + body3 + pad3

    section4 = u24(6) + h('00') + DATA
    total = 8 + len(section1) + len(section2) + len(section3) + len(section4) + 4
    octets = b'BUFR' + u24(total) + bytes([edition]) + section1 + section2 + section3 + section4 + b'7777'
    check(len(octets) == total, 'layout of the message')

    values1[0] = len(section1) if declared else 0
    given = [['BUFR', total if declared else 0, edition], values1]
    if with_section2:
        given.append([6 if declared else 0, '00000000', LOCAL_BITS])
    given.append([len(section3) if declared else 0, '00000000', 1, True, False, '000000', [4001, 4002]])
    given.append([6 if declared else 0, '00000000', [[2024, 5]]])
    given.append(['7777'])
    return given, octets


decoder = Decoder()
for edition in (2, 3, 4):
    for with_section2 in (False, True):
        for declared in (False, True):
            what = 'edition {} section 2 {} lengths {}'.format(
                edition, 'present' if with_section2 else 'absent', 'declared' if declared else 'zero')
            given, octets = handmade(edition, with_section2, declared)
            kept = copy.deepcopy(given)
            for ignore in (True, False):
                encoder = Encoder(ignore_declared_length=ignore)
                for form, s in (('list', given), ('tuple', tuple(given)), ('text', json.dumps(given)),
                                ('bytes', json.dumps(given).encode('ascii'))):
                    msg = encoder.process(s)
                    check(msg.serialized_bytes == octets, '{} ignore={} {}: octets'.format(what, ignore, form))
                    check(msg.length.value == len(octets), what + ': length of the message object')
                    check(msg.edition.value == edition, what + ': edition')
                    check(len(msg.sections) == (6 if with_section2 else 5), what + ': sections of the object')
                    check([section.get_metadata('index') for section in msg.sections] ==
                          ([0, 1, 2, 3, 4, 5] if with_section2 else [0, 1, 3, 4, 5]), what + ': section indices')
                    check(msg.filename == '<string>', what + ': file name')
                    check(msg.template_data.value._is_wired is True, what + ': wired')
                    check(msg.template_data.value.decoded_values_all_subsets == [[2024, 5]], what + ': values')
            check(given == kept, what + ': input untouched')
            # not wired on request, named on request
            msg = Encoder().process(given, 'here.json', False)
            check(msg.serialized_bytes == octets and msg.filename == 'here.json'
                  and msg.template_data.value._is_wired is False, what + ': not wired')
            msg = Encoder().process(given, wire_template_data=False, file_path='there.json')
            check(msg.serialized_bytes == octets and msg.filename == 'there.json'
                  and msg.template_data.value._is_wired is False, what + ': not wired (keywords)')
            # what follows the end section is not looked at
            check(Encoder().process(given + [['8888'], 17]).serialized_bytes == octets, what + ': items after the end')
            # and it reads back
            decoded = decoder.process(octets)
            check(decoded.template_data.value.decoded_values_all_subsets == [[2024, 5]], what + ': decodes')
            filled_in = handmade(edition, with_section2, True)[0]
            filled_in[0][0], filled_in[-1][0] = b'BUFR', b'7777'  # octets stay octets in the rendering
            check(FlatJsonRenderer().render(decoded) == filled_in,
                  what + ': rendering of the decoded message is the input with the lengths filled in')

            # -- total length declared wrongly
            total = len(octets)
            for wrong, by in ((total + 3, -3), (total - 2, 2), (1, total - 1)):
                bad = handmade(edition, with_section2, True)[0]
                bad[0][1] = wrong
                check(Encoder().process(bad).serialized_bytes == octets, what + ': wrong total length ignored')
                raises(PyBufrKitError, lambda: Encoder(ignore_declared_length=False).process(bad),
                       what + ': wrong total length', 'Write exceeds declared total length {} by {} bytes'.format(wrong, by))
            # zero total length with declared section lengths: calculated
            zero = handmade(edition, with_section2, True)[0]
            zero[0][1] = 0
            check(Encoder(ignore_declared_length=False).process(zero).serialized_bytes == octets,
                  what + ': zero total length calculated')
            # a section declared longer than needed is filled up when lengths are honoured, and the total follows
            longer = handmade(edition, with_section2, True)[0]
            longer[-2][0] = 10
            longer[0][1] = 0
            stretched = octets[:-10] + u24(10) + h('00') + DATA + h('00000000') + b'7777'
            stretched = stretched[:4] + u24(total + 4) + stretched[7:]
            check(Encoder(ignore_declared_length=False).process(longer).serialized_bytes == stretched,
                  what + ': section 4 declared longer')
            check(Encoder(ignore_declared_length=True).process(longer).serialized_bytes == octets,
                  what + ': section 4 declared longer, ignored')
            longer[0][1] = total
            raises(PyBufrKitError, lambda: Encoder(ignore_declared_length=False).process(longer),
                   what + ': total too short for the longer section',
                   'Write exceeds declared total length {} by 4 bytes'.format(total))

            # -- input that ends too early, or does not fit the sections
            for n in range(len(given)):
                raises(IndexError, lambda: Encoder().process(given[:n]), '{}: only {} items'.format(what, n))
            short = copy.deepcopy(given)
            del short[1][-1]
            raises(AssertionError, lambda: Encoder().process(short), what + ': section 1 one value short')
            if with_section2:
                # flag says section 2 is absent: its item is taken for section 3
                wrong = copy.deepcopy(given)
                wrong[1][5 if edition > 2 else 4] = False
                raises(AssertionError, lambda: Encoder().process(wrong), what + ': unannounced section 2')
            else:
                wrong = copy.deepcopy(given)
                wrong[1][5 if edition > 2 else 4] = True
                raises(AssertionError, lambda: Encoder().process(wrong), what + ': announced section 2 missing')

# overrides of the constructor reach the sections
given, octets = handmade(4, False)
msg = Encoder(master_table_version=14).process(given)
check(msg.serialized_bytes == octets[:21] + b'\x0e' + octets[22:], 'master table version overridden')
check(msg.master_table_version.value == 14, 'master table version of the object')
given3, octets3 = handmade(3, True)
msg = Encoder(master_table_version=14).process(given3)
check(msg.serialized_bytes == octets3[:18] + b'\x0e' + octets3[19:], 'master table version overridden, edition 3')

# other inputs
raises(TypeError, lambda: Encoder().process(None), 'None')
raises(TypeError, lambda: Encoder().process(5), 'a number')
raises(IndexError, lambda: Encoder().process('[]'), 'empty list as text')
raises(KeyError, lambda: Encoder().process({}), 'empty dict')
raises(json.JSONDecodeError, lambda: Encoder().process('BUFR'), 'no JSON')
raises(TypeError, lambda: Encoder().process([None]), 'no values for section 0')
as_dict = dict(enumerate(given))
check(Encoder().process(as_dict).serialized_bytes == octets, 'sections in a dict keyed by position')

# ---------------------------------------------------------------------------------------------
# 2. Sample files
# ---------------------------------------------------------------------------------------------
DATA_DIR = os.path.join('tests', 'data')
# canonical already: come back octet for octet whether declared lengths are ignored or honoured
CANONICAL = ['IUSK73_AMMC_040000', 'IUSK73_AMMC_182300', 'b002_95', 'contrived', 'mpco_217',
             'profiler_european', 'rado_250']
# carry octets of padding that only the declared lengths account for
PADDED = ['b005_89', 'uegabe']
# compressed by another encoder in its own way: another length when encoded again
OTHERS = ['207003', 'amv2_87', 'g2nd_208', 'jaso_214', 'ISMD01_OKPR', 'asr3_190']

for stub in CANONICAL + PADDED + OTHERS:
    with open(os.path.join(DATA_DIR, stub + '.bufr'), 'rb') as ins:
        for i, original in enumerate(generate_bufr_message(decoder, ins.read())):
            what = '{} message {}'.format(stub, i)
            octets = original.serialized_bytes
            rendered = FlatJsonRenderer().render(original)
            kept = copy.deepcopy(rendered)
            first = Encoder().process(rendered)
            check(rendered == kept, what + ': input untouched')
            b = first.serialized_bytes
            check(b[:4] == b'BUFR' and b[-4:] == b'7777' and int.from_bytes(b[4:7], 'big') == len(b)
                  and first.length.value == len(b), what + ': frame and total length')
            if stub in CANONICAL:
                check(b == octets, what + ': identical to the file')
                check(Encoder(ignore_declared_length=False).process(rendered).serialized_bytes == octets,
                      what + ': identical to the file with the declared lengths')
            elif stub in PADDED:
                check(len(b) < len(octets), what + ': padding dropped')
                check(Encoder(ignore_declared_length=False).process(rendered).serialized_bytes == octets,
                      what + ': identical to the file with the declared lengths')
            else:
                # with the declared lengths: the length of the file, or no room in a section
                try:
                    honoured = Encoder(ignore_declared_length=False).process(rendered).serialized_bytes
                except PyBufrKitError as e:
                    check('Writing exceeds declared section length' in str(e), what + ': declared lengths do not fit')
                else:
                    check(len(honoured) == len(octets) and honoured[4:7] == octets[4:7],
                          what + ': length of the file with the declared lengths')
            # canonical fixpoint, from the rendering of what the encoder produced and from its text
            again = FlatJsonRenderer().render(decoder.process(b))
            check(Encoder().process(again).serialized_bytes == b, what + ': fixpoint')
            check(Encoder().process(json.dumps(again, cls=EntityEncoder)).serialized_bytes == b, what + ': fixpoint from text')
            check(Encoder(ignore_declared_length=False).process(again).serialized_bytes == b,
                  what + ': fixpoint with the declared lengths')
            check(Encoder(compiled_template_cache_max=4).process(again).serialized_bytes == b,
                  what + ': fixpoint, compiled template')

print('refactor 8 demo: {} checks passed'.format(n_checks))
