"""
Demo for refactor 2 (bitops.py: BitStringBitWriter.write_uint / skip / set_uint share
one helper that picks the bitstring integer type).

Run as:  cd /tmp/tw_C03 && /venv/bin/python _out/2/demo.py
"""
import os, sys; sys.path.insert(0, os.getcwd())

import json
import random

import pybufrkit
assert os.path.dirname(os.path.abspath(pybufrkit.__file__)) == os.path.join(os.getcwd(), 'pybufrkit')

from pybufrkit.bitops import get_bit_writer, get_bit_reader, BitStringBitWriter, BitWriter
from pybufrkit.errors import PyBufrKitError
from pybufrkit.encoder import Encoder
from pybufrkit.decoder import Decoder
from pybufrkit.renderer import FlatJsonRenderer
from pybufrkit.utils import JSON_DUMPS_KWARGS

rnd = random.Random(7)


def bits_of(writer):
    return writer.bit_stream.bin


def expect(error, func, *args):
    try:
        func(*args)
    except error as e:
        return e
    raise AssertionError('%s%r did not raise %s' % (getattr(func, '__name__', func), args, error))


# ------------------------------------------------------------- the bit writer
w = get_bit_writer()
assert type(w) is BitStringBitWriter and isinstance(w, BitWriter)
assert w.get_pos() == 0 and w.to_bytes() == b''

# write_uint: every width, at the ends of the range and in between; a model of the bits is kept
model = ''
for nbits in list(range(1, 42)) + [48, 56, 63, 64, 65, 72, 128]:
    top = (1 << nbits) - 1
    for value in sorted({0, 1 % (top + 1), top, top - 1 if top else 0, top // 2, rnd.randint(0, top)}):
        pos = w.get_pos()
        ret = w.write_uint(value, nbits)
        assert ret == value and type(ret) is int
        model += format(value, '0%db' % nbits)
        assert w.get_pos() == pos + nbits == len(model)
    # out of range on either side is refused and leaves the stream untouched
    for value in (top + 1, top + 2, 2 * top + 5, -1, -2, -top - 1):
        e = expect(ValueError, w.write_uint, value, nbits)
        assert not isinstance(e, PyBufrKitError)
        assert w.get_pos() == len(model)
assert bits_of(w) == model

# the value is passed through int(): floats are truncated, digit strings and bools are taken
for value, nbits, want in ((5.9, 4, 5), (5.0, 8, 5), (-0.5, 3, 0), ('9', 8, 9), (True, 1, 1), (False, 16, 0), (254.99, 8, 254)):
    ret = w.write_uint(value, nbits)
    assert ret == want and type(ret) is int
    model += format(want, '0%db' % nbits)
assert bits_of(w) == model
for value, error in ((None, TypeError), ('x', ValueError), ([1], TypeError), (float('nan'), ValueError),
                     (float('inf'), OverflowError), (256.0, ValueError), (-1.0, ValueError)):
    expect(error, w.write_uint, value, 8)
    expect(error, w.write_uint, value, 5)
    assert bits_of(w) == model
# a width that is not a number
expect(TypeError, w.write_uint, 1, None)
expect(TypeError, w.write_uint, 1, 'a')
# zero width: nothing can be written
expect(ValueError, w.write_uint, 0, 0)
assert bits_of(w) == model

# skip: zeros of any length
for nbits in (1, 3, 7, 8, 9, 16, 24, 25, 64, 100):
    pos = w.get_pos()
    assert w.skip(nbits) is None
    model += '0' * nbits
    assert w.get_pos() == pos + nbits
assert bits_of(w) == model
expect(TypeError, w.skip, None)
expect(ValueError, w.skip, 0)
expect(ValueError, w.skip, -8)
assert bits_of(w) == model

# write_int: sign and magnitude on top of write_uint
for value, nbits in ((0, 8), (5, 8), (-5, 8), (127, 8), (-127, 8), (-1, 2), (1, 2), (1000, 17), (-1000, 17), (-3.7, 9)):
    ret = w.write_int(value, nbits)
    assert ret == int(value)
    model += ('1' if int(value) < 0 else '0') + format(abs(int(value)), '0%db' % (nbits - 1))
assert bits_of(w) == model
for value, nbits in ((128, 8), (-128, 8), (2, 2), (-2, 2)):
    expect(ValueError, w.write_int, value, nbits)
    # the sign bit went out before the magnitude was refused
    model += '1' if value < 0 else '0'
    assert bits_of(w) == model

# the generic entry point
assert w.write(77, 'uint', 7) == 77
model += format(77, '07b')
assert w.write(300, 'uint', 16) == 300
model += format(300, '016b')
expect(ValueError, w.write, 128, 'uint', 7)
assert bits_of(w) == model

# set_uint: replaces in place, at aligned and unaligned positions and widths, and never grows
for nbits, bitpos in ((8, 0), (8, 3), (24, 8), (24, 13), (7, 0), (7, 9), (1, 5), (13, 40), (16, len(model) - 16), (3, len(model) - 3)):
    top = (1 << nbits) - 1
    for value in (top, 0, rnd.randint(0, top)):
        assert w.set_uint(value, nbits, bitpos) is None
        model = model[:bitpos] + format(value, '0%db' % nbits) + model[bitpos + nbits:]
        assert bits_of(w) == model and w.get_pos() == len(model)
    for value in (top + 1, -1):
        expect(ValueError, w.set_uint, value, nbits, bitpos)
        assert bits_of(w) == model
expect(TypeError, w.set_uint, 1, None, 0)
expect(ValueError, w.set_uint, 0, 0, 0)
expect(TypeError, w.set_uint, None, 8, 0)
expect(TypeError, w.set_uint, None, 7, 0)
assert bits_of(w) == model

# what was written reads back
w.skip((-len(model)) % 8)
model += '0' * ((-len(model)) % 8)
data = w.to_bytes()
assert data == int(model, 2).to_bytes(len(model) // 8, 'big')
r = get_bit_reader(data)
assert r.read_bin(len(model)) == model

w2 = get_bit_writer()
fields = [(rnd.randint(1, 40),) for _ in range(300)]
fields = [(n, rnd.randint(0, (1 << n) - 1)) for (n,) in fields]
for n, v in fields:
    w2.write_uint(v, n)
w2.skip((-w2.get_pos()) % 8 or 8)
r = get_bit_reader(w2.to_bytes())
for n, v in fields:
    assert r.read_uint(n) == v

# ----------------------------------------------------------- through the coder
ENC, DEC, REN = Encoder(), Decoder(), FlatJsonRenderer()
DESCRIPTORS = [12001, 1001, 5001, 11001, 20011, 31000, 1015]  # 12, 7, 25, 9, 4, 1 bits, 20 bytes


def make(subsets, compressed=False, edition=4, declared=(0, 0, 0, 0)):
    section1 = ([22, 0, 0, 98, 0, False, '0000000', 0, 0, 0, 25, 0, 2020, 1, 2, 3, 4, 5] if edition == 4 else
                [18, 0, 0, 98, 0, False, '0000000', 0, 0, 13, 0, 20, 1, 2, 3, 4, 0])
    section1[0] = declared[1]
    return [['BUFR', declared[0], edition],
            section1,
            [declared[2], '00000000', len(subsets), True, compressed, '000000', list(DESCRIPTORS)],
            [declared[3], '00000000', [list(s) for s in subsets]],
            ['7777']]


def roundtrip(message, enc=ENC):
    b = enc.process(message).serialized_bytes
    flat = REN.render(DEC.process(b))
    # the lengths patched in with set_uint are the true ones
    assert flat[0][1] == len(b)
    assert sum(section[0] for section in flat[1:-1]) + 8 + 4 == len(b)
    assert ENC.process(json.dumps(flat, **JSON_DUMPS_KWARGS)).serialized_bytes == b
    return b, flat[-2][-1]


good = [273.1, 127 - 1, -89.99999, 360, 14, 0, 'ABC']
for edition in (4, 3):
    b, values = roundtrip(make([good], edition=edition))
    assert values == [[273.1, 126, -89.99999, 360, 14, 0, b'ABC' + b' ' * 17]]
    assert len(b) % 2 == 0 or edition == 4
    b, values = roundtrip(make([[None] * 7], edition=edition))
    assert values == [[None] * 5 + [1, b'\xff' * 20]]  # a single bit has no missing value
    # each field one step beyond either end
    for idx, (lo, hi) in enumerate(((-0.1, 409.6), (-1, 128), (-90.00001, 245.54432), (-1, 512), (-1, 16), (-1, 2))):
        for x in (lo, hi):
            subset = list(good)
            subset[idx] = x
            expect(ValueError, ENC.process, make([subset], edition=edition))
            expect(ValueError, ENC.process, make([good, subset], edition=edition))
    # the same fields compressed, several subsets
    subsets = [good, [0.0, 0, -90.0, 0, 0, 1, 'x' * 20], [409.4, 126, 245.5443, 510, 14, 0, ''], [None] * 5 + [0, None]]
    b, values = roundtrip(make(subsets, compressed=True, edition=edition))
    assert values[0][:6] == good[:6] and values[3][:5] == [None] * 5 and values[2][:5] == [409.4, 126, 245.5443, 510, 14]
    b, values = roundtrip(make(subsets, compressed=False, edition=edition))
    assert values[0][:6] == good[:6] and values[3][:5] == [None] * 5 and values[2][:5] == [409.4, 126, 245.5443, 510, 14]

# declared lengths are honoured on request: the gap is filled by skip()
strict = Encoder(ignore_declared_length=False)
b_auto = ENC.process(make([good])).serialized_bytes
flat = REN.render(DEC.process(b_auto))
n0, n1, n3, n4 = flat[0][1], flat[1][0], flat[2][0], flat[3][0]
assert strict.process(make([good], declared=(n0, n1, n3, n4))).serialized_bytes == b_auto
assert strict.process(make([good], declared=(0, 0, 0, 0))).serialized_bytes == b_auto
for extra in (1, 2, 3, 8, 13):
    b = strict.process(make([good], declared=(n0 + extra, n1, n3, n4 + extra))).serialized_bytes
    assert len(b) == n0 + extra
    assert b == b_auto[:4] + bytes(bytearray(((n0 + extra) >> 16 & 255, (n0 + extra) >> 8 & 255, (n0 + extra) & 255))) \
        + b_auto[7:8 + n1 + n3] + bytes(bytearray(((n4 + extra) >> 16 & 255, (n4 + extra) >> 8 & 255, (n4 + extra) & 255))) \
        + b_auto[8 + n1 + n3 + 3:-4] + b'\0' * extra + b'7777'
    assert REN.render(DEC.process(b))[-2][-1] == flat[-2][-1]
    b = strict.process(make([good], declared=(0, n1, n3, n4 + extra))).serialized_bytes
    assert len(b) == n0 + extra
expect(PyBufrKitError, strict.process, make([good], declared=(n0, n1, n3, n4 - 1)))
expect(PyBufrKitError, strict.process, make([good], declared=(n0 + 1, n1, n3, n4)))

# ---------------------------------------------------------------------- corpus
for name in ('207003', 'ISMD01_OKPR', 'IUSK73_AMMC_182300', 'amv2_87', 'b002_95', 'b005_89',
             'contrived', 'g2nd_208', 'jaso_214', 'mpco_217', 'profiler_european'):
    with open(os.path.join('tests', 'data', name + '.bufr'), 'rb') as ins:
        b0 = ins.read()
    flat0 = REN.render(DEC.process(b0))
    b1 = ENC.process(json.dumps(flat0, **JSON_DUMPS_KWARGS)).serialized_bytes
    flat1 = REN.render(DEC.process(b1))
    b2 = ENC.process(json.dumps(flat1, **JSON_DUMPS_KWARGS)).serialized_bytes
    assert b1 == b2, name
    assert flat1[-2][-1] == flat0[-2][-1], name
    assert flat1[0][1] == len(b1), name

print('OK')
