import os, sys; sys.path.insert(0, os.getcwd())
"""
Refactor 8 - differential demonstration for DataQuerent.query / query_uncompressed_data /
query_compressed_data / process_one_subset.

Messages are packed by hand, bit by bit, from a plain description of each subset
(station, a varying number of temperatures and winds, a bitmap of varying length
and content, the quality values that go with it).  What a query must give is
computed from that description alone, never from pybufrkit.  The demo checks

 * the results of a set of path expressions (children, attributes, descendants,
   slices, subset selections) against those expectations, subset by subset,
 * that querying the subsets together gives what querying each one alone gives,
   and that permuting the subsets permutes the result (all orders),
 * the same on a compressed message packed by hand,
 * the error behaviour: which exception, and at which point (nothing selected,
   first subset selected, subset out of range, values missing),
 * the order in which the nodes and the values of the subsets are fetched,
 * direct calls of query_uncompressed_data / query_compressed_data with subsets in
   any order, repeated, or as an iterator.

Exits 0 on the unpatched and on the patched code.
"""
import itertools

import pybufrkit
assert os.path.dirname(os.path.dirname(os.path.abspath(pybufrkit.__file__))) == os.getcwd(), pybufrkit.__file__

from pybufrkit.decoder import Decoder
from pybufrkit.errors import QueryError
from pybufrkit.dataquery import NodePathParser, DataQuerent, QueryResult

N_CHECKS = [0]


def check(cond, *msg):
    N_CHECKS[0] += 1
    if not cond:
        print('FAILED:', *msg)
        sys.exit(1)


def check_eq(a, b, *msg):
    N_CHECKS[0] += 1
    if a != b:
        print('FAILED:', *msg)
        print('   got     :', a)
        print('   expected:', b)
        sys.exit(1)


def raises(exc, func, *args):
    N_CHECKS[0] += 1
    try:
        func(*args)
    except Exception as e:
        if type(e) is not exc:
            print('FAILED: raised', repr(e), 'not', exc)
            sys.exit(1)
        return e
    print('FAILED: no', exc)
    sys.exit(1)


# --------------------------------------------------------------------------------------
# Packing a message by hand
# --------------------------------------------------------------------------------------
class Bits(object):
    def __init__(self):
        self.s = ''

    def put(self, v, n):
        assert n == 0 or 0 <= v < (1 << n), (v, n)
        if n:
            self.s += format(v, '0{}b'.format(n))

    def tobytes(self):
        s = self.s + '0' * (-len(self.s) % 8)
        return bytes(int(s[i:i + 8], 2) for i in range(0, len(s), 8))


def message(descriptors, n_subsets, bits, compressed=False):
    sec1 = bytes([0, 0, 22, 0, 0, 0, 0, 0, 0, 0, 0, 0, 0, 29, 0, 7, 230, 1, 1, 0, 0, 0])
    ds = b''.join(bytes([(d // 100000) << 6 | (d // 1000 % 100), d % 1000]) for d in descriptors)
    n3 = 7 + len(ds)
    sec3 = bytes([0, n3 >> 8, n3 & 255, 0, n_subsets >> 8, n_subsets & 255, 0x80 | (0x40 if compressed else 0)]) + ds
    data = bits.tobytes()
    n4 = 4 + len(data)
    sec4 = bytes([n4 >> 16, n4 >> 8 & 255, n4 & 255, 0]) + data
    total = 8 + len(sec1) + len(sec3) + len(sec4) + 4
    return b'BUFR' + bytes([total >> 16, total >> 8 & 255, total & 255, 4]) + sec1 + sec3 + sec4 + b'7777'


# --------------------------------------------------------------------------------------
# The uncompressed message
# --------------------------------------------------------------------------------------
#   301001                    WMO block (7 bits) and station (10 bits)
#   101000 031001 012001      temperatures: 12 bits, scale 1
#   102000 031001 011001 011002   winds: direction 9 bits, speed 12 bits scale 1
#   222000 236000 101000 031001 031031    a bitmap over the elements just before 222000
#   101000 031001 033007      the quality values (7 bits) of the elements whose bit is 0
#   001001                    7 bits
DESCRIPTORS = [301001, 101000, 31001, 12001, 102000, 31001, 11001, 11002,
               222000, 236000, 101000, 31001, 31031, 101000, 31001, 33007, 1001]
M12 = (1 << 12) - 1

SUBSETS = [
    dict(block=1, station=101, temps=[2731, 2741, 2751], winds=[(90, 50)], bitmap=[1, 0, 0], qa=[60, 70], tail=9),
    dict(block=2, station=102, temps=[], winds=[(180, 10), (190, 20)], bitmap=[0, 1, 1, 0, 1, 0], qa=[1, 2, 3],
         tail=8),
    dict(block=3, station=103, temps=[2500], winds=[], bitmap=[], qa=[], tail=7),
    dict(block=4, station=104, temps=[2600, M12], winds=[(0, 0), (359, 4094), (1, 1)],
         bitmap=[1, 0, 0, 1, 0, 1, 1, 0, 0, 0], qa=[11, 12, 13, 14, 15, 16], tail=6),
]


def pack(subset, bits):
    assert subset['bitmap'].count(0) == len(subset['qa'])
    bits.put(subset['block'], 7)
    bits.put(subset['station'], 10)
    bits.put(len(subset['temps']), 8)
    for t in subset['temps']:
        bits.put(t, 12)
    bits.put(len(subset['winds']), 8)
    for d, s in subset['winds']:
        bits.put(d, 9)
        bits.put(s, 12)
    bits.put(len(subset['bitmap']), 8)
    for b in subset['bitmap']:
        bits.put(b, 1)
    bits.put(len(subset['qa']), 8)
    for q in subset['qa']:
        bits.put(q, 7)
    bits.put(subset['tail'], 7)


def temp(t):
    return None if t == M12 else t / 10.0


def targets(subset):
    """
    The elements that the quality values refer to, in order: the elements before
    222000 are block, station, count, temperatures, count, (direction, speed)s;
    the bitmap covers the last of them, a zero bit selects.
    """
    before = ([('block', 0), ('station', 0), ('ntemps', 0)] + [('temp', i) for i in range(len(subset['temps']))] +
              [('nwinds', 0)] + [e for i in range(len(subset['winds'])) for e in (('dir', i), ('speed', i))])
    covered = before[len(before) - len(subset['bitmap']):] if subset['bitmap'] else []
    return [e for bit, e in zip(subset['bitmap'], covered) if bit == 0]


def flat_values(subset):
    """All the values of the subset, in the order of the data."""
    return ([subset['block'], subset['station'], len(subset['temps'])] + [temp(t) for t in subset['temps']] +
            [len(subset['winds'])] + [v for d, w in subset['winds'] for v in (d, w / 10.0)] +
            [0, 0, len(subset['bitmap'])] + subset['bitmap'] + [len(subset['qa'])] + subset['qa'] + [subset['tail']])


def attributes(subset, kind, n, flat=False):
    """The quality values of the n elements of the kind, or QueryError if one of them has none."""
    selected = targets(subset)
    if any((kind, i) not in selected for i in range(n)):
        return QueryError
    values = [subset['qa'][selected.index((kind, i))] for i in range(n)]
    return values if flat else envelope([[v] for v in values])


# path expression -> what the subset gives (nested as the query nests: one envelope per
# replication, one list per repetition in which something is found)
def envelope(rows):
    rows = [row for row in rows if row]
    return [rows] if rows else []


EXPECTED = {
    '/301001/001001': lambda s: [s['block']],
    '/301001/001002': lambda s: [s['station']],
    '301001/001001': lambda s: [s['block']],
    '/301001/001001[0]': lambda s: [s['block']],
    '/001001': lambda s: [s['tail']],
    '/222000': lambda s: [0],
    '/236000': lambda s: [0],
    '/101000[0]/012001': lambda s: envelope([[temp(t)] for t in s['temps']]),
    '/101000[0].031001': lambda s: [len(s['temps'])],
    '/102000.031001': lambda s: [len(s['winds'])],
    '/102000/011001': lambda s: envelope([[d] for d, _ in s['winds']]),
    '/102000/011002': lambda s: envelope([[v / 10.0] for _, v in s['winds']]),
    '/101000[1]/031031': lambda s: envelope([[b] for b in s['bitmap']]),
    '/101000[1].031001': lambda s: [len(s['bitmap'])],
    '/101000[2]/033007': lambda s: envelope([[q] for q in s['qa']]),
    '/101000[-1].031001': lambda s: [len(s['qa'])],
    '/101000.031001': lambda s: [len(s['temps']), len(s['bitmap']), len(s['qa'])],
    '/101000[::2].031001': lambda s: [len(s['temps']), len(s['qa'])],
    # attributes: the quality value hangs on the element that the bitmap selects; to ask for the
    # attributes of an element that has none is an error
    '/102000/011001.033007': lambda s: attributes(s, 'dir', len(s['winds'])),
    '/102000/011002.033007': lambda s: attributes(s, 'speed', len(s['winds'])),
    '/101000[0]/012001.033007': lambda s: attributes(s, 'temp', len(s['temps'])),
    '/102000.031001.033007': lambda s: attributes(s, 'nwinds', 1, flat=True),
    '/101000[0].031001.033007': lambda s: attributes(s, 'ntemps', 1, flat=True),
}
# compared flat: the nesting of descendants is not the point here
EXPECTED_FLAT = {
    '>012001': lambda s: [temp(t) for t in s['temps']],
    '>011001': lambda s: [d for d, _ in s['winds']],
    '/102000>011002': lambda s: [v / 10.0 for _, v in s['winds']],
    '>031031': lambda s: list(s['bitmap']),
    '>001002': lambda s: [s['station']],
    '/102000/011001.033007': lambda s: attributes(s, 'dir', len(s['winds']), flat=True),
    '/102000/011002.033007': lambda s: attributes(s, 'speed', len(s['winds']), flat=True),
    '/101000[0]/012001.033007': lambda s: attributes(s, 'temp', len(s['temps']), flat=True),
}

decoder = Decoder()
querent = DataQuerent(NodePathParser())


def decode(subsets):
    bits = Bits()
    for subset in subsets:
        pack(subset, bits)
    return decoder.process(message(DESCRIPTORS, len(subsets), bits))


def results(bufr_message, path_expr, flat=False):
    try:
        r = querent.query(bufr_message, path_expr)
    except QueryError:
        return QueryError
    check(type(r) is QueryResult, 'a QueryResult')
    check_eq(r.path_expr, path_expr, 'path_expr is set')
    check_eq(r.n_subsets, bufr_message.n_subsets.value, 'n_subsets is set')
    return r.subset_indices(), r.all_values(flat=flat)


def outcome_of(indices, want):
    """What the query gives for these subsets: the first that fails fails the query."""
    if any(want[i] is QueryError for i in indices):
        return QueryError
    return indices, [want[i] for i in indices]


def check_message(subsets, label):
    bufr_message = decode(subsets)
    n = len(subsets)
    for flat, table in ((False, EXPECTED), (True, EXPECTED_FLAT)):
        for path_expr, expect in sorted(table.items()):
            want = [expect(s) for s in subsets]
            check_eq(results(bufr_message, path_expr, flat), outcome_of(list(range(n)), want), label, path_expr)
            # selections of subsets
            for selection, indices in (('@[0]', [0]), ('@[{}]'.format(n - 1), [n - 1]), ('@[-1]', [n - 1]),
                                       ('@[::2]', list(range(0, n, 2))), ('@[1:]', list(range(1, n))),
                                       ('@[::-1]', list(range(n - 1, -1, -1))), ('@[{}:]'.format(n), []),
                                       ('@[:]', list(range(n)))):
                check_eq(results(bufr_message, selection + ('' if path_expr[0] in '/>' else '/') + path_expr, flat),
                         outcome_of(indices, want), label, selection, path_expr)
    return bufr_message


together = check_message(SUBSETS, 'all four')
check_eq(together.template_data.value.decoded_values_all_subsets, [flat_values(s) for s in SUBSETS], 'flat values')

# a spot check of the expectations themselves
check_eq(targets(SUBSETS[1]), [('ntemps', 0), ('speed', 0), ('speed', 1)], 'targets, spot check')
check_eq(EXPECTED['/102000/011002.033007'](SUBSETS[1]), [[[2], [3]]], 'spot check')
check(EXPECTED['/102000/011001.033007'](SUBSETS[3]) is QueryError, 'the second direction has no quality value')
check_eq(EXPECTED['/102000/011002.033007'](SUBSETS[2]), [], 'no wind, no error')
check_eq([EXPECTED['/101000[0]/012001.033007'](s) for s in SUBSETS], [QueryError, [], QueryError, [[[11], [12]]]],
         'spot check')
check_eq(EXPECTED['/101000[0]/012001'](SUBSETS[3]), [[[260.0], [None]]], 'spot check')
check_eq(EXPECTED['/101000[0]/012001'](SUBSETS[1]), [], 'zero count: nothing')

# each subset alone, every pair, and the four of them in all orders
for i, subset in enumerate(SUBSETS):
    check_message([subset], 'subset {} alone'.format(i))
for order in itertools.permutations(range(4), 2):
    check_message([SUBSETS[i] for i in order], 'order {}'.format(order))
def values_of(outcome):
    return outcome if outcome is QueryError else outcome[1]


for order in itertools.permutations(range(4)):
    bufr_message = decode([SUBSETS[i] for i in order])
    for path_expr in ('/102000/011002.033007', '/101000[0]/012001', '/101000.031001', '>012001'):
        for flat in (False, True):
            for k, i in enumerate(order):
                check_eq(values_of(results(bufr_message, '@[{}]{}'.format(k, path_expr), flat)),
                         values_of(results(together, '@[{}]{}'.format(i, path_expr), flat)), 'order', order, path_expr)
    check_eq(results(bufr_message, '/101000[0]/012001'),
             ([0, 1, 2, 3], [EXPECTED['/101000[0]/012001'](SUBSETS[i]) for i in order]), 'order', order)
    check(results(bufr_message, '/102000/011002.033007') is QueryError, 'fails in whatever order')

# ---- errors, uncompressed
# a node without value is refused when the values are made, i.e. for the first subset selected ...
e = raises(QueryError, querent.query, together, '/301001')
check_eq(e.args, ('cannot query valueless node: 301001',), 'message')
raises(QueryError, querent.query, together, '@[2]/102000')
# ... and not at all if no subset is selected
check_eq(results(together, '@[4:]/301001'), ([], []), 'nothing selected, nothing refused')
# a path that cannot be followed fails when the nodes of a subset are matched: not if nothing is selected
e = raises(QueryError, querent.query, together, '/301001/001001/001002')
check_eq(e.args, ('001001 has no child nodes',), 'message')
check_eq(results(together, '@[9:]/301001/001001/001002'), ([], []), 'nothing selected, nothing matched')
e = raises(QueryError, querent.query, together, '/301001.033007')
check_eq(e.args, ('301001 has no attribute nodes',), 'message')
# a subset may fail where another does not: the temperatures of the second subset have no attributes
raises(QueryError, querent.query, together, '@[2]/101000[0]/012001.033007')
check_eq(results(together, '@[3]/101000[0]/012001.033007', True), ([3], [[11, 12]]), 'subset 3 has them')
# a subset that does not exist
raises(IndexError, querent.query, together, '@[4]/301001/001001')
raises(IndexError, querent.query, together, '@[4]/301001/001001/001002')
# something that matches nothing
check_eq(results(together, '/301001/012001'), ([0, 1, 2, 3], [[], [], [], []]), 'no match')


# ---- the order in which things are fetched
class Recording(list):
    def __init__(self, items, name, log):
        super(Recording, self).__init__(items)
        self.name, self.log = name, log

    def __getitem__(self, item):
        self.log.append((self.name, item))
        return super(Recording, self).__getitem__(item)


def recorded(bufr_message, func, path_expr, subset_indices):
    log = []
    td = bufr_message.template_data.value
    saved = td.decoded_nodes_all_subsets, td.decoded_values_all_subsets
    td.decoded_nodes_all_subsets = Recording(saved[0], 'nodes', log)
    td.decoded_values_all_subsets = Recording(saved[1], 'values', log)
    try:
        try:
            r = func(td, NodePathParser().parse(path_expr), subset_indices)
            outcome = (r.subset_indices(), r.all_values())
        except Exception as e:
            outcome = type(e)
    finally:
        td.decoded_nodes_all_subsets, td.decoded_values_all_subsets = saved
    return outcome, log


outcome, log = recorded(together, querent.query_uncompressed_data, '/301001/001001', [2, 0, 3])
check_eq(outcome, ([2, 0, 3], [[3], [1], [4]]), 'subsets in the order asked for')
check_eq(log, [('values', 2), ('nodes', 2), ('values', 0), ('nodes', 0), ('values', 3), ('nodes', 3)],
         'values then nodes, subset by subset')
outcome, log = recorded(together, querent.query_uncompressed_data, '/301001/001002', iter([1, 1, 0, 1]))
check_eq(outcome, ([1, 0], [[102], [101]]), 'a subset asked for twice is there once, where it came first')
check_eq(len(log), 8, 'but it is worked out every time')
outcome, log = recorded(together, querent.query_uncompressed_data, '/301001', [1, 0])
check_eq((outcome, log), (QueryError, [('values', 1), ('nodes', 1)]), 'fails on the first subset asked for')
outcome, log = recorded(together, querent.query_uncompressed_data, '/301001/001001', [0, 7, 1])
check_eq((outcome, log), (IndexError, [('values', 0), ('nodes', 0), ('values', 7)]), 'no such subset: the values tell')
outcome, log = recorded(together, querent.query_uncompressed_data, '/301001/001001/001002', [7])
check_eq((outcome, log), (IndexError, [('values', 7)]), 'IndexError comes before the path is followed')
outcome, log = recorded(together, querent.query_uncompressed_data, '/301001/001001/001002', [])
check_eq((outcome, log), (([], []), []), 'nothing asked for, nothing fetched')

# values of a subset missing, nodes there
td = together.template_data.value
full = td.decoded_values_all_subsets
td.decoded_values_all_subsets = full[:3]
try:
    check_eq(results(together, '@[:3]/301001/001001'), ([0, 1, 2], [[1], [2], [3]]), 'the first three are there')
    raises(IndexError, querent.query, together, '/301001/001001')
    raises(IndexError, querent.query, together, '@[3]/301001/001001/001002')
finally:
    td.decoded_values_all_subsets = full
# values of another subset: the nodes index into whatever values are given
td.decoded_values_all_subsets = [full[0]] * 4
try:
    check_eq(results(together, '/301001/001001'), ([0, 1, 2, 3], [[1]] * 4), 'values of subset 0 everywhere')
    raises(IndexError, querent.query, together, '@[3]/001001')  # index 44 of subset 3, subset 0 is shorter
finally:
    td.decoded_values_all_subsets = full

# ---- process_one_subset gives the nodes themselves
nodes = querent.process_one_subset(td.decoded_nodes_all_subsets[0], NodePathParser().parse('/301001/001001'))
check(type(nodes) is list and len(nodes) == 1 and nodes[0] is td.decoded_nodes_all_subsets[0][0].members[0],
      'the node, not a copy')
check_eq(querent.create_values_from_nodes(nodes, td.decoded_values_all_subsets[0]), [1], 'and its value')
check_eq(querent.process_one_subset([], NodePathParser().parse('/301001/001001')), [], 'no nodes, no match')

# --------------------------------------------------------------------------------------
# A compressed message: 301001 101000 031001 012001 011001, three subsets
# --------------------------------------------------------------------------------------
C_DESCRIPTORS = [301001, 101000, 31001, 12001, 11001]
C_COLUMNS = [  # (bits, raw value in each subset, None if missing)
    (7, [1, 2, 3]),  # block
    (10, [10, 10, 10]),  # station: equal everywhere
    (8, [2, 2, 2]),  # count: has to be equal
    (12, [2731, 2741, None]),
    (12, [None, None, None]),
    (9, [10, None, 350]),
]


def pack_compressed(columns, n):
    bits = Bits()
    for nbits, raws in columns:
        assert len(raws) == n
        present = [v for v in raws if v is not None]
        if not present:
            bits.put((1 << nbits) - 1, nbits)
            bits.put(0, 6)
        elif len(present) == n and len(set(present)) == 1:
            bits.put(present[0], nbits)
            bits.put(0, 6)
        else:
            low = min(present)
            width = 1
            while max(present) - low >= (1 << width) - 1:
                width += 1
            bits.put(low, nbits)
            bits.put(width, 6)
            for v in raws:
                bits.put((1 << width) - 1 if v is None else v - low, width)
    return bits


compressed = decoder.process(message(C_DESCRIPTORS, 3, pack_compressed(C_COLUMNS, 3), compressed=True))
check(compressed.is_compressed.value, 'compressed')
C_EXPECTED = {
    '/301001/001001': [[1], [2], [3]],
    '/301001/001002': [[10], [10], [10]],
    '/101000.031001': [[2], [2], [2]],
    '/101000/012001': [[[[273.1], [None]]], [[[274.1], [None]]], [[[None], [None]]]],
    '/101000/012001[0]': [[[[273.1], [None]]], [[[274.1], [None]]], [[[None], [None]]]],
    '/011001': [[10], [None], [350]],
    '>012001': [[[[273.1], [None]]], [[[274.1], [None]]], [[[None], [None]]]],
    '/301001/012001': [[], [], []],
}
for path_expr, want in sorted(C_EXPECTED.items()):
    check_eq(results(compressed, path_expr), ([0, 1, 2], want), 'compressed', path_expr)
    for selection, indices in (('@[0]', [0]), ('@[2]', [2]), ('@[-1]', [2]), ('@[::2]', [0, 2]), ('@[1:]', [1, 2]),
                               ('@[::-1]', [2, 1, 0]), ('@[3:]', [])):
        check_eq(results(compressed, selection + path_expr), (indices, [want[i] for i in indices]),
                 'compressed', selection, path_expr)
# each subset has values of its own (lists that are equal are not the same list)
r = querent.query(compressed, '/301001/001002')
check(r.get_values(0) == r.get_values(1) and r.get_values(0) is not r.get_values(1), 'a list per subset')
# the compressed message and the same three subsets uncompressed answer alike
bits = Bits()
for k in range(3):
    for nbits, raws in C_COLUMNS:
        bits.put((1 << nbits) - 1 if raws[k] is None else raws[k], nbits)
uncompressed = decoder.process(message(C_DESCRIPTORS, 3, bits))
for path_expr in sorted(C_EXPECTED):
    check_eq(results(uncompressed, path_expr), results(compressed, path_expr), 'uncompressed twin', path_expr)

# errors, compressed: the nodes are matched once, before any subset is looked at, even if none is selected
raises(QueryError, querent.query, compressed, '/301001/001001/001002')
raises(QueryError, querent.query, compressed, '@[3:]/301001/001001/001002')
check_eq(results(uncompressed, '@[3:]/301001/001001/001002'), ([], []), 'the uncompressed twin does not mind')
raises(QueryError, querent.query, compressed, '@[3]/301001/001001/001002')  # not IndexError
raises(IndexError, querent.query, uncompressed, '@[3]/301001/001001/001002')  # not QueryError
raises(IndexError, querent.query, compressed, '@[3]/301001/001001')
raises(QueryError, querent.query, compressed, '/301001')
check_eq(results(compressed, '@[3:]/301001'), ([], []), 'valueless node, nothing selected: not refused')

outcome, log = recorded(compressed, querent.query_compressed_data, '/301001/001001', [2, 0, 2, 1])
check_eq(outcome, ([2, 0, 1], [[3], [1], [2]]), 'compressed, subsets in the order asked for')
check_eq(log, [('nodes', 0), ('values', 2), ('values', 0), ('values', 2), ('values', 1)], 'nodes once, first')
outcome, log = recorded(compressed, querent.query_compressed_data, '/301001/001001/001002', [])
check_eq((outcome, log), (QueryError, [('nodes', 0)]), 'matched even for no subset')
outcome, log = recorded(compressed, querent.query_compressed_data, '/301001/001001', iter([1, 5]))
check_eq((outcome, log), (IndexError, [('nodes', 0), ('values', 1), ('values', 5)]), 'no such subset')
outcome, log = recorded(compressed, querent.query_compressed_data, '/301001', [1])
check_eq((outcome, log), (QueryError, [('nodes', 0), ('values', 1)]), 'refused when the values are made')

# compressed data queried as if it were not (and the other way round): what the two methods do differently
outcome, log = recorded(compressed, querent.query_uncompressed_data, '/301001/001001', [1, 2])
check_eq(outcome, ([1, 2], [[2], [3]]), 'shared nodes, matched for every subset')
check_eq(log, [('values', 1), ('nodes', 1), ('values', 2), ('nodes', 2)], 'order')
outcome, log = recorded(together, querent.query_compressed_data, '/102000.031001', [1, 2, 3])
# the count of winds of subset 0 is its value number 6: block, station, count, three temperatures come first
check_eq(outcome, ([1, 2, 3], [[flat_values(SUBSETS[i])[6]] for i in (1, 2, 3)]),
         'nodes of subset 0 applied to the values of the others')
check_eq(outcome[1], [[190], [0], [0]], 'that is')
check_eq(log, [('nodes', 0), ('values', 1), ('values', 2), ('values', 3)], 'order')

# ---- query() goes by the flag of the message
calls = []


class Spy(DataQuerent):
    def query_compressed_data(self, template_data, node_path, subset_indices):
        calls.append(('compressed', str(node_path), list(subset_indices)))
        return super(Spy, self).query_compressed_data(template_data, node_path, subset_indices)

    def query_uncompressed_data(self, template_data, node_path, subset_indices):
        calls.append(('uncompressed', str(node_path), list(subset_indices)))
        return super(Spy, self).query_uncompressed_data(template_data, node_path, subset_indices)

    def process_one_subset(self, decoded_nodes, node_path):
        calls.append(('one subset', len(decoded_nodes)))
        return super(Spy, self).process_one_subset(decoded_nodes, node_path)


spy = Spy(NodePathParser())
check_eq(spy.query(compressed, '@[1:]/301001/001001').all_values(), [[2], [3]], 'spy, compressed')
check_eq(spy.query(together, '@[1:3]/301001/001001').all_values(), [[2], [3]], 'spy, uncompressed')
check_eq(calls, [('compressed', '@[1::]/301001[::]/001001[::]', [1, 2]), ('one subset', 3),
                 ('uncompressed', '@[1:3:]/301001[::]/001001[::]', [1, 2]), ('one subset', 8), ('one subset', 8)],  # 8 descriptors at the top of the template
         'which methods, with what, in which order')

print('OK: {} checks'.format(N_CHECKS[0]))
