import os, sys; sys.path.insert(0, os.getcwd())

import random

import bitstring

from pybufrkit.bitops import get_bit_reader, get_bit_writer
from pybufrkit.constants import NUMERIC_MISSING_VALUES
from pybufrkit.errors import BitReadError, PyBufrKitError


def pad_to_byte(writer):
    rest = -writer.get_pos() % 8
    if rest:
        writer.skip(rest)
    return rest


def expect(exc_type, func, *args):
    try:
        func(*args)
    except Exception as e:
        assert isinstance(e, exc_type), (exc_type, type(e), e)
        if exc_type is not BitReadError:
            assert not isinstance(e, PyBufrKitError), (type(e), e)
        return e
    raise AssertionError('no {} from {}{}'.format(exc_type.__name__, func.__name__, args))


def expect_bit_read_error(func, *args):
    """The library's error, carrying the text of the bitstring error it replaces."""
    e = expect(BitReadError, func, *args)
    assert type(e) is BitReadError and isinstance(e, PyBufrKitError)
    assert not isinstance(e, bitstring.Error)
    original = e.__context__
    assert isinstance(original, bitstring.ReadError), type(original)
    assert e.__cause__ is None and not e.__suppress_context__
    assert e.message == original.msg and e.args == (original.msg,)
    assert str(e) == 'Error: ' + original.msg
    assert 'Needed a length of at least' in e.message
    return e


def values_for(n):
    return sorted({0, 1, 2 ** (n - 1), max(2 ** n - 2, 0), 2 ** n - 1})


# the table the detection relies on
assert len(NUMERIC_MISSING_VALUES) == 65
assert all(NUMERIC_MISSING_VALUES[n] == 2 ** n - 1 for n in range(65))

# ---------------------------------------------------------------------------
# 1. exhaustive: all ones is missing (None) for every width but 1
# ---------------------------------------------------------------------------
count = 0
for n in range(1, 65):
    for value in values_for(n):
        for offset in range(8):
            w = get_bit_writer()
            if offset:
                w.write_uint(2 ** offset - 1, offset)      # ones in front must not confuse it
            w.write_uint(value, n)
            tail = pad_to_byte(w)
            data = w.to_bytes()

            r = get_bit_reader(data)
            if offset:
                r.read_uint(offset)
            got = r.read_uint_or_none(n)
            if n > 1 and value == 2 ** n - 1:
                assert got is None, (n, value, offset, got)
            else:
                assert got == value and type(got) is int, (n, value, offset, got)
            assert r.get_pos() == offset + n == w.get_pos() - tail

            # the plain read never reports missing
            r = get_bit_reader(data)
            if offset:
                r.read_uint(offset)
            assert r.read_uint(n) == value
            count += 1

# one-bit fields: 0 and 1, never None
r = get_bit_reader(b'\xa0')
assert [r.read_uint_or_none(1) for _ in range(4)] == [1, 0, 1, 0]
assert r.get_pos() == 4
# two bits is the smallest width with a missing value
r = get_bit_reader(b'\xe4')                                # 11 10 01 00
assert [r.read_uint_or_none(2) for _ in range(4)] == [None, 2, 1, 0]
# all ones of a narrower width is an ordinary value of a wider one
for n in range(2, 65):
    w = get_bit_writer()
    w.write_uint(2 ** (n - 1) - 1, n)
    w.write_uint(2 ** n - 1, n)
    pad_to_byte(w)
    r = get_bit_reader(w.to_bytes())
    assert r.read_uint_or_none(n) == 2 ** (n - 1) - 1
    assert r.read_uint_or_none(n) is None
    assert r.get_pos() == 2 * n

# the result of the comparison is what counts, whatever read_uint returns
from pybufrkit.bitops import BitStringBitReader


class Fixed(BitStringBitReader):
    def __init__(self, answer):
        BitStringBitReader.__init__(self, b'')
        self.answer = answer
        self.asked = []

    def read_uint(self, nbits):
        self.asked.append(nbits)
        return self.answer


for answer, nbits, expected in ((3, 2, None), (3.0, 2, None), (True, 1, True), (1, 1, 1),
                                (3, 3, 3), (255, 8, None), (0, 8, 0), ('x', 4, 'x'), (None, 4, None)):
    f = Fixed(answer)
    got = f.read_uint_or_none(nbits)
    assert got is expected or (got == expected and type(got) is type(expected)), (answer, nbits, got)
    assert f.asked == [nbits]                               # read exactly once

# widths outside of the table: the bits are consumed, then the lookup fails
r = get_bit_reader(b'\xff' * 10)
expect(IndexError, r.read_uint_or_none, 65)
assert r.get_pos() == 65
r = get_bit_reader(b'\x0f' * 10)
expect(IndexError, r.read_uint_or_none, 72)
assert r.get_pos() == 72
# bad widths fail in the read itself
r = get_bit_reader(b'\xff\xff')
expect(ValueError, r.read_uint_or_none, 0)
expect(ValueError, r.read_uint_or_none, -2)
expect(TypeError, r.read_uint_or_none, None)
assert r.get_pos() == 0

# ---------------------------------------------------------------------------
# 2. reading past the end: BitReadError from every typed read, position kept
# ---------------------------------------------------------------------------
for nbytes in range(0, 9):
    total = nbytes * 8
    for offset in range(8):
        if offset > total:
            continue
        left = total - offset
        for n in range(1, 65):
            if n <= left:
                continue
            for name, args in (('read_uint', (n,)), ('read_uint_or_none', (n,)), ('read_bin', (n,)),
                               ('read_bytes', ((n + 7) // 8 + left // 8,))):
                r = get_bit_reader(b'\xff' * nbytes)
                if offset:
                    r.read_uint(offset)
                expect_bit_read_error(getattr(r, name), *args)
                assert r.get_pos() == offset, (name, nbytes, offset, n)
        if left == 0:
            r = get_bit_reader(b'\xff' * nbytes)
            if offset:
                r.read_uint(offset)
            expect_bit_read_error(r.read_bool)
            expect_bit_read_error(r.read, 'bool', 1)
            expect_bit_read_error(r.read, 'uint', 1)
            expect_bit_read_error(r.read, 'bin', 1)
            expect_bit_read_error(r.read, 'bytes', 8)
            expect_bit_read_error(r.read_int, 5)
            assert r.get_pos() == offset

# the message names what was asked for and what was there
r = get_bit_reader(b'\x00\x00')
r.read_uint(3)
e = expect_bit_read_error(r.read_uint, 14)
assert e.message == 'Needed a length of at least 14 bits, but only 13 bits were available.', e.message
assert r.get_pos() == 3
assert r.read_uint_or_none(13) == 0 and r.get_pos() == 16

# each failure makes a new error object; the reader stays usable
r = get_bit_reader(b'\xab')
e1 = expect_bit_read_error(r.read_uint, 9)
e2 = expect_bit_read_error(r.read_uint, 9)
assert e1 is not e2 and e1.message == e2.message
assert r.read_uint(8) == 0xab

# errors that are not bitstring errors are not wrapped
r = get_bit_reader(b'\xff\xff')
for func, args in ((r.read_uint, (0,)), (r.read_uint, (-1,)), (r.read_bin, (-1,)), (r.read_bytes, (-1,)),
                   (r._bit_stream_read, ('nonsense:3',)), (r._bit_stream_read, ('uint:x',))):
    e = expect(ValueError, func, *args)
    assert not isinstance(e, bitstring.Error)
assert r.get_pos() == 0
# successful reads return what bitstring returns, for every kind of format
r = get_bit_reader(b'\xc1\x41\x42\x80')
assert r._bit_stream_read('uint:2') == 3
assert r._bit_stream_read('bin:6') == '000001'
assert r._bit_stream_read('bytes:2') == b'AB'
assert r._bit_stream_read('bool') is True
assert r._bit_stream_read('pad:3') is None
assert r.get_pos() == 28

# ---------------------------------------------------------------------------
# 3. random mixed sequences, read back with read_uint_or_none for the numbers
# ---------------------------------------------------------------------------
rnd = random.Random(19004)
for _ in range(150):
    nfields = rnd.randint(1, 200)
    w = get_bit_writer()
    fields = []
    while w.get_pos() % 8 or len(fields) < nfields:
        kind = rnd.choice(['uint', 'uint', 'uint', 'bool', 'bin', 'int', 'bytes'])
        if kind == 'uint':
            n = rnd.randint(1, 64)
            v = rnd.choice([0, 2 ** n - 1, 2 ** n - 1, rnd.getrandbits(n)])
            w.write_uint(v, n)
            expected = None if (n > 1 and v == 2 ** n - 1) else v
        elif kind == 'int':
            n = rnd.randint(2, 64)
            mag = rnd.choice([2 ** (n - 1) - 1, rnd.getrandbits(n - 1)])
            v = expected = rnd.choice([mag, -mag])
            w.write_int(v, n)
        elif kind == 'bool':
            n = 1
            v = expected = rnd.random() < 0.5
            w.write_bool(v)
        elif kind == 'bin':
            n = rnd.randint(1, 64)
            v = expected = ''.join(rnd.choice('01') for _ in range(n))
            w.write_bin(v)
        else:
            n = 8 * rnd.randint(1, 8)
            raw = bytes(rnd.randrange(33, 127) for _ in range(rnd.randint(0, 10)))
            expected = (raw + b' ' * 8)[:n // 8]             # space padded or cut to the width
            assert w.write(raw, 'bytes', n) == expected
        fields.append((kind, n, expected))
    end = w.get_pos()
    assert end == sum(f[1] for f in fields)
    r = get_bit_reader(w.to_bytes())
    pos = 0
    for kind, n, expected in fields:
        got = r.read_uint_or_none(n) if kind == 'uint' else r.read(kind, n)
        assert got == expected and type(got) is type(expected), (kind, n, expected, got)
        pos += n
        assert r.get_pos() == pos
    assert r.get_pos() == end
    expect_bit_read_error(r.read_uint_or_none, rnd.randint(1, 64))
    assert r.get_pos() == end

# ---------------------------------------------------------------------------
# 4. through the decoder: a message that is cut short ends in a BitReadError
# ---------------------------------------------------------------------------
from pybufrkit.decoder import Decoder

data_dir = os.path.join(os.getcwd(), 'tests', 'data')
for stub in ('IUSK73_AMMC_182300', '207003', 'contrived'):
    with open(os.path.join(data_dir, stub + '.bufr'), 'rb') as ins:
        data = ins.read()
    message = Decoder().process(data)
    assert message.length.value == len(data)
    for cut in (1, 5, 20, len(data) // 2):
        expect_bit_read_error(Decoder().process, data[:-cut])

print('demo 4 ok:', count, 'exhaustive missing-value reads')
