"""
Demo for refactor 4 (bufr.py: SectionConfigurer.configure_section split into the
construction of the section and the presence test written as guard clauses).

Exercises configure_section directly (all section indexes, editions, optional
section present / absent / undecidable, configuration transformers, broken
definition files) and through the encoder and the decoder (section 2 present or
not, editions 2-4, framing of the result).
Must exit 0 with and without the patch.
"""
import os, sys; sys.path.insert(0, os.getcwd())

import json
import logging
import shutil
import tempfile

import pybufrkit
assert os.path.dirname(os.path.abspath(pybufrkit.__file__)).startswith(os.getcwd()), pybufrkit.__file__

from pybufrkit import bufr
from pybufrkit.bufr import BufrMessage, BufrSection, SectionConfigurer, SectionParameter
from pybufrkit.encoder import Encoder
from pybufrkit.decoder import Decoder

DEFINITIONS_DIR = os.path.join(os.getcwd(), 'pybufrkit', 'definitions')


def definition(name):
    with open(os.path.join(DEFINITIONS_DIR, name)) as ins:
        return json.load(ins)


class Capture(logging.Handler):
    def __init__(self):
        logging.Handler.__init__(self, level=logging.DEBUG)
        self.messages = []

    def emit(self, record):
        self.messages.append((record.levelno, record.getMessage()))


capture = Capture()
bufr.log.addHandler(capture)
bufr.log.setLevel(logging.DEBUG)


def flag(name, value):
    return SectionParameter(name, 1, 'bool', None, True, value)


def message_of_edition(edition):
    m = BufrMessage('demo')
    if edition is not None:
        m.edition = SectionParameter('edition', 8, 'uint', None, True, edition)
    return m


def check_against_definition(section, config, message):
    assert isinstance(section, BufrSection)
    assert section.get_metadata('index') == config['index']
    assert section.get_metadata('description') == config.get('description', '')
    assert section.get_metadata('optional') is config.get('optional', False)
    assert section.get_metadata('end_of_message') is config.get('end_of_message', False)
    assert len(section) == len(config['parameters'])
    for parameter, spec in zip(section, config['parameters']):
        assert type(parameter) is SectionParameter
        assert parameter.name == spec['name']
        assert parameter.nbits == spec['nbits']
        assert parameter.type == spec['type']
        expected = spec.get('expected', None)
        assert parameter.expected == (expected.encode('utf-8') if isinstance(expected, str) else expected)
        assert parameter.as_property is spec.get('as_property', False)
        assert parameter.value is None
        assert parameter.parent is section
        assert getattr(section, spec['name']) is parameter and spec['name'] in section
    assert message.sections[-1] is section


configurer = SectionConfigurer()

# ---- 1. every non-optional section, every edition (None and 0 mean "default")
FILES = {0: 'section0.json', 3: 'section3.json', 4: 'section4.json', 5: 'section5.json'}
SECTION1 = {None: 'section1-4.json', 0: 'section1-4.json', 1: 'section1-1.json', 2: 'section1-2.json',
            3: 'section1-3.json', 4: 'section1-4.json', 5: 'section1-4.json'}
for edition in (None, 0, 1, 2, 3, 4, 5):
    m = message_of_edition(edition)
    for n_before, index in enumerate((0, 1, 3, 4, 5)):
        assert len(m.sections) == n_before
        section = configurer.configure_section(m, index)
        config = definition(SECTION1[edition] if index == 1 else FILES[index])
        check_against_definition(section, config, m)
        assert len(m.sections) == n_before + 1
    assert [s.get_metadata('index') for s in m.sections] == [0, 1, 3, 4, 5]
    assert m.sections[-1].end_of_message is True and m.sections[0].end_of_message is False
    # two calls give two independent sections
    again = configurer.configure_section(m, 0)
    assert again is not m.sections[0] and again.length is not m.sections[0].length

# ---- 2. the optional section: present, absent, undecidable
for edition in (2, 3, 4):
    for indicator, present in ((True, True), (False, False), (1, True), (0, False), (None, False)):
        m = message_of_edition(edition)
        m.is_section2_presents = flag('is_section2_presents', indicator)
        del capture.messages[:]
        section = configurer.configure_section(m, 2)
        absent_logged = [msg for msg in capture.messages if msg == (logging.INFO, 'Section 2 is not present')]
        if present:
            check_against_definition(section, definition('section2.json'), m)
            assert section.optional is True and len(m.sections) == 1 and not absent_logged
        else:
            assert section is None and m.sections == [] and len(absent_logged) == 1
    # nothing said about section 2 yet: the question cannot be answered
    m = message_of_edition(edition)
    try:
        configurer.configure_section(m, 2)
    except AttributeError:
        assert m.sections == []
    else:
        raise AssertionError('expected AttributeError')
    # the indicator is irrelevant for sections that are not optional
    m = message_of_edition(edition)
    m.is_section2_presents = flag('is_section2_presents', False)
    assert configurer.configure_section(m, 3) is m.sections[0]

# unknown section index
try:
    configurer.configure_section(message_of_edition(4), 6)
except KeyError:
    pass
else:
    raise AssertionError('expected KeyError')

# ---- 3. configuration transformers, in the order given
m = message_of_edition(4)
info = configurer.configure_section(m, 4, (SectionConfigurer.info_configuration,))
assert [p.name for p in info] == ['section_length', 'reserved_bits'] and info.end_of_message is True
m = message_of_edition(4)
lax = configurer.configure_section(m, 0, (SectionConfigurer.ignore_value_expectation,))
assert lax.start_signature.expected is None
both = configurer.configure_section(m, 5, (SectionConfigurer.info_configuration,
                                           SectionConfigurer.ignore_value_expectation))
assert both.stop_signature.expected is None and both.end_of_message is True
calls = []
configurer.configure_section(m, 3, (lambda c: calls.append('a') or c, lambda c: calls.append('b') or c))
assert calls == ['a', 'b']
assert definition('section0.json') == configurer.configurations[0][0]  # loaded configuration untouched

# ---- 4. configure_section_with_values
m = message_of_edition(None)
s0 = configurer.configure_section_with_values(m, 0, ['BUFR', 0, 3])
assert [p.value for p in s0] == ['BUFR', 0, 3]
s0 = configurer.configure_section_with_values(m, 0, ['BUFR', 0, 3], {'edition': 4, 'unrelated': 1})
assert [p.value for p in s0] == ['BUFR', 0, 4]
try:
    configurer.configure_section_with_values(m, 0, ['BUFR', 0])
except AssertionError:
    pass
else:
    raise AssertionError('expected AssertionError')
m.is_section2_presents = flag('is_section2_presents', False)
assert configurer.configure_section_with_values(m, 2, ['ignored']) is None

# ---- 5. broken or unusual definition files
tmp = tempfile.mkdtemp()
try:
    def write(name, obj):
        with open(os.path.join(tmp, name), 'w') as outs:
            json.dump(obj, outs)

    write('section0.json', {'index': 0, 'default': True, 'parameters': [
        {'name': 'ok', 'nbits': 16, 'type': 'bytes'},
        {'name': 'bad', 'nbits': 12, 'type': 'bytes'}]})
    write('section1.json', {'index': 1, 'default': True, 'parameters': [{'nbits': 8, 'type': 'uint'}]})
    write('section2.json', {'default': True, 'parameters': []})
    write('section3.json', {'index': 3, 'default': True, 'parameters': [{'name': 'x', 'type': 'uint'}]})
    write('section4.json', {'index': 4, 'default': True, 'parameters': [{'name': 'x', 'nbits': 3}]})
    write('section7.json', {'index': 7, 'default': True, 'optional': True, 'parameters': [
        {'name': 'x', 'nbits': 3, 'type': 'uint', 'expected': 'abc', 'as_property': True}]})
    write('section8.json', {'index': 8, 'default': True, 'optional': True})
    custom = SectionConfigurer(tmp)
    for index, exc_type in ((0, AssertionError), (1, KeyError), (2, KeyError), (3, KeyError), (4, KeyError),
                            (7, AttributeError), (8, KeyError)):
        m = message_of_edition(None)
        try:
            custom.configure_section(m, index)
        except Exception as e:
            assert type(e) is exc_type, (index, type(e), e)
            assert m.sections == []
        else:
            raise AssertionError('section {} accepted'.format(index))
    m = message_of_edition(None)
    m.is_section7_presents = flag('is_section7_presents', True)
    s7 = custom.configure_section(m, 7)
    assert s7.description == '' and s7.optional is True and s7.end_of_message is False and s7.index == 7
    assert s7.x.expected == b'abc' and s7.x.as_property is True and m.sections == [s7]
    m.is_section7_presents = flag('is_section7_presents', False)
    assert custom.configure_section(m, 7) is None and m.sections == [s7]
finally:
    shutil.rmtree(tmp)

# ---- 6. through the coders: section 2 present or absent, editions 2-4
bufr.log.setLevel(logging.WARNING)


def descriptors_for(nbits):
    n3 = nbits % 2
    return [1003] * n3 + [2001] * ((nbits - 3 * n3) // 2)


def build(edition, nbits, sec2=None):
    descs = descriptors_for(nbits)
    has2 = sec2 is not None
    if edition == 2:
        s1 = [0, 0, 98, 0, has2, '0000000', 0, 0, 25, 0, 17, 3, 4, 5, 6, 7]
    elif edition == 3:
        s1 = [0, 0, 0, 98, 0, has2, '0000000', 0, 0, 25, 0, 17, 3, 4, 5, 6, 7]
    else:
        s1 = [0, 0, 98, 0, 0, has2, '0000000', 0, 0, 0, 25, 0, 2017, 3, 4, 5, 6, 7]
    msg = [['BUFR', 0, edition], s1]
    if has2:
        msg.append([0, '00000000', sec2])
    msg += [[0, '00000000', 1, True, False, '000000', descs], [0, '00000000', [[1] * len(descs)]], ['7777']]
    return msg


encoder, decoder = Encoder(), Decoder()
for edition in (2, 3, 4):
    for nbits in (2, 5, 8, 11, 16, 19):
        for sec2 in (None, '', '1', '1' * 9):
            e = encoder.process(build(edition, nbits, sec2))
            b = e.serialized_bytes
            assert b[:4] == b'BUFR' and b[-4:] == b'7777' and e.length.value == len(b) == int.from_bytes(b[4:7], 'big')
            d = decoder.process(b'..' + b + b'7777')
            assert d.serialized_bytes == b
            want = [0, 1, 3, 4, 5] if sec2 is None else [0, 1, 2, 3, 4, 5]
            for msg in (e, d):
                assert [s.get_metadata('index') for s in msg.sections] == want
                assert 8 + sum(s.section_length.value for s in msg.sections[1:-1]) + 4 == len(b)
                assert msg.is_section2_presents.value == (sec2 is not None)
                assert msg.is_section2_presents is msg.sections[1].is_section2_presents
            # the section 1 layout follows the edition
            assert ('data_i18n_subcategory' in d.sections[1]) == (edition == 4)
            assert ('originating_subcentre' in d.sections[1]) == (edition >= 3)
    # a section 2 given in the JSON but flagged absent is taken for section 3: refused
    bad = build(edition, 8, '1')
    bad[1][[4, 5, 5][edition - 2]] = False
    try:
        encoder.process(bad)
    except AssertionError:
        pass
    else:
        raise AssertionError('misplaced section 2 accepted')

print('refactor 4 demo OK')
