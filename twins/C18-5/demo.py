import os, sys; sys.path.insert(0, os.getcwd())
"""
Differential demonstration for refactor 5 (script preprocessing cut into a
piece generator and a consumer that names the expressions).

The expected results are computed by an independent reference that does not
walk the script character by character: it jumps from one opening token to its
closing token with a regular expression and str.find.

Exits 0 when everything agrees (both on the unpatched and the patched tree).
"""
import itertools
import random
import re

import pybufrkit.script as script_module
from pybufrkit.script import process_embedded_query_expr, ScriptRunner
from pybufrkit.decoder import Decoder
from pybufrkit.dataquery import DataQuerent, NodePathParser
from pybufrkit.mdquery import MetadataQuerent, MetadataExprParser

assert script_module.__file__.startswith(os.getcwd()), script_module.__file__

OPENING = re.compile(r"""['"#]|\$\{""")


def reference(s):
    """Token-jumping reference implementation of the documented behaviour."""
    out = []
    names = {}
    order = []
    i = 0
    while i < len(s):
        m = OPENING.search(s, i)
        if m is None:
            out.append(s[i:])
            break
        out.append(s[i:m.start()])
        token = m.group()
        if token == '${':
            j = s.find('}', m.end())
            if j < 0:  # never closed: the rest of the script is swallowed
                break
            expr = s[m.end():j].strip()
            if expr not in names:
                names[expr] = 'PBK_%d' % len(order)
                order.append(expr)
            out.append(names[expr])
        else:
            closing = '\n' if token == '#' else token
            j = s.find(closing, m.end())
            if j < 0:  # never closed: verbatim up to the end
                out.append(s[m.start():])
                break
            out.append(s[m.start():j + 1])
        i = j + 1
    return ''.join(out), names, order


n_checked = 0
seen_features = set()


def check(s):
    global n_checked
    code, substitutions = process_embedded_query_expr(s)
    exp_code, exp_names, exp_order = reference(s)
    assert code == exp_code, (s, code, exp_code)
    assert type(substitutions) is dict, type(substitutions)
    assert substitutions == exp_names, (s, substitutions, exp_names)
    # insertion order = order of first appearance (it drives the order of the queries at run time)
    assert list(substitutions.keys()) == exp_order, (s, list(substitutions.keys()), exp_order)
    # a second call starts numbering from scratch (no state survives in the generator)
    assert process_embedded_query_expr(s) == (code, substitutions)
    n_checked += 1


# 1. Every string up to length 6 over the characters the state machine looks at
#    (plus one neutral character and one blank): all orders of quote in comment,
#    pond in quote, $ not followed by {, $ as last character, unterminated ${,
#    } outside an expression, repeated and empty expressions ...
ALPHABET = "a '\"#\n${}"
for n in range(0, 6):
    for t in itertools.product(ALPHABET, repeat=n):
        check(''.join(t))
for t in itertools.product("a'\"#\n${}", repeat=6):
    check(''.join(t))

# 2. Named cases, one for every branch of the scanner
CASES = {
    'plain': ('a = 1', 'a = 1', {}),
    'embed': ('a = ${001001}', 'a = PBK_0', {'001001': 'PBK_0'}),
    'embed trimmed': ('${ \t001001\n }', 'PBK_0', {'001001': 'PBK_0'}),
    'embed repeated': ('${x}+${ y }+${x }+${y}', 'PBK_0+PBK_1+PBK_0+PBK_1', {'x': 'PBK_0', 'y': 'PBK_1'}),
    'embed empty': ('${}${ }', 'PBK_0PBK_0', {'': 'PBK_0'}),
    'embed with quotes and ponds': ('${a\'b"c#d$e{f}', 'PBK_0', {'a\'b"c#d$e{f': 'PBK_0'}),
    'embed unterminated': ('x${abc', 'x', {}),
    'embed opens at the very end': ('x${', 'x', {}),
    'dollar at the very end': ('x$', 'x$', {}),
    'dollar without brace': ('$a $$ $ {x}', '$a $$ $ {x}', {}),
    'dollar dollar brace': ('$${x}', '$PBK_0', {'x': 'PBK_0'}),
    'single quoted': ("'${a}' ${a}", "'${a}' PBK_0", {'a': 'PBK_0'}),
    'double quoted': ('"${a}" ${a}', '"${a}" PBK_0', {'a': 'PBK_0'}),
    'other quote inside quote': ('"\'${a}\'" \'"${a}"\' ${a}', '"\'${a}\'" \'"${a}"\' PBK_0', {'a': 'PBK_0'}),
    'pond inside quote': ('"#" ${a}', '"#" PBK_0', {'a': 'PBK_0'}),
    'quote inside comment': ('# it\'s "\n${a}', '# it\'s "\nPBK_0', {'a': 'PBK_0'}),
    'comment': ('${a} # ${a}\n${b}', 'PBK_0 # ${a}\nPBK_1', {'a': 'PBK_0', 'b': 'PBK_1'}),
    'comment unterminated': ('# ${a}', '# ${a}', {}),
    'newline outside comment': ('\n\n${a}\n', '\n\nPBK_0\n', {'a': 'PBK_0'}),
    'newline inside quote': ('"\n#${a}"', '"\n#${a}"', {}),
    'quote unterminated': ('"abc ${a} # \n ${a}', '"abc ${a} # \n ${a}', {}),
    'closing brace alone': ('}{}', '}{}', {}),
    'empty script': ('', '', {}),
    'ten expressions': (''.join('${e%d}' % i for i in range(12)), ''.join('PBK_%d' % i for i in range(12)),
                        dict(('e%d' % i, 'PBK_%d' % i) for i in range(12))),
}
for name, (s, exp_code, exp_subs) in sorted(CASES.items()):
    got = process_embedded_query_expr(s)
    assert got == (exp_code, exp_subs), (name, got)
    check(s)

# 3. Scripts assembled at random from fragments, as the property is quantified
FRAGMENTS = [
    'a = 1', ' ', '\n', '; ', 'x', '$', '$$', '{', '}', '$ {', "'", '"', '#',
    "'lit'", '"lit"', "'${in}'", '"${in}"', "'#'", '"#"', '\'"\'', '"\'"',
    '# comment\n', '# ${no}\n', "# it's\n", '# "q\n', '#',
    '${001001}', '${ 001001 }', '${%length}', '${ %length}', '${}', '${a#b}', '${a"b}', "${a'b}", '${', '${x',
]
rnd = random.Random(18)
for _ in range(60000):
    check(''.join(rnd.choice(FRAGMENTS) for _ in range(rnd.randint(0, 9))))

# 4. Error behaviour on things that are not strings
for bad in (None, 5, 1.5, object()):
    try:
        process_embedded_query_expr(bad)
    except TypeError:
        pass
    else:
        raise AssertionError('TypeError expected for %r' % (bad,))
for bad in (b'a${b}', [1, 2]):  # elements are kept, the final join refuses them
    try:
        process_embedded_query_expr(bad)
    except TypeError:
        pass
    else:
        raise AssertionError('TypeError expected for %r' % (bad,))
assert process_embedded_query_expr(b'') == ('', {})
assert process_embedded_query_expr(list('a=${ x }')) == ('a=PBK_0', {'x': 'PBK_0'})

# 5. End to end: the names are bound to the query results, the message and the file name
with open(os.path.join('tests', 'data', 'contrived.bufr'), 'rb') as ins:
    message = Decoder().process(ins.read(), file_path='contrived.bufr')
dq = DataQuerent(NodePathParser())
mq = MetadataQuerent(MetadataExprParser())


def flat(v):
    return [x for e in v for x in (flat(e) if isinstance(e, list) else [e])]


source = (
    "#$ data_values_nest_level = 2\n"
    "a = ${008002}  # not ${020011}\n"
    "b = ${ %n_subsets }; c = '${001001}'; d = ${ 008002 }\n"
    "e = ${@[0] > 020011}; f = \"#\" ; g = ${%length}\n"
)
runner = ScriptRunner(source)
assert runner.substitutions == {'008002': 'PBK_0', '%n_subsets': 'PBK_1', '@[0] > 020011': 'PBK_2', '%length': 'PBK_3'}
assert runner.code_string == (
    "#$ data_values_nest_level = 2\n"
    "a = PBK_0  # not ${020011}\n"
    "b = PBK_1; c = '${001001}'; d = PBK_0\n"
    "e = PBK_2; f = \"#\" ; g = PBK_3\n"
)
assert runner.metadata_only is False
assert runner.pragma == {'data_values_nest_level': 2}
variables = runner.run(message)
exp_a = [flat(v) for v in dq.query(message, '008002').all_values()]
exp_e = [flat(v) for v in dq.query(message, '@[0] > 020011').all_values()]
assert exp_a == [[1, 3, 21, 5, 7, 9, 22], [12, 10, 8, 22, 6, 4, 21]], exp_a
assert variables['a'] == exp_a and variables['d'] == exp_a and variables['PBK_0'] == exp_a
assert variables['b'] == mq.query(message, '%n_subsets') == 2 and variables['PBK_1'] == 2
assert variables['c'] == '${001001}'
assert variables['e'] == exp_e == [[2, 4, 6, 8, 10, 1]] and variables['PBK_2'] == exp_e
assert variables['f'] == '#'
assert variables['g'] == mq.query(message, '%length') == variables['PBK_3']
assert variables['PBK_BUFR_MESSAGE'] is message and variables['PBK_FILENAME'] == 'contrived.bufr'
assert sorted(k for k in variables if k.startswith('PBK_')) == \
    ['PBK_0', 'PBK_1', 'PBK_2', 'PBK_3', 'PBK_BUFR_MESSAGE', 'PBK_FILENAME']

runner = ScriptRunner('${%n_subsets} == 2 and ${ %n_subsets } < ${%length} # ${001001}', mode='eval')
assert runner.metadata_only is True and runner.substitutions == {'%n_subsets': 'PBK_0', '%length': 'PBK_1'}
assert runner.run(message) is True

print('refactor 5 demo: %d scripts compared with the reference, %d named cases, end-to-end run OK'
      % (n_checked, len(CASES)))
