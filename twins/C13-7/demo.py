import os, sys; sys.path.insert(0, os.getcwd())

"""
Differential demonstration for refactor 7 (SectionConfigurer).

Every check compares what pybufrkit does with an expectation that is computed
here without using the code under test: a small reference reading of the
definition files (regular expression on the file name + json), hand written
expected sections, and bytes sliced by hand out of the messages.

Exits 0 when every check holds (unpatched and patched), 1 otherwise.
"""
import copy
import glob
import json
import logging
import re
import shutil
import struct
import tempfile

import pybufrkit
from pybufrkit import bufr as bufr_module
from pybufrkit.bufr import BufrMessage, BufrSection, SectionConfigurer, SectionParameter
from pybufrkit.decoder import Decoder
from pybufrkit.encoder import Encoder
from pybufrkit.errors import PyBufrKitError

assert os.path.dirname(os.path.abspath(pybufrkit.__file__)) == os.path.join(os.getcwd(), 'pybufrkit'), \
    'run me from the worktree root'

FAILURES = []
N_CHECKS = [0]


def check(label, got, expected):
    N_CHECKS[0] += 1
    if got != expected:
        FAILURES.append(label)
        print('FAIL', label, '\n   got     ', repr(got)[:400], '\n   expected', repr(expected)[:400])


def outcome(func, *args, **kwargs):
    """('ok', result) or ('raise', exception type name, str(exception) for the types whose text we own)"""
    try:
        return 'ok', func(*args, **kwargs)
    except Exception as e:
        return 'raise', type(e).__name__, (e.args if isinstance(e, (KeyError, AssertionError, RuntimeError)) else None)


class LogCapture(logging.Handler):
    def __init__(self):
        logging.Handler.__init__(self, level=logging.DEBUG)
        self.messages = []

    def emit(self, record):
        self.messages.append((record.levelname, record.getMessage()))

    def take(self):
        ret, self.messages = self.messages, []
        return ret


CAPTURE = LogCapture()
bufr_module.log.addHandler(CAPTURE)
bufr_module.log.setLevel(logging.DEBUG)
bufr_module.log.propagate = False

TMP_DIRS = []


def make_dir(files):
    d = tempfile.mkdtemp(prefix='w7t_C13_demo7_')
    TMP_DIRS.append(d)
    for name, content in files.items():
        if content is None:
            os.mkdir(os.path.join(d, name))
            continue
        with open(os.path.join(d, name), 'w') as outs:
            outs.write(content if isinstance(content, str) else json.dumps(content))
    return d


# ----------------------------------------------------------------------------
# A. Loading the definition files: the configuration cache
# ----------------------------------------------------------------------------
def reference_configurations(definitions_dir):
    """Independent reading of a definitions directory (same order of files: os.listdir)."""
    ret = {}
    for fname in os.listdir(definitions_dir):
        m = re.match(r'^section(\d+)(?:-(\d+))?\.json$', fname)
        if m is None:
            continue
        with open(os.path.join(definitions_dir, fname)) as ins:
            data = json.load(ins)
        index = int(m.group(1))
        edition = int(m.group(2)) if m.group(2) is not None else 0
        by_edition = ret.get(index)
        if by_edition is None:
            by_edition = ret[index] = {}
        by_edition[edition] = data
        if edition != 0 and data.get('default', False):
            by_edition[0] = data
    return ret


def P(name, nbits, type_, **kw):
    d = {'name': name, 'nbits': nbits, 'type': type_}
    d.update(kw)
    return d


HAND_DEFINITIONS = {
    # no edition, no default flag: filed under 0 only
    'section0.json': {'index': 0, 'description': 'zero', 'parameters': [
        P('start_signature', 32, 'bytes', expected='BUFR'), P('length', 24, 'uint', as_property=True),
        P('edition', 8, 'uint', as_property=True)]},
    # editions 1 (not default), 3 and 4 (both "default": the one listed last wins the default slot)
    'section1-1.json': {'index': 1, 'optional': False, 'parameters': [P('a', 8, 'uint')]},
    'section1-3.json': {'index': 1, 'default': True, 'parameters': [P('b', 8, 'uint')]},
    'section1-4.json': {'index': 1, 'default': True, 'parameters': [P('c', 8, 'uint')]},
    # no edition *and* default flag: second assignment skipped
    'section2.json': {'index': 2, 'default': True, 'optional': True, 'description': 'opt',
                      'parameters': [P('local_bits', 0, 'bin')]},
    # only a specific edition, never a default: looking it up fails even for edition 2
    'section3-2.json': {'index': 3, 'default': False, 'parameters': []},
    # optional section for which the message has no presence flag
    'section6.json': {'index': 6, 'optional': 1, 'parameters': []},
    # template data in the middle, at the start, twice, and odd "type" values
    'section4.json': {'index': 4, 'description': 'data', 'extra': [[1, 2], {'k': 'v'}], 'parameters': [
        P('section_length', 24, 'uint'), P('reserved_bits', 8, 'bin', expected='x'),
        P('template_data', 0, 'template_data', as_property=True), P('after', 8, 'uint'),
        P('template_data_again', 0, 'template_data')]},
    'section7.json': {'index': 7, 'parameters': [P('template_data', 0, 'template_data'), P('z', 8, 'uint')]},
    'section8.json': {'index': 8, 'end_of_message': True, 'parameters': [
        P('n', 8, 5), P('m', 8, None), P('l', 8, ['template_data']), P('stop', 32, 'bytes', expected='7777')]},
    # ignored names
    'section9.txt': 'not json at all',
    'sectionary.json.bak': 'nor this',
    'other.json': {'index': 99, 'parameters': []},
    'Section5.json': {'index': 5, 'parameters': []},
}

hand_dir = make_dir(HAND_DEFINITIONS)
CAPTURE.take()
hand_configurer = SectionConfigurer(definitions_dir=hand_dir)
check('A.log', CAPTURE.take(), [('DEBUG', 'Reading definition json files from {}'.format(hand_dir))])
expected_hand = reference_configurations(hand_dir)
check('A.hand.configurations', hand_configurer.configurations, expected_hand)
check('A.hand.indexes', sorted(hand_configurer.configurations), [0, 1, 2, 3, 4, 6, 7, 8])
check('A.hand.editions', {k: sorted(v) for k, v in hand_configurer.configurations.items()},
      {0: [0], 1: [0, 1, 3, 4], 2: [0], 3: [2], 4: [0], 6: [0], 7: [0], 8: [0]})
one = hand_configurer.configurations[1]
check('A.hand.default is one of the default editions (same object, not a copy)',
      [one[0] is one[3], one[0] is one[4]].count(True), 1)
check('A.hand.default follows listing order', one[0] is one[
    [int(f[9]) for f in os.listdir(hand_dir) if f in ('section1-3.json', 'section1-4.json')][-1]], True)
check('A.hand.types', {type(v) for v in hand_configurer.configurations.values()}, {dict})

# the real definitions, default directory
real_dir = os.path.join(os.getcwd(), 'pybufrkit', 'definitions')
real_configurer = SectionConfigurer()
check('A.real.configurations', real_configurer.configurations, reference_configurations(real_dir))
check('A.real.editions', {k: sorted(v) for k, v in real_configurer.configurations.items()},
      {0: [0], 1: [0, 1, 2, 3, 4], 2: [0], 3: [0], 4: [0], 5: [0]})
check('A.real.default edition', real_configurer.configurations[1][0] is real_configurer.configurations[1][4], True)
check('A.real.explicit dir', SectionConfigurer(real_dir).configurations, real_configurer.configurations)

# failures while loading
check('A.err.bad index', outcome(SectionConfigurer, make_dir({'sectionX.json': {}}))[:2], ('raise', 'ValueError'))
check('A.err.bad edition', outcome(SectionConfigurer, make_dir({'section1-x.json': {}}))[:2], ('raise', 'ValueError'))
check('A.err.three fields', outcome(SectionConfigurer, make_dir({'section1-2-3.json': {'parameters': []}}))[0], 'ok')
check('A.err.three fields value', SectionConfigurer(make_dir({'section1-2-3.json': {'p': 1}})).configurations,
      {1: {2: {'p': 1}}})
check('A.err.not an object', outcome(SectionConfigurer, make_dir({'section1.json': [1, 2]}))[:2],
      ('raise', 'AttributeError'))
check('A.err.bad json', outcome(SectionConfigurer, make_dir({'section1.json': '{'}))[:2],
      ('raise', 'JSONDecodeError'))
check('A.err.directory', outcome(SectionConfigurer, make_dir({'section1.json': None}))[:2],
      ('raise', 'IsADirectoryError'))
# the file is opened before its name is looked at
check('A.err.directory with bad name', outcome(SectionConfigurer, make_dir({'sectionX.json': None}))[:2],
      ('raise', 'IsADirectoryError'))
check('A.err.no such dir', outcome(SectionConfigurer, os.path.join(hand_dir, 'nope'))[:2],
      ('raise', 'FileNotFoundError'))
check('A.empty dir', SectionConfigurer(make_dir({})).configurations, {})


class SubConfigurer(SectionConfigurer):
    """get_section_index_and_edition is looked up on the instance"""

    @staticmethod
    def get_section_index_and_edition(fname):
        index, edition = SectionConfigurer.get_section_index_and_edition(fname)
        return index + 100, edition


check('A.subclass hook', sorted(SubConfigurer(hand_dir).configurations), [100, 101, 102, 103, 104, 106, 107, 108])

HAND_SNAPSHOT = copy.deepcopy(hand_configurer.configurations)
REAL_SNAPSHOT = copy.deepcopy(real_configurer.configurations)


# ----------------------------------------------------------------------------
# B. get_configuration
# ----------------------------------------------------------------------------
class CountingMessage(object):
    """Counts how often the edition is asked for"""

    def __init__(self, edition):
        self._e = edition
        self.n_reads = 0
        self.sections = []

    @property
    def edition(self):
        self.n_reads += 1
        return self._e

    def add_section(self, section):
        self.sections.append(section)


def edition_parameter(value):
    return SectionParameter('edition', 8, 'uint', None, True, value)


for label, edition, n_reads, wanted_key, wanted_text in [
    ('none', None, 1, 0, 'default'),
    ('zero', edition_parameter(0), 2, 0, 'default'),
    ('value None', edition_parameter(None), 2, 0, 'default'),
    ('one', edition_parameter(1), 2, 1, '1'),
    ('three', edition_parameter(3), 2, 3, '3'),
    ('four', edition_parameter(4), 2, 4, '4'),
    ('unknown', edition_parameter(9), 2, 0, '9'),
    ('true', edition_parameter(True), 2, 1, 'True'),
]:
    m = CountingMessage(edition)
    CAPTURE.take()
    got = hand_configurer.get_configuration(m, 1)
    check('B.{}.object'.format(label), got is hand_configurer.configurations[1][wanted_key], True)
    check('B.{}.reads'.format(label), m.n_reads, n_reads)
    check('B.{}.log'.format(label), CAPTURE.take(), [('INFO', 'Configure Section 1 of edition {}'.format(wanted_text))])

check('B.err.no such section', outcome(hand_configurer.get_configuration, CountingMessage(None), 5),
      ('raise', 'KeyError', (5,)))
# the fallback is looked up even when the edition is there
check('B.err.no default', outcome(hand_configurer.get_configuration, CountingMessage(edition_parameter(2)), 3),
      ('raise', 'KeyError', (0,)))
check('B.err.no edition attribute', outcome(hand_configurer.get_configuration, object(), 1)[:2],
      ('raise', 'AttributeError'))
check('B.err.edition without value', outcome(hand_configurer.get_configuration, CountingMessage(7), 1)[:2],
      ('raise', 'AttributeError'))
check('B.err.falsy edition that is not None', outcome(hand_configurer.get_configuration, CountingMessage(0), 1)[:2],
      ('raise', 'AttributeError'))
check('B.err.unhashable edition', outcome(hand_configurer.get_configuration, CountingMessage(edition_parameter([1])), 1)[:2],
      ('raise', 'TypeError'))
CAPTURE.take()


# ----------------------------------------------------------------------------
# C. configure_section: section construction, presence, transformers
# ----------------------------------------------------------------------------
def describe(section):
    if section is None:
        return None
    return {
        'meta': tuple(section.get_metadata(k) for k in ('index', 'description', 'optional', 'end_of_message')),
        'names': list(section._namespace.keys()),
        'parameters': [(p.name, p.nbits, p.type, p.expected, p.as_property, p.value, p.parent is section)
                       for p in section],
        'class': type(section) is BufrSection,
        'instance dict': sorted(section.__dict__),
    }


def expected_description(config):
    """Written from the documentation of the configuration format, not from the code"""
    rows = []
    for p in config['parameters']:
        e = p.get('expected')
        rows.append((p['name'], p['nbits'], p['type'], e.encode('utf-8') if isinstance(e, str) else e,
                     p.get('as_property', False), None, True))
    return {
        'meta': (config['index'], config.get('description', ''), config.get('optional', False),
                 config.get('end_of_message', False)),
        'names': [p['name'] for p in config['parameters']],
        'parameters': rows,
        'class': True,
        'instance dict': ['_namespace', 'description', 'end_of_message', 'index', 'optional'],
    }


UNSET = object()


def fresh_message(edition=None, section2=UNSET):
    m = BufrMessage('demo')
    if edition is not None:
        m.edition = edition_parameter(edition)
    if section2 is not UNSET:
        m.is_section2_presents = SectionParameter('is_section2_presents', 1, 'bool', None, True, section2)
    return m


# plain sections of every hand definition, no transformers
for index, edition, key in [(0, None, 0), (1, 1, 1), (1, 3, 3), (1, 4, 4), (1, 7, 0), (4, 4, 0), (7, 2, 0), (8, None, 0)]:
    m = fresh_message(edition)
    section = hand_configurer.configure_section(m, index)
    label = 'C.plain.{}/{}'.format(index, edition)
    check(label + '.description', describe(section), expected_description(HAND_DEFINITIONS[
        'section{}.json'.format(index) if index != 1 or key == 0 else 'section1-{}.json'.format(key)]
        if not (index == 1 and key == 0) else hand_configurer.configurations[1][0]))
    check(label + '.added', [s is section for s in m.sections], [True])
check('C.plain.expected bytes', hand_configurer.configure_section(fresh_message(), 0).start_signature.expected, b'BUFR')
check('C.plain.hand written', describe(hand_configurer.configure_section(fresh_message(), 8)), {
    'meta': (8, '', False, True), 'names': ['n', 'm', 'l', 'stop'], 'class': True,
    'instance dict': ['_namespace', 'description', 'end_of_message', 'index', 'optional'],
    'parameters': [('n', 8, 5, None, False, None, True), ('m', 8, None, None, False, None, True),
                   ('l', 8, ['template_data'], None, False, None, True),
                   ('stop', 32, 'bytes', b'7777', False, None, True)]})

# optional sections
for label, flag, present in [('true', True, True), ('false', False, False), ('one', 1, True), ('zero', 0, False),
                             ('none', None, False), ('text', 'no', True), ('empty', '', False)]:
    m = fresh_message(4, flag)
    CAPTURE.take()
    section = hand_configurer.configure_section(m, 2)
    logs = CAPTURE.take()
    check('C.optional.{}.result'.format(label), describe(section),
          expected_description(HAND_DEFINITIONS['section2.json']) if present else None)
    check('C.optional.{}.sections'.format(label), len(m.sections), 1 if present else 0)
    check('C.optional.{}.log'.format(label), logs, [('INFO', 'Configure Section 2 of edition 4')] + (
        [] if present else [('INFO', 'Section 2 is not present')]))
m = fresh_message(4)  # flag never set on the message
check('C.optional.no flag attribute', outcome(hand_configurer.configure_section, m, 2)[:2], ('raise', 'AttributeError'))
check('C.optional.no flag attribute.sections', m.sections, [])
m = fresh_message(4, True)  # optional section 6: the message has no is_section6_presents
check('C.optional.section 6', outcome(hand_configurer.configure_section, m, 6)[:2], ('raise', 'AttributeError'))
check('C.optional.section 6.sections', m.sections, [])


class FlagWithoutValue(object):
    pass


m = fresh_message(4)
m.is_section2_presents = FlagWithoutValue()
check('C.optional.flag without value', outcome(hand_configurer.configure_section, m, 2)[:2], ('raise', 'AttributeError'))


class TruthCounter(object):
    def __init__(self, truth):
        self.truth, self.n = truth, 0

    def __bool__(self):
        self.n += 1
        return self.truth


for truth in (True, False):
    counter = TruthCounter(truth)
    m = fresh_message(4, counter)
    section = hand_configurer.configure_section(m, 2)
    check('C.optional.flag truth asked once ({})'.format(truth), (counter.n, section is not None, len(m.sections)),
          (1, truth, int(truth)))
# a section that is not optional never looks at the flag
m = fresh_message(4)
check('C.not optional.no flag needed', hand_configurer.configure_section(m, 4) is m.sections[0], True)


# configurations that cannot be turned into a section (passed in through a transformer)
def replace_by(config):
    return lambda _: config


def configure_with(config, message=None):
    message = message or fresh_message()
    return outcome(hand_configurer.configure_section, message, 0, (replace_by(config),)), len(message.sections)


bad_nbits_text = 'nbits for bytes type must be integer multiple of 8: 12'
for label, config, wanted in [
    ('no index', {'parameters': []}, ('raise', 'KeyError', ('index',))),
    ('no index nor parameters', {}, ('raise', 'KeyError', ('index',))),
    ('no parameters', {'index': 0}, ('raise', 'KeyError', ('parameters',))),
    ('not a dict', [1], ('raise', 'TypeError', None)),
    ('parameters not iterable', {'index': 0, 'parameters': 5}, ('raise', 'TypeError', None)),
    ('parameter not a dict', {'index': 0, 'parameters': [[1]]}, ('raise', 'TypeError', None)),
    ('no type', {'index': 0, 'parameters': [{'name': 'a', 'nbits': 8}]}, ('raise', 'KeyError', ('type',))),
    ('no type nor nbits', {'index': 0, 'parameters': [{'name': 'a'}]}, ('raise', 'KeyError', ('type',))),
    ('no nbits', {'index': 0, 'parameters': [{'name': 'a', 'type': 'uint'}]}, ('raise', 'KeyError', ('nbits',))),
    ('no nbits nor name', {'index': 0, 'parameters': [{'type': 'bytes'}]}, ('raise', 'KeyError', ('nbits',))),
    ('no name', {'index': 0, 'parameters': [{'type': 'uint', 'nbits': 8}]}, ('raise', 'KeyError', ('name',))),
    ('bytes 12 bits', {'index': 0, 'parameters': [P('a', 12, 'bytes')]}, ('raise', 'AssertionError', (bad_nbits_text,))),
    ('bytes 12 bits no name', {'index': 0, 'parameters': [{'type': 'bytes', 'nbits': 12}]},
     ('raise', 'AssertionError', (bad_nbits_text,))),
    ('bytes text nbits', {'index': 0, 'parameters': [P('a', 'abc', 'bytes')]}, ('raise', 'TypeError', None)),
    ('bytes None nbits', {'index': 0, 'parameters': [P('a', None, 'bytes')]}, ('raise', 'TypeError', None)),
    ('second parameter bad', {'index': 0, 'parameters': [P('a', 8, 'uint'), {'name': 'b'}]},
     ('raise', 'KeyError', ('type',))),
]:
    check('C.bad config.' + label, configure_with(config), (wanted, 0))

for label, config, wanted_parameters in [
    ('bytes 16 bits', {'index': 0, 'parameters': [P('a', 16, 'bytes')]}, [('a', 16, 'bytes', None, False, None, True)]),
    ('bytes 0 bits', {'index': 0, 'parameters': [P('a', 0, 'bytes')]}, [('a', 0, 'bytes', None, False, None, True)]),
    ('uint 12 bits', {'index': 0, 'parameters': [P('a', 12, 'uint')]}, [('a', 12, 'uint', None, False, None, True)]),
    ('uint text nbits', {'index': 0, 'parameters': [P('a', 'abc', 'uint')]}, [('a', 'abc', 'uint', None, False, None, True)]),
    ('expected variants', {'index': 0, 'parameters': [P('a', 8, 'uint', expected=3), P('b', 8, 'bytes', expected='é'),
                                                      P('c', 8, 'uint', expected=None, as_property='yes')]},
     [('a', 8, 'uint', 3, False, None, True), ('b', 8, 'bytes', b'\xc3\xa9', False, None, True),
      ('c', 8, 'uint', None, 'yes', None, True)]),
    ('same name twice', {'index': 0, 'parameters': [P('a', 8, 'uint'), P('b', 8, 'uint'), P('a', 16, 'uint')]},
     [('a', 16, 'uint', None, False, None, True), ('b', 8, 'uint', None, False, None, True)]),
    ('names of section attributes', {'index': 3, 'optional': False, 'parameters': [P('optional', 8, 'uint'), P('index', 8, 'uint')]},
     [('optional', 8, 'uint', None, False, None, True), ('index', 8, 'uint', None, False, None, True)]),
]:
    (status, section), n_sections = configure_with(config)
    check('C.good config.' + label, (status, describe(section)['parameters'], n_sections), ('ok', wanted_parameters, 1))
(status, section), _ = configure_with({'index': 3, 'optional': False, 'parameters': [P('optional', 8, 'uint')]})
check('C.good config.metadata wins over parameter of the same name', (section.optional, section.index), (False, 3))

# the chain of transformers
for label, make in [('tuple', tuple), ('list', list), ('generator', lambda fs: (f for f in fs)), ('iterator', iter)]:
    trace = []

    def step(tag):
        def transformer(config):
            trace.append((tag, config.get('seen', ())))
            new = dict(config)
            new['seen'] = config.get('seen', ()) + (tag,)
            new['description'] = '+'.join(new['seen'])
            return new
        return transformer

    m = fresh_message(4)
    section = hand_configurer.configure_section(m, 4, make([step('a'), step('b'), step('c')]))
    check('C.chain.{}.trace'.format(label), trace, [('a', ()), ('b', ('a',)), ('c', ('a', 'b'))])
    check('C.chain.{}.result'.format(label), (section.description, section is m.sections[0]), ('a+b+c', True))
seen = []
m = fresh_message(3)
hand_configurer.configure_section(m, 1, [lambda c: (seen.append(c), c)[1]])
check('C.chain.first transformer gets the cached object', seen[0] is hand_configurer.configurations[1][3], True)
check('C.chain.empty', describe(hand_configurer.configure_section(fresh_message(), 0, [])),
      expected_description(HAND_DEFINITIONS['section0.json']))
check('C.chain.default argument', describe(hand_configurer.configure_section(fresh_message(), 0)),
      expected_description(HAND_DEFINITIONS['section0.json']))
for label, transformers, wanted in [
    ('not iterable', 5, ('raise', 'TypeError', None)),
    ('None', None, ('raise', 'TypeError', None)),
    ('not callable', (5,), ('raise', 'TypeError', None)),
    ('raises', (lambda c: c, lambda c: (_ for _ in ()).throw(RuntimeError('boom'))), ('raise', 'RuntimeError', ('boom',))),
    ('raises StopIteration', (lambda c: next(iter(())),), ('raise', 'StopIteration', None)),
    ('returns None', (lambda c: None,), ('raise', 'TypeError', None)),
]:
    m = fresh_message()
    CAPTURE.take()
    check('C.chain.err.' + label, outcome(hand_configurer.configure_section, m, 0, transformers), wanted)
    check('C.chain.err.' + label + '.sections', m.sections, [])
    # the configuration is looked up (and logged) before the transformers are touched
    check('C.chain.err.' + label + '.log', CAPTURE.take(), [('INFO', 'Configure Section 0 of edition default')])
m = fresh_message()
check('C.chain.err.lookup fails first', outcome(hand_configurer.configure_section, m, 5, 5), ('raise', 'KeyError', (5,)))

# info_configuration
info, ignore = SectionConfigurer.info_configuration, SectionConfigurer.ignore_value_expectation
for index in (0, 2, 8):
    config = hand_configurer.configurations[index][0]
    check('C.info.{}.same object when there is no template data'.format(index), info(config) is config, True)
c4 = hand_configurer.configurations[4][0]
cut = info(c4)
check('C.info.4.value', cut, {'index': 4, 'description': 'data', 'extra': [[1, 2], {'k': 'v'}], 'end_of_message': True,
                              'parameters': [P('section_length', 24, 'uint'), P('reserved_bits', 8, 'bin', expected='x')]})
check('C.info.4.new object', cut is not c4, True)
check('C.info.4.kept parameters are the cached ones', [a is b for a, b in zip(cut['parameters'], c4['parameters'])],
      [True, True])
check('C.info.4.the rest is copied', (cut['extra'] is not c4['extra'], cut['extra'][1] is not c4['extra'][1]), (True, True))
check('C.info.4.cache untouched', c4, HAND_SNAPSHOT[4][0])
c7 = hand_configurer.configurations[7][0]
check('C.info.7.template data first', info(c7), {'index': 7, 'end_of_message': True, 'parameters': []})
check('C.info.err.no parameters', outcome(info, {'index': 1}), ('raise', 'KeyError', ('parameters',)))
check('C.info.err.no type', outcome(info, {'parameters': [{'name': 'a'}]}), ('raise', 'KeyError', ('type',)))
check('C.info.err.no type after template data', outcome(info, {'parameters': [P('t', 0, 'template_data'), {'name': 'a'}]}),
      ('raise', 'KeyError', ('type',)))
check('C.info.empty parameters', info({'parameters': []}), {'parameters': []})


class Uncopyable(object):
    def __deepcopy__(self, memo):
        raise RuntimeError('no copies')


check('C.info.err.copy fails', outcome(info, {'x': Uncopyable(), 'parameters': [P('t', 0, 'template_data')]}),
      ('raise', 'RuntimeError', ('no copies',)))
check('C.info.no copy when nothing is cut', outcome(info, {'x': Uncopyable(), 'parameters': [P('t', 0, 'uint')]})[0], 'ok')

# ignore_value_expectation (not changed, but it is the other half of every chain)
relaxed = ignore(c4)
check('C.ignore.4.value', [p['expected'] for p in relaxed['parameters']], [None] * 5)
check('C.ignore.4.rest', [{k: v for k, v in p.items() if k != 'expected'} for p in relaxed['parameters']],
      [{k: v for k, v in p.items() if k != 'expected'} for p in HAND_SNAPSHOT[4][0]['parameters']])
check('C.ignore.4.copies', [a is b for a, b in zip(relaxed['parameters'], c4['parameters'])], [False] * 5)
check('C.ignore.4.cache untouched', c4, HAND_SNAPSHOT[4][0])

# both, in both orders, through configure_section
for label, transformers in [('info+ignore', (info, ignore)), ('ignore+info', (ignore, info))]:
    m = fresh_message(4)
    section = hand_configurer.configure_section(m, 4, transformers)
    check('C.both.{}'.format(label), describe(section), {
        'meta': (4, 'data', False, True), 'names': ['section_length', 'reserved_bits'], 'class': True,
        'instance dict': ['_namespace', 'description', 'end_of_message', 'index', 'optional'],
        'parameters': [('section_length', 24, 'uint', None, False, None, True),
                       ('reserved_bits', 8, 'bin', None, False, None, True)]})
    check('C.both.{}.cache untouched'.format(label), hand_configurer.configurations, HAND_SNAPSHOT)
m = fresh_message(4)
check('C.info only keeps the expectation', describe(hand_configurer.configure_section(m, 4, (info,)))['parameters'],
      [('section_length', 24, 'uint', None, False, None, True), ('reserved_bits', 8, 'bin', b'x', False, None, True)])
check('C.cache untouched after everything', hand_configurer.configurations, HAND_SNAPSHOT)
check('C.cache identity after everything', hand_configurer.configurations[1][0] in (
    hand_configurer.configurations[1][3], hand_configurer.configurations[1][4]), True)

# configure_section_with_values sits on top of configure_section
m = fresh_message(4)
section = hand_configurer.configure_section_with_values(m, 4, [10, '0', 'T', 7, 'U'], {'after': 8})
check('C.with values', [(p.name, p.value) for p in section],
      [('section_length', 10), ('reserved_bits', '0'), ('template_data', 'T'), ('after', 8), ('template_data_again', 'U')])
check('C.with values.absent', hand_configurer.configure_section_with_values(fresh_message(4, False), 2, [1]), None)
check('C.with values.wrong number', outcome(hand_configurer.configure_section_with_values, fresh_message(4), 4, [1])[:2],
      ('raise', 'AssertionError'))
CAPTURE.take()


# ----------------------------------------------------------------------------
# D. Whole messages: sample files and hand-built ones, fresh versus after a history
# ----------------------------------------------------------------------------
def u(n, nbytes):
    return n.to_bytes(nbytes, 'big')


def build_message(edition, section2=None, block=42, table_version=None, section1_edition=None):
    """One subset, template 001001 (WMO block number, 7 bits), put together byte by byte."""
    layout = edition if section1_edition is None else section1_edition
    flag = u(0x80 if section2 is not None else 0, 1)
    if table_version is None:
        table_version = {1: 13, 2: 13, 3: 13}.get(layout, 29)
    if layout == 1:
        s1 = u(74, 2) + u(0, 1) + flag + u(0, 1) + u(0, 1) + u(table_version, 1) + u(0, 1) + bytes([99, 12, 31, 23, 59, 58])
    elif layout == 2:
        body = u(0, 1) + u(74, 2) + u(0, 1) + flag + u(0, 1) + u(0, 1) + u(table_version, 1) + u(0, 1) + bytes([99, 12, 31, 23, 59, 58])
        s1 = u(3 + len(body), 3) + body
    elif layout == 3:
        body = u(0, 1) + u(0, 1) + u(74, 1) + u(0, 1) + flag + u(0, 1) + u(0, 1) + u(table_version, 1) + u(0, 1) + bytes([99, 12, 31, 23, 59, 58])
        s1 = u(3 + len(body), 3) + body
    else:
        body = (u(0, 1) + u(74, 2) + u(0, 2) + u(0, 1) + flag + u(0, 1) + u(0, 1) + u(0, 1) + u(table_version, 1) + u(0, 1) +
                u(2020, 2) + bytes([12, 31, 23, 59, 58]))
        s1 = u(3 + len(body), 3) + body
    s2 = b'' if section2 is None else u(4 + len(section2), 3) + b'\x00' + section2
    # sections of editions before 4 are padded to an even number of bytes
    pad = b'\x00' if edition < 4 else b''
    s3 = u(9 + len(pad), 3) + b'\x00' + u(1, 2) + b'\x80' + u(0x0101, 2) + pad  # 0 01 001
    s4 = u(5 + len(pad), 3) + b'\x00' + u(block << 1, 1) + pad
    rest = s1 + s2 + s3 + s4 + b'7777'
    return b'BUFR' + u(8 + len(rest), 3) + u(edition, 1) + rest


def expected_layout(s, info_only):
    """Names of the parameters section by section, from the definition files and the bytes of the message."""
    edition = s[7]
    definitions = reference_configurations(real_dir)
    names, present = [], True
    for index in range(6):
        config = definitions[index].get(edition or 0, definitions[index][0])
        if index == 2 and not present:
            continue
        section_names = [p['name'] for p in config['parameters']]
        if index == 1:
            # the flag byte sits right after update_sequence_number
            offset = 8 + sum(p['nbits'] for p in config['parameters'][:section_names.index('is_section2_presents')]) // 8
            present = bool(s[offset] & 0x80)
        if info_only and 'template_data' in section_names:
            names.append((index, section_names[:section_names.index('template_data')]))
            break
        names.append((index, section_names))
    return names


def observe(message):
    rows = []
    for section in message.sections:
        row = []
        for p in section:
            if p.type == 'template_data':
                td = p.value
                row.append((p.name, repr(td.decoded_values_all_subsets), repr(td.decoded_descriptors_all_subsets)))
            elif p.type == 'unexpanded_descriptors':
                row.append((p.name, list(p.value)))
            else:
                row.append((p.name, p.value if not hasattr(p.value, 'bin') else str(p.value)))
        rows.append((section.get_metadata('index'), section.get_metadata('end_of_message'), row))
    return rows


def layout_of(message):
    return [(s.get_metadata('index'), [p.name for p in s]) for s in message.sections]


VARIANTS = [
    ('plain', {}),
    ('info', {'info_only': True}),
    ('ignore', {'ignore_value_expectation': True}),
    ('info+ignore', {'info_only': True, 'ignore_value_expectation': True}),
]

POOL = {}
for name in ['207003', 'contrived', 'jaso_214', 'uegabe', 'b005_89', 'IUSK73_AMMC_182300', 'profiler_european']:
    with open(os.path.join('tests', 'data', name + '.bufr'), 'rb') as ins:
        POOL[name] = ins.read()
POOL['hand e4'] = build_message(4)
POOL['hand e4 s2'] = build_message(4, section2=b'local!')
POOL['hand e3'] = build_message(3)
POOL['hand e3 s2'] = build_message(3, section2=b'xy')
POOL['hand e2'] = build_message(2)
POOL['hand e2 s2'] = build_message(2, section2=b'')
POOL['hand e5 (unknown edition, default layout)'] = build_message(5, section2=b'abc')
POOL['hand e0 (default layout)'] = build_message(0)
# failing ones
POOL['hand e1 (flag is no property: AttributeError)'] = build_message(1)
POOL['truncated'] = POOL['jaso_214'][:60]
POOL['bad stop'] = build_message(4)[:-4] + b'7778'
POOL['bad start'] = b'BUFS' + build_message(4)[4:]

# what a fresh decoder says, message by message, and the independent expectations
FRESH = {}
for name, s in sorted(POOL.items()):
    for variant, kwargs in VARIANTS:
        start_signature = None if name == 'bad start' else b'BUFR'
        result = outcome(Decoder().process, s, start_signature=start_signature, **kwargs)
        if result[0] == 'ok':
            message = result[1]
            FRESH[name, variant] = ('ok', observe(message))
            info_only = 'info_only' in kwargs
            check('D.fresh.{}.{}.layout'.format(name, variant), layout_of(message), expected_layout(s, info_only))
            check('D.fresh.{}.{}.length/edition'.format(name, variant), (message.length.value, message.edition.value),
                  (int.from_bytes(s[4:7], 'big'), s[7]))
            check('D.fresh.{}.{}.end flags'.format(name, variant),
                  [sec.get_metadata('end_of_message') for sec in message.sections],
                  [False] * (len(message.sections) - 1) + [True])
            if info_only:
                check('D.fresh.{}.{}.no template data'.format(name, variant), hasattr(message, '_template_data'), False)
            if name.startswith('hand') and not info_only:
                check('D.fresh.{}.{}.value'.format(name, variant),
                      (message.template_data.value.decoded_values_all_subsets, message.serialized_bytes), ([[42]], s))
            if name.startswith('hand') and ' s2' in name or 'unknown' in name:
                check('D.fresh.{}.{}.local bits'.format(name, variant), message.sections[2].local_bits.value,
                      ''.join(format(b, '08b') for b in {
                          'hand e4 s2': b'local!', 'hand e3 s2': b'xy', 'hand e2 s2': b'',
                          'hand e5 (unknown edition, default layout)': b'abc'}[name]))
        else:
            FRESH[name, variant] = result[:2]

check('D.fresh.expected failures', {k: v for k, v in FRESH.items() if v[0] == 'raise'}, dict(
    [(('hand e1 (flag is no property: AttributeError)', v), ('raise', 'AttributeError')) for v, _ in VARIANTS] +
    [(('truncated', v), ('raise', 'BitReadError')) for v, _ in VARIANTS] +
    [(('bad stop', 'plain'), ('raise', 'PyBufrKitError'))] +
    [(('bad start', 'plain'), ('raise', 'PyBufrKitError')), (('bad start', 'info'), ('raise', 'PyBufrKitError'))]))
check('D.fresh.bad stop is fine when expectations are off or not reached',
      [FRESH['bad stop', v][0] for v in ('info', 'ignore', 'info+ignore')], ['ok'] * 3)
check('D.fresh.bad start is fine when expectations are off',
      [FRESH['bad start', v][0] for v in ('ignore', 'info+ignore')], ['ok'] * 2)

# one decoder, a long history: every (message, variant) visited three times in shuffled orders
for cache_max in (None, 0, 2):
    decoder = Decoder(compiled_template_cache_max=cache_max)
    before = copy.deepcopy(decoder.section_configurer.configurations)
    check('D.history[{}].definitions'.format(cache_max), before, REAL_SNAPSHOT)
    keys = sorted(FRESH)
    schedule = keys + keys[::-1] + keys[::3] + keys[1::3] + keys[2::3]
    n_bad = 0
    for name, variant in schedule:
        start_signature = None if name == 'bad start' else b'BUFR'
        result = outcome(decoder.process, POOL[name], start_signature=start_signature, **dict(VARIANTS)[variant])
        got = ('ok', observe(result[1])) if result[0] == 'ok' else result[:2]
        if got != FRESH[name, variant]:
            n_bad += 1
            print('   history differs from fresh:', name, variant)
    check('D.history[{}].same as fresh ({} steps)'.format(cache_max, len(schedule)), n_bad, 0)
    check('D.history[{}].configuration cache untouched'.format(cache_max), decoder.section_configurer.configurations, before)
    check('D.history[{}].default still the edition 4 object'.format(cache_max),
          decoder.section_configurer.configurations[1][0] is decoder.section_configurer.configurations[1][4], True)

# the encoder goes through configure_section_with_values
from pybufrkit.renderer import FlatJsonRenderer

encoder = Encoder()
for round_ in range(2):
    for name in ['207003', 'jaso_214', 'uegabe', 'b005_89', 'IUSK73_AMMC_182300', 'profiler_european']:
        with open(os.path.join('tests', 'data', name + '.json')) as ins:
            text = ins.read()
        json_data = json.loads(text)
        message = encoder.process(text)
        label = 'D.encode.{}.{}'.format(name, round_)
        check(label + '.same as a fresh encoder', message.serialized_bytes, Encoder().process(text).serialized_bytes)
        check(label + '.layout', layout_of(message), expected_layout(message.serialized_bytes, False))
        # parameter values are the JSON values, position by position (the total length is computed when given as 0)
        # (lengths are recomputed by the encoder, everything else is taken as given)
        got = [[p.value for p in section if p.type != 'template_data' and 'length' not in p.name]
               for section in message.sections]
        wanted = [[v for v, p in zip(values, section) if p.type != 'template_data' and 'length' not in p.name]
                  for values, section in zip(json_data, message.sections)]
        check(label + '.values', got, wanted)
        check(label + '.n sections', len(message.sections), len(json_data))
        decoded_back = Decoder().process(message.serialized_bytes)
        check(label + '.decodes back', [row for row in observe(decoded_back) if row[0] != 4],
              [(i, e, [(n, v.encode() if n.endswith('signature') else v) for n, v in r])
               for i, e, r in observe(message) if i != 4])
    for name in ['hand e4', 'hand e4 s2', 'hand e3 s2', 'hand e2', 'hand e5 (unknown edition, default layout)']:
        data = FlatJsonRenderer().render(Decoder().process(POOL[name]))
        check('D.encode.{}.{}'.format(name, round_), encoder.process(data).serialized_bytes, POOL[name])
check('D.encode.configuration cache untouched', encoder.section_configurer.configurations, REAL_SNAPSHOT)
with open(os.path.join('tests', 'data', 'jaso_214.json')) as ins:
    check('D.encode.override', Encoder(master_table_version=31).process(ins.read()).master_table_version.value, 31)

for d in TMP_DIRS:
    shutil.rmtree(d, ignore_errors=True)

print('{} checks, {} failed'.format(N_CHECKS[0], len(FAILURES)))
sys.exit(1 if FAILURES else 0)
