"""Demo for refactor 3: ScriptRunner.flatten_data_values (nest levels 0, 1, 2, 4)."""
import os, sys; sys.path.insert(0, os.getcwd())
import copy

import pybufrkit
from pybufrkit.decoder import Decoder
from pybufrkit.dataquery import QueryResult, DataQuerent, NodePathParser
from pybufrkit.script import ScriptRunner

assert os.path.abspath(pybufrkit.__file__).startswith(os.getcwd()), pybufrkit.__file__


def raises(exc, func, *args, **kwargs):
    try:
        func(*args, **kwargs)
    except exc as e:
        assert type(e) is exc, (type(e), exc)
        return e
    raise AssertionError('%s not raised' % exc.__name__)


def deep_flatten(x):
    out = []
    for e in x:
        if isinstance(e, list):
            out.extend(deep_flatten(e))
        else:
            out.append(e)
    return out


decoder = Decoder()
data_querent = DataQuerent(NodePathParser())


def load(name):
    with open(os.path.join('tests', 'data', name), 'rb') as ins:
        return decoder.process(ins.read(), file_path=name)


def at_level(level, query, msg, by='argument'):
    if by == 'argument':
        return ScriptRunner('${%s}' % query, data_values_nest_level=level, mode='eval').run(msg)
    script = '#$ data_values_nest_level = %r\nresult = ${%s}\n' % (level, query)
    return ScriptRunner(script).run(msg)['result']


# ---- the four documented levels are consistent on real messages -------------
QUERIES = {
    'contrived.bufr': ['001001', '008002', '/105002/102000/008002', '@[0] > 008002', '@[1] > 008002',
                       '@[::-1] > 020011', '020011', '@[1]/008002', '/999999', '/301001/001002',
                       '105002 > 008002', '301011 > 004001'],
    '207003.bufr': ['001007', '005040', '@[1] > 001007', '001001', '@[0:1] > 005040'],
    'jaso_214.bufr': ['001007', '@[3] > 005040', '@[::40] > 001007', '@[-2:] > 025060'],
    'IUSK73_AMMC_182300.bufr': ['001081', '007004', '303054 > 007004', '@[0] > 012101', '@[-1]/001082'],
}
n = nonempty = 0
for name, queries in sorted(QUERIES.items()):
    msg = load(name)
    for query in queries:
        for by in ('argument', 'pragma'):
            l0, l1, l2, l4 = (at_level(level, query, msg, by) for level in (0, 1, 2, 4))
            # level 4 is what the data querent delivers, one entry per selected subset
            qr = data_querent.query(msg, query)
            assert l4 == qr.all_values() == [qr.get_values(i) for i in qr.subset_indices()]
            # level 2 is the per-subset flattening of level 4
            assert l2 == [deep_flatten(subset) for subset in l4], (name, query)
            assert len(l2) == len(l4) == len(qr.subset_indices())
            assert all(type(sub) is list and not any(isinstance(v, list) for v in sub) for sub in l2)
            # level 1 is the concatenation of level 2
            assert type(l1) is list and l1 == [v for subset in l2 for v in subset], (name, query)
            # level 0 is its first element or None
            assert l0 == (l1[0] if l1 else None) and (l1 or l0 is None), (name, query)
            n += 1
            nonempty += bool(l1)
        # the default level is 1
        assert ScriptRunner('${%s}' % query, mode='eval').run(msg) == at_level(1, query, msg)
assert n == 52 and nonempty >= 40, (n, nonempty)

msg = load('contrived.bufr')
assert at_level(0, '008002', msg) == 1
assert at_level(1, '008002', msg) == [1, 3, 21, 5, 7, 9, 22, 12, 10, 8, 22, 6, 4, 21]
assert at_level(2, '008002', msg) == [[1, 3, 21, 5, 7, 9, 22], [12, 10, 8, 22, 6, 4, 21]]
assert at_level(4, '008002', msg) == [[[[[[1], [3]], 21], [[[5], [7], [9]], 22]]],
                                      [[[[[12], [10], [8]], 22], [[[6], [4]], 21]]]]
assert at_level(0, '/999999', msg) is None and at_level(1, '/999999', msg) == []
assert at_level(2, '/999999', msg) == [[], []] == at_level(4, '/999999', msg)
# argument beats pragma, None as argument means "not given"
assert ScriptRunner('#$ data_values_nest_level = 2\n${001001}', 0, mode='eval').run(msg) == 94
assert ScriptRunner('#$ data_values_nest_level = 2\nr = ${001001}', None).run(msg)['r'] == [[94], [95]]


# ---- hand made results, flatten_data_values called directly ---------------
def make_qr(*subsets):
    qr = QueryResult('made up')
    for i, values in enumerate(subsets):
        qr.add_subset(i * 2, values)       # the subset numbers need not be contiguous
    return qr


def flatten(level, qr):
    runner = ScriptRunner('pass')
    runner.pragma['data_values_nest_level'] = level
    return runner.flatten_data_values(qr)


nested = make_qr([[1, [2]], 3], [], [[[None]]], [4.5, 'x'])
assert flatten(4, nested) == [[[1, [2]], 3], [], [[[None]]], [4.5, 'x']]
assert flatten(2, nested) == [[1, 2, 3], [], [None], [4.5, 'x']]
assert flatten(1, nested) == [1, 2, 3, None, 4.5, 'x']
assert flatten(0, nested) == 1
assert flatten(0, make_qr([], [[]], [[7]])) == 7            # first value may come from a later subset
assert flatten(0, make_qr([[None], 5])) is None             # a missing value that is the first one
assert flatten(0, make_qr([0, 5])) == 0 and flatten(0, make_qr([False])) is False
for empty in (make_qr(), make_qr([]), make_qr([], [[], [[]]])):
    assert flatten(0, empty) is None
    assert flatten(1, empty) == []
assert flatten(2, make_qr()) == [] == flatten(4, make_qr())
assert flatten(2, make_qr([], [[]])) == [[], []] and flatten(4, make_qr([], [[]])) == [[], [[]]]

# any other level means "no flattening"; levels compare by ==, so 1.0, True and False are levels too
for other in (3, 5, -1, 40, '1', '2', None, (1,), [1], {}, 0.5, 1.5):
    assert flatten(other, nested) == flatten(4, nested), other
assert flatten(True, nested) == flatten(1.0, nested) == flatten(1, nested)
assert flatten(False, nested) == flatten(0.0, nested) == 1
assert flatten(2.0, nested) == flatten(2, nested) and flatten(4.0, nested) == flatten(4, nested)
# ... also when they come from the pragma line, which accepts any literal
assert at_level([1], '001001', msg, by='pragma') == [[94], [95]]
assert at_level('1', '001001', msg, by='pragma') == [[94], [95]]
assert at_level(True, '001001', msg, by='pragma') == [94, 95]
assert at_level(7, '001001', msg, by='pragma') == [[94], [95]]

# the query result is never modified and flattened results are new objects
before = copy.deepcopy(nested.results)
results = [flatten(level, nested) for level in (0, 1, 2, 4, 1, 2, 4)]
assert nested.results == before
r1a, r1b = results[1], results[4]
assert r1a == r1b and r1a is not r1b
r1a.append('junk'); results[2][0].append('junk'); results[3].append('junk')
assert nested.results == before
assert flatten(1, nested) == [1, 2, 3, None, 4.5, 'x'] and flatten(2, nested)[0] == [1, 2, 3]
assert len(flatten(4, nested)) == 4
# level 4 hands out the subsets themselves (no copy), in a new outer list
r4 = flatten(4, nested)
assert all(a is b for a, b in zip(r4, nested.results.values())) and r4 is not flatten(4, nested)
# with a single subset level 1 is still a list of its own
single = make_qr([1, 2])
assert flatten(1, single) == [1, 2] and flatten(1, single) is not single.results[0]


# exactly one look at the result per call, with the expected flag
class Spy(object):
    def __init__(self, answer):
        self.answer, self.calls = answer, []

    def all_values(self, flat=False):
        self.calls.append(flat)
        return self.answer


for level, flag in [(0, True), (1, True), (2, True), (4, False), (3, False), ('x', False)]:
    spy = Spy([[1, 2], [3]])
    out = flatten(level, spy)
    assert spy.calls == [flag], (level, spy.calls)
    assert out == {0: 1, 1: [1, 2, 3]}.get(level if level in (0, 1) else None, [[1, 2], [3]])
    if level not in (0, 1):
        assert out is spy.answer
# subsets that are not lists cannot be chained at level 0 / 1 ...
raises(TypeError, flatten, 0, Spy([(1, 2)]))
raises(TypeError, flatten, 1, Spy([[1], (2,)]))
raises(TypeError, flatten, 1, Spy([[1], None]))
raises(TypeError, flatten, 1, Spy(None))
# ... but are passed through at level 2 / 4
assert flatten(2, Spy([(1, 2)])) == [(1, 2)] and flatten(4, Spy(None)) is None
# things that are no query result at all
raises(AttributeError, flatten, 1, None)
raises(AttributeError, flatten, 4, [1])
# no level at all
runner = ScriptRunner('pass')
del runner.pragma['data_values_nest_level']
raises(KeyError, runner.flatten_data_values, nested)

print('demo 3 ok')
