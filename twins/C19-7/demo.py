import os, sys; sys.path.insert(0, os.getcwd())
"""
Differential demonstration for refactor 7 (sign-magnitude integers and skip as
template methods of the abstract BitReader / BitWriter).

Everything is compared with a model that knows nothing of bitstring: a string of
'0' / '1' characters built with format(), and a cursor into it.
"""
import random

from pybufrkit import bitops
from pybufrkit.errors import BitReadError, PyBufrKitError

assert os.path.dirname(os.path.abspath(bitops.__file__)) == os.path.join(os.getcwd(), 'pybufrkit'), bitops.__file__

CHECKS = [0]


def check(cond, *what):
    CHECKS[0] += 1
    if not cond:
        print('FAIL', *what)
        sys.exit(1)


def outcome(func, *args):
    """('ok', value) or ('raise', exception type name)"""
    try:
        return 'ok', func(*args)
    except Exception as e:
        return 'raise', type(e).__name__, e


# ---------------------------------------------------------------- the model
def m_uint(value, nbits):
    assert 0 <= value < (1 << nbits)
    return format(value, '0{}b'.format(nbits))


def m_int(value, nbits):
    """sign bit, then magnitude on nbits - 1 bits (nothing for one bit)"""
    sign = '1' if value < 0 else '0'
    return sign + (m_uint(abs(value), nbits - 1) if nbits > 1 else '')


def m_read_int(bits, pos, nbits):
    negative = bits[pos] == '1'
    if nbits <= 1:
        return 0, pos + 1
    mag = int(bits[pos + 1: pos + nbits], 2)
    return (-mag if negative else mag), pos + nbits


def writer_bits(w):
    """Content of a writer as a '0'/'1' string, through the public interface only"""
    n = w.get_pos()
    pad = -n % 8
    if pad == 0:
        data = w.to_bytes()
    else:
        # to_bytes needs whole bytes: copy the content into a padded writer
        w2 = bitops.get_bit_writer()
        w2.write_bin(w.bit_stream.bin)
        w2.write_bin('0' * pad)
        data = w2.to_bytes()
    s = ''.join(format(b, '08b') for b in bytearray(data))
    check(len(s) == n + pad, 'length', len(s), n, pad)
    return s[:n]


def bits_to_bytes(bits):
    bits = bits + '0' * (-len(bits) % 8)
    return bytes(bytearray(int(bits[i:i + 8], 2) for i in range(0, len(bits), 8)))


PREFIX = '10110100'


# ------------------------------------------------- 1. exhaustive write_int / read_int
def signed_values(nbits):
    if nbits == 1:
        return [0]
    m = nbits - 1  # width of the magnitude
    mags = [x for x in (0, 1, 1 << (m - 1), (1 << m) - 2, (1 << m) - 1) if 0 <= x < (1 << m)]
    return sorted(set(mags) | set(-x for x in mags))


for nbits in range(1, 65):
    for offset in range(8):
        for value in signed_values(nbits):
            for generic in (False, True):
                w = bitops.get_bit_writer()
                if offset:
                    w.write_bin(PREFIX[:offset])
                if generic:
                    ret = w.write(value, 'int', nbits)
                else:
                    ret = w.write_int(value, nbits)
                check(ret == value and type(ret) is int, 'write_int return', nbits, value, ret)
                check(w.get_pos() == offset + nbits, 'writer pos', nbits, offset, value, w.get_pos())
                w.write_uint(5, 3)
                expected = PREFIX[:offset] + m_int(value, nbits) + '101'
                got = writer_bits(w)
                check(got == expected, 'write_int bits', nbits, offset, value, got, expected)

                r = bitops.get_bit_reader(bits_to_bytes(expected))
                if offset:
                    check(r.read_bin(offset) == PREFIX[:offset], 'prefix')
                back = r.read('int', nbits) if generic else r.read_int(nbits)
                exp_back, exp_pos = m_read_int(expected, offset, nbits)
                check(back == exp_back and type(back) is int, 'read_int value', nbits, offset, value, back, exp_back)
                check(back == value, 'roundtrip', nbits, offset, value, back)
                check(r.get_pos() == exp_pos == w.get_pos() - 3, 'reader pos', nbits, offset, r.get_pos(), exp_pos)
                check(r.read_uint(3) == 5, 'trailer')

# negative zero: sign bit set, magnitude zero reads as (plain) 0
for nbits in range(1, 65):
    for offset in range(8):
        bits = PREFIX[:offset] + '1' + '0' * (nbits - 1) + '1'
        r = bitops.get_bit_reader(bits_to_bytes(bits))
        if offset:
            r.read_bin(offset)
        v = r.read_int(nbits)
        check(v == 0 and type(v) is int and r.get_pos() == offset + nbits, 'negative zero', nbits, offset, v)
        check(r.read_bool() is True, 'bit after')

# all ones: the most negative value
for nbits in range(2, 65):
    r = bitops.get_bit_reader(b'\xff' * 9)
    check(r.read_int(nbits) == -((1 << (nbits - 1)) - 1), 'all ones', nbits)
    check(r.get_pos() == nbits, 'all ones pos', nbits)

# ------------------------------------------------- 2. values that do not fit are refused
for nbits in range(1, 65):
    for offset in range(8):
        for value in ((1 << (nbits - 1)), -(1 << (nbits - 1)), (1 << nbits), -(1 << 70)):
            if nbits == 1 and value == 0:
                continue
            w = bitops.get_bit_writer()
            if offset:
                w.write_bin(PREFIX[:offset])
            res = outcome(w.write_int, value, nbits)
            check(res[0] == 'raise' and isinstance(res[2], ValueError), 'refused', nbits, value, res)
            if nbits == 1:
                # refused before anything is written, with the library's own message
                check(type(res[2]) is ValueError, 'one bit type', res)
                check(str(res[2]) == '{} does not fit a signed field of one bit'.format(value), 'one bit message', res)
                check(w.get_pos() == offset, 'one bit pos', w.get_pos())
            else:
                # bitstring refuses the magnitude; the sign bit is already there
                check(type(res[2]) is ValueError, 'type', res)
                check(w.get_pos() == offset + 1, 'pos after refused magnitude', nbits, w.get_pos())
                check(writer_bits(w) == PREFIX[:offset] + ('1' if value < 0 else '0'), 'bits after refused magnitude')

# one-bit field: only zero, whatever its spelling
for value in (0, 0.0, -0.9, 0.9, False, '0', '-0'):
    w = bitops.get_bit_writer()
    ret = w.write_int(value, 1)
    check(ret == 0 and type(ret) is int and w.get_pos() == 1 and writer_bits(w) == '0', 'one bit zero', value, ret)
for value in (1, -1, True, 1.5, '7'):
    w = bitops.get_bit_writer()
    res = outcome(w.write_int, value, 1)
    check(res[0] == 'raise' and type(res[2]) is ValueError and w.get_pos() == 0, 'one bit non zero', value, res)

# odd arguments: same types, same bits left behind
w = bitops.get_bit_writer()
res = outcome(w.write_int, 'x', 4)
check(res[1] == 'ValueError' and w.get_pos() == 0, 'int("x")', res)
w = bitops.get_bit_writer()
res = outcome(w.write_int, None, 4)
check(res[1] == 'TypeError' and w.get_pos() == 0, 'int(None)', res)
w = bitops.get_bit_writer()
res = outcome(w.write_int, 3, 'x')
check(res[1] == 'TypeError' and w.get_pos() == 1 and writer_bits(w) == '0', 'nbits str', res, w.get_pos())
w = bitops.get_bit_writer()
res = outcome(w.write_int, -3, None)
check(res[1] == 'TypeError' and w.get_pos() == 1 and writer_bits(w) == '1', 'nbits None', res, w.get_pos())
w = bitops.get_bit_writer()
ret = w.write_int(-2.9, 4)   # truncated towards zero by int()
check(ret == -2 and writer_bits(w) == '1010', 'float value', ret, writer_bits(w))
w = bitops.get_bit_writer()
ret = w.write_int('-5', 4)
check(ret == -5 and writer_bits(w) == '1101', 'str value', ret)
for nbits in (0, -1, -8):   # no magnitude: only the sign bit is written
    w = bitops.get_bit_writer()
    ret = w.write_int(-6, nbits)
    check(ret == -6 and writer_bits(w) == '1', 'non positive width', nbits, ret, writer_bits(w))
    r = bitops.get_bit_reader(b'\xff')
    v = r.read_int(nbits)
    check(v == 0 and type(v) is int and r.get_pos() == 1, 'read non positive width', nbits, v, r.get_pos())
w = bitops.get_bit_writer()
res = outcome(w.write_int, 1, 2.0)   # the width goes into the format string as is
check(res[1] == 'ValueError' and w.get_pos() == 1, 'float width', res)

# ------------------------------------------------- 3. reading past the end
for nbits in range(1, 65):
    for avail in sorted({0, 1, nbits - 1}):
        if avail >= nbits:
            continue
        # exactly `avail` bits remain after the prefix read
        total = 64
        r = bitops.get_bit_reader(b'\xa5' * 8)
        start = total - avail
        if start:
            r.read_bin(start)
        res = outcome(r.read_int, nbits)
        check(res[0] == 'raise' and type(res[2]) is BitReadError and isinstance(res[2], PyBufrKitError),
              'past the end', nbits, avail, res)
        # the sign bit is consumed when there is one, the magnitude read moves nothing
        check(r.get_pos() == start + (1 if avail else 0), 'pos after failed read', nbits, avail, r.get_pos())
        need = 1 if avail == 0 else nbits - 1
        left = 0 if avail == 0 else avail - 1
        check(res[2].message == 'Needed a length of at least {} bits, but only {} bits were available.'
              .format(need, left), 'message', nbits, avail, res[2].message)
r = bitops.get_bit_reader(b'\xff')
res = outcome(r.read_int, 'x')
check(res[1] == 'TypeError' and r.get_pos() == 1, 'read_int str width', res, r.get_pos())
r = bitops.get_bit_reader(b'')
res = outcome(r.read_int, 'x')
check(res[1] == 'BitReadError' and r.get_pos() == 0, 'read_int str width, empty', res)

# ------------------------------------------------- 4. skip
for nbits in range(1, 65):
    for offset in range(8):
        w = bitops.get_bit_writer()
        if offset:
            w.write_bin(PREFIX[:offset])
        ret = w.skip(nbits)
        check(ret is None, 'skip returns nothing', ret)
        check(w.get_pos() == offset + nbits, 'skip pos', nbits, offset)
        w.write_bool(True)
        check(writer_bits(w) == PREFIX[:offset] + '0' * nbits + '1', 'skip bits', nbits, offset)
        # what the encoder does with it: reserve, then overwrite in place
        w.set_uint((1 << nbits) - 1, nbits, offset)
        check(writer_bits(w) == PREFIX[:offset] + '1' * nbits + '1', 'skip then set', nbits, offset)
        check(w.get_pos() == offset + nbits + 1, 'set_uint keeps length')
for nbits, name in ((0, 'ValueError'), (-3, 'ValueError'), (-8, 'ValueError'), ('x', 'TypeError'),
                    (None, 'TypeError'), (2.0, 'ValueError'), (8.0, 'ValueError')):
    w = bitops.get_bit_writer()
    w.write_bin('101')
    res = outcome(w.skip, nbits)
    check(res[0] == 'raise' and res[1] == name, 'skip refusal', nbits, res)
    check(isinstance(res[2], (ValueError, TypeError)), 'skip refusal base', res)
    check(w.get_pos() == 3 and writer_bits(w) == '101', 'skip refusal leaves writer alone')

# ------------------------------------------------- 5. random sequences of mixed fields
rng = random.Random(19)


def random_field():
    kind = rng.choice(['uint', 'int', 'int', 'bool', 'bin', 'bytes', 'skip'])
    if kind == 'bool':
        v = rng.random() < 0.5
        return kind, 1, v, '1' if v else '0'
    if kind == 'bytes':
        nbytes = rng.randint(1, 8)
        v = bytes(bytearray(rng.randint(33, 126) for _ in range(nbytes)))
        return kind, nbytes * 8, v, ''.join(format(b, '08b') for b in bytearray(v))
    nbits = rng.randint(1, 64)
    if kind == 'skip':
        return kind, nbits, 0, '0' * nbits
    if kind == 'bin':
        v = ''.join(rng.choice('01') for _ in range(nbits))
        return kind, nbits, v, v
    if kind == 'uint':
        v = rng.choice([0, (1 << nbits) - 1, rng.randrange(1 << nbits)])
        return kind, nbits, v, m_uint(v, nbits)
    top = (1 << (nbits - 1)) - 1
    v = rng.choice([0, top, -top, rng.randint(-top, top)])
    return kind, nbits, v, m_int(v, nbits)


for trial in range(150):
    fields = [random_field() for _ in range(rng.randint(1, 200))]
    w = bitops.get_bit_writer()
    model = ''
    for kind, nbits, v, bits in fields:
        if kind == 'skip':
            check(w.skip(nbits) is None, 'skip return')
        elif trial % 2:
            w.write(v, kind, nbits)
        else:
            {'uint': lambda: w.write_uint(v, nbits), 'int': lambda: w.write_int(v, nbits),
             'bool': lambda: w.write_bool(v), 'bin': lambda: w.write_bin(v),
             'bytes': lambda: w.write_bytes(v, nbits // 8)}[kind]()
        model += bits
        check(w.get_pos() == len(model), 'pos in sequence', trial, kind, nbits)
    check(writer_bits(w) == model, 'sequence bits', trial)
    r = bitops.get_bit_reader(bits_to_bytes(model))
    pos = 0
    for kind, nbits, v, bits in fields:
        if kind == 'skip':
            got, v = r.read_uint(nbits), 0
        elif trial % 2:
            got = r.read(kind, nbits)
        else:
            got = {'uint': lambda: r.read_uint(nbits), 'int': lambda: r.read_int(nbits),
                   'bool': lambda: r.read_bool(), 'bin': lambda: r.read_bin(nbits),
                   'bytes': lambda: r.read_bytes(nbits // 8)}[kind]()
        pos += nbits
        check(got == v and type(got) is type(v), 'sequence value', trial, kind, nbits, got, v)
        check(r.get_pos() == pos, 'reader pos in sequence', trial, kind, nbits)
    check(pos == w.get_pos(), 'reader and writer end at the same place')
    # nothing more than the padding is left
    res = outcome(r.read_int, 9)
    check(type(res[2]) is BitReadError, 'end of sequence', res)

# ------------------------------------------------- 6. the methods are where callers look for them
for cls, names in ((bitops.BitStringBitReader, ('read_int', 'read_uint', 'read_bool', 'read_uint_or_none', 'read')),
                   (bitops.BitStringBitWriter, ('write_int', 'write_uint', 'write_bool', 'skip', 'set_uint', 'write'))):
    for name in names:
        check(callable(getattr(cls, name)), 'method', cls, name)
check(isinstance(bitops.get_bit_reader(b''), bitops.BitReader), 'reader type')
check(isinstance(bitops.get_bit_writer(), bitops.BitWriter), 'writer type')

print('demo 7: %d checks passed' % CHECKS[0])
