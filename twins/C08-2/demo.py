import os, sys; sys.path.insert(0, os.getcwd())
import json
import itertools

from pybufrkit.encoder import Encoder
from pybufrkit.decoder import Decoder


def make_message(ids, subsets, compressed=False, version=29):
    """A BUFR edition 4 message in the JSON form the Encoder accepts."""
    return [["BUFR", 0, 4],
            [22, 0, 0, 0, 0, False, "0000000", 0, 0, 0, version, 0, 2020, 1, 1, 0, 0, 0],
            [0, "00000000", len(subsets), True, compressed, "000000", list(ids)],
            [0, "00000000", [list(s) for s in subsets]],
            ["7777"]]


def outcome(func, *args):
    try:
        return ('ok', func(*args))
    except Exception as e:  # the property demands "the same error"
        return ('error', type(e).__name__, str(e))


def describe(template_data):
    return (
        [[(type(d).__name__, d.id, str(d)) for d in ds] for ds in template_data.decoded_descriptors_all_subsets],
        [list(vs) for vs in template_data.decoded_values_all_subsets],
        [sorted(links.items()) for links in template_data.bitmap_links_all_subsets],
    )


def encode(encoder, message):
    m = encoder.process(json.dumps(message))
    return (m.serialized_bytes,) + describe(m.template_data.value)


def decode(decoder, data):
    m = decoder.process(data)
    return describe(m.template_data.value)


def rep(factor, *values):
    """factor followed by `factor` copies of values"""
    return [factor] + list(values) * factor


# (name, descriptor ids, function(factors...) -> values of one subset, number of factors)
PROGRAMS = [
    ('plain', [1001, 1002, 12001], lambda: [5, 100, 280.5], 0),
    ('delayed', [1001, 101000, 31001, 12001, 1002],
     lambda a: [5] + rep(a, 281.5) + [7], 1),
    ('nested', [104000, 31001, 1001, 101000, 31001, 12001],
     lambda a, b: [a] + ([3] + rep(b, 270.2)) * a, 2),
    ('fixed-in-delayed', [104000, 31001, 1001, 102002, 12001, 1002],
     lambda a: [a] + [3, 270.2, 9, 271.2, 8] * a, 1),
    ('201-202', [201130, 12001, 201000, 201132, 202129, 12001, 202000, 201000, 12001],
     lambda: [280.5, 280.55, 280.5], 0),
    ('207-208', [207001, 12001, 207000, 12001, 208002, 1015, 208000, 1015],
     lambda: [280.55, 280.5, 'AB', 'ABCDEFGHIJKLMNOPQRST'], 0),
    ('operators-in-loop', [106000, 31001, 201130, 207001, 12001, 207000, 201000, 12001],
     lambda a: [a] + [280.55, 280.5] * a, 1),
    ('203', [203012, 12001, 203255, 12001, 203000, 12001],
     lambda: [-100, 10.5, 280.5], 0),
    ('204', [204004, 31021, 12001, 1001, 204000, 12001],
     lambda: [1, 3, 280.5, 2, 5, 281.5], 0),
    ('205-206-221', [205003, 206008, 1001, 221002, 12001, 1002, 12001],
     lambda: ['abc', 17, 9, 280.5], 0),
]


def qa_bitmap_case(n, bits):
    """n temperatures, then a bitmap over (001001, n x 012001), QA values for the zero bits"""
    assert len(bits) == n + 1
    ids = [1001, 101000, 31001, 12001, 222000, 236000, 101000 + (n + 1), 31031, 1031, 1032]
    nzero = bits.count(0)
    if nzero:
        ids += [101000 + nzero, 33007]
    values = [5] + rep(n, 280.5) + [0, 0] + list(bits) + [7, 0] + [50] * nzero
    return ids, values


def marker_case(bits):
    """223/224/225/232 markers mixed with 201, 202, 207 and 208 and 203"""
    nzero = bits.count(0)
    ids = [12001, 1015, 10004,
           223000, 236000, 101003, 31031]
    values = [280.5, 'STATION', 101300, 0, 0] + list(bits)
    # substituted values with changed width/scale, string with changed width
    per_marker = {
        0: (280.55, 280.5),
        1: ('SUBST', 'SUBSTITUTE'),
        2: (101300.0, 101300),
    }
    zero_idx = [i for i, b in enumerate(bits) if b == 0]
    ids += [207001, 208005] + [223255] * nzero + [207000, 208000]
    values += [per_marker[i][0] for i in zero_idx]
    ids += [224000, 237000, 8023] + [224255] * nzero
    values += [0, 0, 4] + ['SUBSTITUTE' if i == 1 else (280.5 if i == 0 else 101300) for i in zero_idx]
    ids += [225000, 237000, 8024, 201129] + [225255] * nzero + [201000]
    values += [0, 0, 2] + ['SUBSTITUTE' if i == 1 else (-1.5 if i == 0 else -20) for i in zero_idx]
    ids += [232000, 237000, 201132, 202129] + [232255] * nzero + [202000, 201000, 237255, 235000, 12001]
    values += [0, 0] + ['SUBSTITUTE' if i == 1 else (280.55 if i == 0 else 101300.0) for i in zero_idx]
    values += [0, 270.5]
    return ids, values


# (name, descriptor ids, subsets, compressed): the encoder must fail (or not) identically on both paths
ERROR_CASES = [
    ('repetition-31011', [101000, 31011, 1001], [[1, 5]], False),
    ('operator-241', [1001, 241000, 1002], [[5, 7]], False),
    ('marker-without-bitmap', [12001, 223255], [[280.5, 280.5]], False),
    ('bitmap-too-long', [12001, 222000, 101003, 31031, 33007], [[280.5, 0, 0, 0, 0, 50]], False),
    ('factor-missing', [1001, 101000, 31001, 1002], [[5, None]], False),
    ('factor-differs-compressed', [101000, 31001, 1002], [[1, 5], [2, 5, 5]], True),
    ('too-few-values', [1001, 1002, 12001], [[5, 7]], False),
    ('204-cancel-without-open', [1001, 204000, 1002], [[5, 7]], False),
    ('203-on-string', [203012, 1015, 203255], [['X']], False),
    ('undefined-descriptor', [1001, 63255], [[5, 7]], False),
    ('recall-without-bitmap', [12001, 224000, 237000, 224255], [[280.5, 0, 0, 280.5]], False),
    ('value-too-large', [1001], [[100000]], False),
    ('string-for-number', [12001], [['warm']], False),
]


def corrupt_factor(data, new_factor):
    """
    `data` encodes template 001001 101000 031001 012001 (one subset, not
    compressed). Overwrite the 8 bits of the replication factor.
    """
    start_of_section4 = data.index(b'\x41\x00\x1f\x01\x0c\x01') + 6  # end of section 3
    assert data[start_of_section4 + 3:start_of_section4 + 4] == b'\x00'
    pos = (start_of_section4 + 4) * 8 + 7  # after 7 bits of 001001
    n = int.from_bytes(data, 'big')
    total = len(data) * 8
    shift = total - pos - 8
    n = (n & ~(0xff << shift)) | (new_factor << shift)
    return n.to_bytes(len(data), 'big')


def run_battery(make_encoder, make_decoder, label, skip=()):
    """
    Every program x data content x compression: the coder from make_encoder /
    make_decoder must agree with the plain (not compiling) one.
    Returns the number of comparisons.
    """
    plain_encoder = Encoder(ignore_declared_length=True)
    plain_decoder = Decoder()
    encoder = make_encoder()
    decoder = make_decoder()
    n = 0

    def check(name, ids, subsets, compressed, expect=None):
        message = make_message(ids, subsets, compressed)
        expected = outcome(encode, plain_encoder, message)
        got = outcome(encode, encoder, message)
        assert got == expected, (label, 'encode', name, compressed, expected, got)
        if expect is not None:
            assert expected[0] == expect, (label, name, expected)
        if expected[0] == 'ok':
            data = expected[1][0]
            expected_decoded = outcome(decode, plain_decoder, data)
            got_decoded = outcome(decode, decoder, data)
            assert expected_decoded[0] == 'ok', (label, name, expected_decoded)
            assert got_decoded == expected_decoded, (label, 'decode', name, compressed, expected_decoded, got_decoded)
            # labels and links seen by the encoder are those seen by the decoder
            assert expected_decoded[1][0] == expected[1][1], (label, name)
            assert expected_decoded[1][2] == expected[1][3], (label, name)
        return expected

    for name, ids, values_of, n_factors in PROGRAMS:
        if name in skip:
            continue
        for factors in itertools.product(range(4), repeat=n_factors):
            for compressed in (False, True):
                subsets = [values_of(*factors), values_of(*factors)]
                check('{}{}'.format(name, factors), ids, subsets, compressed, expect='ok')
                n += 1
        if n_factors:
            # different factors in the subsets of one (uncompressed) message
            subsets = [values_of(*([k % 4] * n_factors)) for k in (3, 0, 1, 2)]
            check(name + '-mixed', ids, subsets, False, expect='ok')
            r = check(name + '-mixed', ids, subsets, True, expect='error')
            assert r[1] == 'PyBufrKitError', r
            n += 2

    for n_temperatures in range(3):
        for bits in itertools.product((0, 1), repeat=n_temperatures + 1):
            ids, values = qa_bitmap_case(n_temperatures, list(bits))
            for compressed in (False, True):
                check('qa{}'.format(bits), ids, [values, values], compressed, expect='ok')
                n += 1

    for bits in itertools.product((0, 1), repeat=3):
        ids, values = marker_case(list(bits))
        for compressed in (False, True):
            check('markers{}'.format(bits), ids, [values, values, values], compressed, expect='ok')
            n += 1

    for name, ids, subsets, compressed in ERROR_CASES:
        r = check(name, ids, subsets, compressed)
        assert name == 'repetition-31011' or r[0] == 'error', (name, r)
        n += 1

    good = encode(plain_encoder, make_message([1001, 101000, 31001, 12001], [[5, 1, 280.5]]))[0]
    for factor, expect in ((0, 'ok'), (1, 'ok'), (2, 'PyBufrKitError'), (3, 'PyBufrKitError'),
                           (200, 'BitReadError'), (255, 'PyBufrKitError')):
        data = corrupt_factor(good, factor)
        expected = outcome(decode, plain_decoder, data)
        got = outcome(decode, decoder, data)
        assert got == expected, (label, 'corrupt', factor, expected, got)
        assert expected[0] == expect or expected[1] == expect, (factor, expected)
        n += 1

    return n


def sample_files():
    base = os.path.join(os.getcwd(), 'tests', 'data')
    names = ['207003', 'ISMD01_OKPR', 'IUSK73_AMMC_182300', 'amv2_87', 'asr3_190', 'b002_95', 'b005_89',
             'g2nd_208', 'jaso_214', 'mpco_217', 'profiler_european', 'rado_250', 'uegabe']
    return [os.path.join(base, name) for name in names]


def run_samples(make_encoder, make_decoder, label, skip=()):
    """The sample files: decode, and encode from their JSON form."""
    plain_encoder = Encoder(ignore_declared_length=True)
    plain_decoder = Decoder()
    encoder = make_encoder()
    decoder = make_decoder()
    n = 0
    for stub in sample_files():
        if os.path.basename(stub) in skip:
            continue
        n += 1
        with open(stub + '.bufr', 'rb') as ins:
            data = ins.read()
        expected = outcome(decode, plain_decoder, data)
        assert expected[0] == 'ok', (stub, expected)
        assert outcome(decode, decoder, data) == expected, (label, 'decode', stub)
        with open(stub + '.json') as ins:
            message = json.load(ins)
        expected = outcome(encode, plain_encoder, message)
        assert expected[0] == 'ok', (stub, expected)
        assert outcome(encode, encoder, message) == expected, (label, 'encode', stub)
    return n


###########################################################################
# Part 1: any cache size gives the results of the coders that do not compile
import random

from pybufrkit.tables import TableGroupCacheManager
from pybufrkit.templatecompiler import CompiledTemplateManager, CompiledTemplate

n = 0
for cache_max in (0, 1, 2, 1000):
    n += run_battery(lambda: Encoder(ignore_declared_length=True, compiled_template_cache_max=cache_max),
                     lambda: Decoder(compiled_template_cache_max=cache_max), 'cache {}'.format(cache_max))
for cache_max in (0, 1, 3):
    n += run_samples(lambda: Encoder(ignore_declared_length=True, compiled_template_cache_max=cache_max),
                     lambda: Decoder(compiled_template_cache_max=cache_max), 'samples, cache {}'.format(cache_max))

###########################################################################
# Part 2: arbitrary orders of messages through one long lived coder
messages = []
for name, ids, values_of, n_factors in PROGRAMS:
    for factors in ((0,) * n_factors, (2,) * n_factors):
        messages.append(make_message(ids, [values_of(*factors)] * 2, compressed=bool(n_factors)))
for bits in ((0, 0, 0), (1, 0, 1)):
    ids, values = marker_case(list(bits))
    messages.append(make_message(ids, [values, values]))
ids, values = qa_bitmap_case(2, [0, 1, 0])
messages.append(make_message(ids, [values]))
messages.append(make_message(ids, [values], version=25))  # same descriptors, other tables
for name, ids, subsets, compressed in ERROR_CASES:
    messages.append(make_message(ids, subsets, compressed))

plain_encoder = Encoder(ignore_declared_length=True)
plain_decoder = Decoder()
expected_encoded = [outcome(encode, plain_encoder, m) for m in messages]
expected_decoded = [outcome(decode, plain_decoder, e[1][0]) if e[0] == 'ok' else None for e in expected_encoded]
assert sum(1 for e in expected_encoded if e[0] == 'ok') >= 25
assert sum(1 for e in expected_encoded if e[0] == 'error') >= 10

rng = random.Random(8)
for cache_max in (0, 1, 2, 5, len(messages)):
    encoder = Encoder(ignore_declared_length=True, compiled_template_cache_max=cache_max)
    decoder = Decoder(compiled_template_cache_max=cache_max)
    for _ in range(3):
        order = list(range(len(messages))) * 2
        rng.shuffle(order)
        for k in order:
            assert outcome(encode, encoder, messages[k]) == expected_encoded[k], (cache_max, k)
            if expected_decoded[k] is not None:
                assert outcome(decode, decoder, expected_encoded[k][1][0]) == expected_decoded[k], (cache_max, k)
            for manager in (encoder.compiled_template_manager, decoder.compiled_template_manager):
                assert len(manager.cache) <= cache_max
                assert type(manager.cache) is dict
            n += 1

###########################################################################
# Part 3: the cache itself
group29 = TableGroupCacheManager.get_table_group(master_table_version=29)
group25 = TableGroupCacheManager.get_table_group(master_table_version=25)
assert group29.key != group25.key


def template(group, *ids):
    return group.template_from_ids(*ids)


A = template(group29, 1001, 101000, 31001, 12001)
A_again = template(group29, 1001, 101000, 31001, 12001)
A25 = template(group25, 1001, 101000, 31001, 12001)
B = template(group29, 1001, 1002)
C = template(group29, 12001, 223000, 101001, 31031, 207001, 223255, 207000)
BAD = template(group29, 1001, 241000)
key_A = ((1001, 101000, 31001, 12001), group29.key)
key_A25 = ((1001, 101000, 31001, 12001), group25.key)
key_B = ((1001, 1002), group29.key)
key_C = ((12001, 223000, 101001, 31031, 207001, 223255, 207000), group29.key)

# no caching: a fresh, equal, compilation each time
for cache_max in (0, -1, -0.5, False):
    manager = CompiledTemplateManager(cache_max)
    first = manager.get_or_compile(A, group29)
    second = manager.get_or_compile(A, group29)
    assert type(first) is CompiledTemplate and type(second) is CompiledTemplate
    assert first is not second and first.to_dict() == second.to_dict()
    assert first.template is A and first.table_group_key == group29.key
    assert manager.cache == {} and manager.cache_max is cache_max

# one entry
manager = CompiledTemplateManager(1)
a = manager.get_or_compile(A, group29)
assert list(manager.cache.items()) == [(key_A, a)] and manager.cache[key_A] is a
assert manager.get_or_compile(A, group29) is a
assert manager.get_or_compile(A_again, group29) is a  # keyed by the descriptors, not by the object
assert a.template is A
b = manager.get_or_compile(B, group29)
assert list(manager.cache.items()) == [(key_B, b)] and manager.cache[key_B] is b
a2 = manager.get_or_compile(A, group29)
assert a2 is not a and a2.to_dict() == a.to_dict()
assert list(manager.cache) == [key_A]
assert manager.get_or_compile(A, group29) is a2

# two entries: the entry given up is the one that came last
manager = CompiledTemplateManager(2)
a = manager.get_or_compile(A, group29)
b = manager.get_or_compile(B, group29)
assert list(manager.cache) == [key_A, key_B]
c = manager.get_or_compile(C, group29)
assert list(manager.cache) == [key_A, key_C]
assert manager.get_or_compile(A, group29) is a and manager.get_or_compile(C, group29) is c
assert list(manager.cache) == [key_A, key_C]
b2 = manager.get_or_compile(B, group29)
assert b2 is not b and list(manager.cache) == [key_A, key_B] and manager.cache[key_B] is b2
# the same descriptors with other tables are another entry
a25 = manager.get_or_compile(A25, group25)
assert list(manager.cache) == [key_A, key_A25] and a25 is not a
assert a25.table_group_key == group25.key and a.table_group_key == group29.key
assert manager.get_or_compile(A, group29) is a and manager.get_or_compile(A25, group25) is a25

# a template that cannot be compiled: the error comes out, the cache is as before
for cache_max in (0, 1, 2):
    manager = CompiledTemplateManager(cache_max)
    a = manager.get_or_compile(A, group29)
    before = list(manager.cache.items())
    r = outcome(manager.get_or_compile, BAD, group29)
    assert r == ('error', 'NotImplementedError', 'Operator Descriptor 241000 not implemented'), r
    assert list(manager.cache.items()) == before
    assert (manager.get_or_compile(A, group29) is a) == (cache_max > 0)

# odd cache sizes
manager = CompiledTemplateManager(True)
a = manager.get_or_compile(A, group29)
b = manager.get_or_compile(B, group29)
assert list(manager.cache) == [key_B]
manager = CompiledTemplateManager(1.5)
a = manager.get_or_compile(A, group29)
b = manager.get_or_compile(B, group29)
c = manager.get_or_compile(C, group29)
assert list(manager.cache) == [key_A, key_C]
for cache_max in (None, '2', [1]):
    manager = CompiledTemplateManager(cache_max)
    r = outcome(manager.get_or_compile, A, group29)
    assert r[:2] == ('error', 'TypeError'), r
    assert manager.cache == {}
    # ... and only after the compilation was tried
    r = outcome(manager.get_or_compile, BAD, group29)
    assert r[:2] == ('error', 'NotImplementedError'), r

# what is in the cache is what is used, whatever it is
manager = CompiledTemplateManager(3)
marker = object()
manager.cache[key_A] = marker
assert manager.get_or_compile(A, group29) is marker
manager.cache[key_A] = 0  # falsy but there
assert manager.get_or_compile(A, group29) == 0 and manager.cache[key_A] == 0
manager.cache[key_A] = None  # as good as absent
a = manager.get_or_compile(A, group29)
assert type(a) is CompiledTemplate and manager.cache[key_A] is a and len(manager.cache) == 1

# bad arguments
manager = CompiledTemplateManager(3)
assert outcome(manager.get_or_compile, None, group29)[:2] == ('error', 'AttributeError')
assert outcome(manager.get_or_compile, A, None)[:2] == ('error', 'AttributeError')
assert manager.cache == {}

# the coders hold one manager with the size they were given
assert Decoder().compiled_template_manager is None
assert Encoder().compiled_template_manager is None
assert Decoder(compiled_template_cache_max=0).compiled_template_manager.cache_max == 0
assert Encoder(compiled_template_cache_max=7).compiled_template_manager.cache_max == 7

print('demo 2: {} comparisons, all agree; cache behaviour ok'.format(n))
