import os, sys; sys.path.insert(0, os.getcwd())
import glob
import json
import logging

import pybufrkit
assert os.path.dirname(os.path.abspath(pybufrkit.__file__)) == os.path.join(os.getcwd(), 'pybufrkit'), \
    'run from the worktree root'

from pybufrkit.errors import PyBufrKitError, MetadataExprParsingError
from pybufrkit.bufr import BufrMessage, BufrSection, SectionParameter, SectionConfigurer
from pybufrkit.decoder import Decoder, generate_bufr_message
from pybufrkit.encoder import Encoder
from pybufrkit.mdquery import MetadataExprParser, MetadataQuerent

DEFINITIONS_DIR = os.path.join('pybufrkit', 'definitions')
DATA_DIR = os.path.join('tests', 'data')


def build_message(edition, with_s2, n_subsets=2):
    """Encode a tiny message (descriptors 001001, 001002) of the given edition."""
    s0 = ['BUFR', 0, edition]
    head = [0, 0]  # section_length, master_table_number
    if edition == 2:
        centre = [98]
    elif edition == 3:
        centre = [7, 98]  # sub-centre, centre
    else:
        centre = [98, 7]  # centre, sub-centre
    category = [2, 1, 4] if edition == 4 else [2, 4]
    year = 2024 if edition == 4 else 24
    s1 = head + centre + [3, with_s2, '0000000'] + category + [13, 0, year, 5, 17, 11, 45, 9]
    sections = [s0, s1]
    if with_s2:
        sections.append([0, '00000000', '1010101111001101'])
    sections.append([0, '00000000', n_subsets, True, False, '000000', [1001, 1002]])
    sections.append([0, '00000000', [[(i + 5) % 100, 100 + i] for i in range(n_subsets)]])
    sections.append(['7777'])
    return Encoder().process(json.dumps(sections)).serialized_bytes


def read_data(name):
    with open(os.path.join(DATA_DIR, name), 'rb') as ins:
        return ins.read()


def all_message_bytes():
    """(label, bytes) for editions 2, 3, 4 with and without section 2 plus real samples."""
    out = []
    for edition in (2, 3, 4):
        for with_s2 in (False, True):
            out.append(('built-e{}-s2{}'.format(edition, int(with_s2)), build_message(edition, with_s2)))
    for name in ('jaso_214.bufr', '207003.bufr', 'contrived.bufr', 'uegabe.bufr'):
        out.append((name, read_data(name)))
    return out


def all_parameter_names():
    names = set()
    for path in glob.glob(os.path.join(DEFINITIONS_DIR, 'section*.json')):
        with open(path) as ins:
            for parameter in json.load(ins)['parameters']:
                names.add(parameter['name'])
    assert {'length', 'edition', 'section_length', 'originating_subcentre', 'data_i18n_subcategory',
            'local_bits', 'unexpanded_descriptors', 'template_data', 'stop_signature'} <= names
    return sorted(names)


def oracle(bufr_message, section_index, name):
    """The value the property demands, computed without the library's query code."""
    for section in bufr_message.sections:
        if section_index is not None and section.get_metadata('index') != section_index:
            continue
        if name in section:
            return getattr(section, name).value
    return None


def section_values(section):
    return [(p.name, p.type, p.nbits, p.value) for p in section]


def raises(exc_type, func, *args, **kwargs):
    try:
        func(*args, **kwargs)
    except Exception as e:  # noqa
        assert type(e) is exc_type, 'expected {} got {!r}'.format(exc_type.__name__, e)
        return e
    raise AssertionError('expected {} but nothing was raised'.format(exc_type.__name__))


# ---------------------------------------------------------------- demo 1: MetadataExprParser.parse
parser = MetadataExprParser()

GOOD = [
    ('%length', (None, 'length')),
    ('%edition', (None, 'edition')),
    ('   %length  ', (None, 'length')),
    ('\t%section_length\n', (None, 'section_length')),
    ('%3.section_length', (3, 'section_length')),
    ('%0.edition', (0, 'edition')),
    (' %5.stop_signature ', (5, 'stop_signature')),
    ('%9.length', (9, 'length')),
    ('%-1.length', (-1, 'length')),
    ('%+3.section_length', (3, 'section_length')),
    ('%007.x', (7, 'x')),
    ('%1_0.x', (10, 'x')),
    ('% 2 .x', (2, 'x')),           # int() tolerates blanks around the digits
    ('%2. x', (2, ' x')),           # the name is not stripped
    ('%1.a.b', (1, 'a.b')),         # only the first dot separates
    ('%1.5.x', (1, '5.x')),
    ('%2.', (2, '')),
    ('%', (None, '')),
    ('%%length', (None, '%length')),
    ('%len gth', (None, 'len gth')),
]
for expr, expected in GOOD:
    got = parser.parse(expr)
    assert got == expected, (expr, got, expected)
    assert type(got) is tuple and len(got) == 2
    assert got[0] is None or type(got[0]) is int
    assert type(got[1]) is str

BAD = [
    ('length', 'Metadata expression must start with "%"'),
    ('', 'Metadata expression must start with "%"'),
    ('    ', 'Metadata expression must start with "%"'),
    ('3.length', 'Metadata expression must start with "%"'),
    ('$length', 'Metadata expression must start with "%"'),
    ('x%length', 'Metadata expression must start with "%"'),
    ('.%length', 'Metadata expression must start with "%"'),
    ('%a.length', 'Invalid section index: a'),
    ('%.length', 'Invalid section index: '),
    ('%1x.length', 'Invalid section index: 1x'),
    ('%1,5.length', 'Invalid section index: 1,5'),
    ('%0x1.length', 'Invalid section index: 0x1'),
    ('%section_length.3', 'Invalid section index: section_length'),
    ('%..', 'Invalid section index: '),
    ('%%1.length', 'Invalid section index: %1'),
]
for expr, message in BAD:
    e = raises(MetadataExprParsingError, parser.parse, expr)
    assert isinstance(e, PyBufrKitError)
    assert e.message == message, (expr, e.message)
    assert str(e) == 'Error: ' + message, (expr, str(e))
    if message.startswith('Invalid'):
        # raised while the ValueError of int() is being handled
        assert type(e.__context__) is ValueError and e.__cause__ is None
    else:
        assert e.__context__ is None and e.__cause__ is None

# non-string input is not the parser's business: the str methods complain
raises(AttributeError, parser.parse, None)
raises(AttributeError, parser.parse, 3)
raises(TypeError, parser.parse, b'%length')

# The parser is stateless: same answers from one instance or many
assert MetadataExprParser().parse('%4.section_length') == parser.parse('%4.section_length') == (4, 'section_length')

# Through the querent, over every name x every message x every explicit index
querent = MetadataQuerent(parser)
names = all_parameter_names()
n_checked = 0
for label, data in all_message_bytes():
    msg = Decoder().process(data)
    for name in names + ['blahblah', '']:
        for section_index in (None, 0, 1, 2, 3, 4, 5, 6, 9, -1):
            expr = '%' + name if section_index is None else '%{}.{}'.format(section_index, name)
            expected = oracle(msg, section_index, name)
            for variant in (expr, '  ' + expr + ' \n'):
                got = querent.query(msg, variant)
                if name == 'template_data' and expected is not None:
                    assert got is expected
                else:
                    assert got == expected and type(got) is type(expected), (label, variant, got, expected)
                n_checked += 1
    raises(MetadataExprParsingError, querent.query, msg, 'length')
    raises(MetadataExprParsingError, querent.query, msg, '%one.length')
    raises(MetadataExprParsingError, querent.query, msg, '%.length')

print('demo 1 ok: {} parse cases, {} queries'.format(len(GOOD) + len(BAD), n_checked))
