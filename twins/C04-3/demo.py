"""
Demo for refactor 3 (decoder.py: Decoder.process_section - the "skip to declared
end of section / overrun" tail extracted into methods with guard clauses, the
"bits left in this section" arithmetic shared with the nbits == 0 read).

Messages are produced by the encoder and then altered byte-wise (surplus octets
spliced into sections 1-4, lengths patched by hand, trailing bytes appended) so
the decoder is checked against bytes it did not help to produce.
Must exit 0 with and without the patch.
"""
import os, sys; sys.path.insert(0, os.getcwd())

import pybufrkit
assert os.path.dirname(os.path.abspath(pybufrkit.__file__)).startswith(os.getcwd()), pybufrkit.__file__

from pybufrkit.encoder import Encoder
from pybufrkit.decoder import Decoder
from pybufrkit.errors import PyBufrKitError, BitReadError

DATA_DIR = os.path.join(os.getcwd(), 'tests', 'data')


def descriptors_for(nbits):
    if nbits == 0:
        return []
    assert nbits >= 2
    n3 = nbits % 2
    n2 = (nbits - 3 * n3) // 2
    return [1003] * n3 + [2001] * n2


def build(edition, nbits, sec2=None):
    descs = descriptors_for(nbits)
    vals = [1] * len(descs)
    has2 = sec2 is not None
    if edition == 2:
        s1 = [0, 0, 98, 0, has2, '0000000', 0, 0, 25, 0, 17, 3, 4, 5, 6, 7]
    elif edition == 3:
        s1 = [0, 0, 0, 98, 0, has2, '0000000', 0, 0, 25, 0, 17, 3, 4, 5, 6, 7]
    else:
        s1 = [0, 0, 98, 0, 0, has2, '0000000', 0, 0, 0, 25, 0, 2017, 3, 4, 5, 6, 7]
    msg = [['BUFR', 0, edition], s1]
    if has2:
        msg.append([0, '00000000', sec2])
    msg.append([0, '00000000', 1, True, False, '000000', descs])
    msg.append([0, '00000000', [vals]])
    msg.append(['7777'])
    return msg


def layout(b, has2):
    """{section index: (start, length)} found by following the declared lengths."""
    pos, out = 8, {}
    for index in ([1, 2, 3, 4] if has2 else [1, 3, 4]):
        n = int.from_bytes(b[pos:pos + 3], 'big')
        out[index] = (pos, n)
        pos += n
    assert b[pos:pos + 4] == b'7777'
    return out


def set_len(b, pos, n):
    return b[:pos] + n.to_bytes(3, 'big') + b[pos + 3:]


def splice(b, has2, surplus, filler=0xA5):
    """Append surplus[index] octets to each section, fixing section and total lengths."""
    for index in (4, 3, 2, 1):  # back to front so earlier offsets stay valid
        k = surplus.get(index, 0)
        if not k:
            continue
        start, n = layout(b, has2)[index]
        b = b[:start + n] + bytes([filler]) * k + b[start + n:]
        b = set_len(b, start, n + k)
    return set_len(b, 4, len(b))


def bits_of(bs):
    return ''.join('{:08b}'.format(x) for x in bs)


def expect_error(func, exc_type, message=None):
    try:
        func()
    except Exception as e:
        assert type(e) is exc_type, (type(e), e)
        if message is not None:
            got = e.message if isinstance(e, PyBufrKitError) else str(e)
            assert got == message, got
    else:
        raise AssertionError('no {} raised'.format(exc_type.__name__))


encoder = Encoder()
decoder = Decoder()
TAILS = (b'', b'\x00', b'7777', b'BUFR\x00\x00\x10\x04 tail')

# ---- 1. surplus octets in sections 1-4, optional section 2, trailing bytes
n_cases = 0
for edition in (2, 3, 4):
    for nbits in (0, 2, 3, 7, 8, 9, 12, 15, 16, 17, 21):
        for sec2 in (None, '', '1', '10110011', '101100111'):
            has2 = sec2 is not None
            clean = encoder.process(build(edition, nbits, sec2)).serialized_bytes
            surplus_choices = [{}, {1: 1}, {1: 2}, {1: 3}, {4: 1}, {4: 2}, {4: 3}, {1: 2, 4: 5}]
            if has2:
                surplus_choices += [{2: 1}, {2: 3}, {1: 1, 2: 2, 4: 3}]
            if edition == 4:
                # one spare octet in section 3 is not enough for a descriptor
                surplus_choices += [{3: 1}, {1: 3, 3: 1, 4: 1}]
            for surplus in surplus_choices:
                b = splice(clean, has2, surplus)
                lay = layout(b, has2)
                tail = TAILS[n_cases % len(TAILS)]
                d = decoder.process(b'\r\n' + b + tail)
                n_cases += 1

                assert d.serialized_bytes == b
                assert d.length.value == len(b) and d.edition.value == edition
                assert [s.get_metadata('index') for s in d.sections] == [0] + sorted(lay) + [5]
                for s in d.sections[1:-1]:
                    assert s.section_length.value == lay[s.get_metadata('index')][1]
                assert d.is_section2_presents.value == has2
                assert d.unexpanded_descriptors.value == descriptors_for(nbits)
                assert d.template_data.value.decoded_values_all_subsets == [[1] * len(descriptors_for(nbits))]
                assert d.sections[-1].stop_signature.value == b'7777'
                if has2:
                    # local_bits is "everything up to the declared end of section 2"
                    start, n = lay[2]
                    local_bits = d.sections[2].local_bits.value
                    assert local_bits == bits_of(b[start + 4:start + n])
                    assert local_bits.startswith(sec2)
                    k = surplus.get(2, 0)
                    assert set(local_bits[len(sec2):len(local_bits) - 8 * k]) <= {'0'}  # encoder padding
                    assert local_bits[len(local_bits) - 8 * k:] == '10100101' * k   # spliced surplus

                # info_only stops before the template data but still consumes section 4 whole
                i = decoder.process(b + tail, info_only=True)
                assert i.serialized_bytes == b[:-4]
                assert i.sections[-1].get_metadata('index') == 4

# ---- 2. the declared total length is not what delimits the message
b = encoder.process(build(4, 9, '1')).serialized_bytes
for wrong in (0, 1, len(b) - 1, len(b) + 7):
    d = decoder.process(set_len(b, 4, wrong) + b'xyz')
    assert d.serialized_bytes == set_len(b, 4, wrong) and d.length.value == wrong

# ---- 3. declared section lengths shorter than the content are errors
for edition, sec1_bits in ((2, 144), (3, 144), (4, 176)):
    for nbits in (0, 5, 9, 16):
        b = encoder.process(build(edition, nbits, '11')).serialized_bytes
        lay = layout(b, True)
        start, n = lay[1]
        for short in (0, 1, 3, 4, n - 2, n - 1):
            if short * 8 >= sec1_bits:
                continue
            expect_error(lambda: decoder.process(set_len(b, start, short)), PyBufrKitError,
                         'Read exceeds declared section 1 length: {} by {} bits'.format(short, sec1_bits - short * 8))
        start, n = lay[4]
        for short in range(0, n):
            over = 32 + nbits - short * 8
            if over <= 0:
                continue
            expect_error(lambda: decoder.process(set_len(b, start, short)), PyBufrKitError,
                         'Read exceeds declared section 4 length: {} by {} bits'.format(short, over))
        start, n = lay[3]
        for short in (0, 1, 4, 6):
            expect_error(lambda: decoder.process(set_len(b, start, short)), PyBufrKitError,
                         'Read exceeds declared section 3 length: {} by {} bits'.format(short, 56 - short * 8))
        # section 2: fewer octets declared than its fixed head is refused like any other overrun
        # (rebased: since "fix: a section declared shorter than its fixed part is reported with
        # PyBufrKitError" the negative width no longer reaches the bit reader as a ValueError)
        start, n = lay[2]
        for short in (0, 1, 2, 3):
            expect_error(lambda: decoder.process(set_len(b, start, short)), PyBufrKitError,
                         'Read exceeds declared section 2 length: {} by {} bits'.format(short, 32 - short * 8))
        # declared exactly its head: empty local bits, the next section is then misread
        expect_error(lambda: decoder.process(set_len(b, start, 4)), BitReadError)

# ---- 4. truncated input, damaged end signature
b = encoder.process(build(3, 9, '1')).serialized_bytes
for cut in (1, 3, 4, 5, 9, 20):
    expect_error(lambda: decoder.process(b[:-cut]), BitReadError)
expect_error(lambda: decoder.process(b[:-4] + b'7778'), PyBufrKitError,
             "Value ({!r}) not as expected ({!r})".format(b'7778', b'7777'))
expect_error(lambda: decoder.process(b'no message here'), PyBufrKitError,
             'Cannot find start signature: {}'.format(b'BUFR'))
# a section 4 that declares more octets than the input holds
start, n = layout(b, True)[4]
expect_error(lambda: decoder.process(set_len(b, start, n + 5)), BitReadError)

# ---- 5. sample files: exact span, sections add up
for name in sorted(os.listdir(DATA_DIR)):
    if not name.endswith('.bufr') or name in ('multi_invalid_messages.bufr', 'prepbufr.bufr'):
        continue
    with open(os.path.join(DATA_DIR, name), 'rb') as ins:
        raw = ins.read()
    d = decoder.process(raw)
    span = d.serialized_bytes
    start = raw.find(b'BUFR')
    assert span == raw[start:start + len(span)]
    assert span[:4] == b'BUFR' and span[-4:] == b'7777'
    assert d.length.value == len(span) == int.from_bytes(span[4:7], 'big')
    assert 8 + sum(s.section_length.value for s in d.sections[1:-1]) + 4 == len(span)
    assert decoder.process(b'xx' + span + span).serialized_bytes == span
    if d.is_section2_presents.value:
        sec2 = d.sections[2]
        assert len(sec2.local_bits.value) == (sec2.section_length.value - 4) * 8

print('refactor 3 demo OK: {} spliced messages'.format(n_cases))
