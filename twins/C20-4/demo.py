import os, sys; sys.path.insert(0, os.getcwd())

# ---------------------------------------------------------------------------
# Independent, hand-written BUFR edition 4 stream builder and reference
# expander (does not use any pybufrkit code, so it is a genuine oracle).
# ---------------------------------------------------------------------------
import math
import random

DEFINITION_TEMPLATE = [103000, 31001, 1, 2, 3,
                       101000, 31001, 300004,
                       105000, 31001, 300003, 205064, 101000, 31001, 30]

# The few standard (table file) elements used by the demos: id -> (unit, scale, ref, width)
STANDARD_B = {
    '001001': ('Numeric', 0, 0, 7),
    '012001': ('K', 1, 0, 12),
    '031001': ('Numeric', 0, 0, 8),
    '031002': ('Numeric', 0, 0, 16),
    '031000': ('Numeric', 0, 0, 1),
}


class Bits(object):
    def __init__(self):
        self.bits = []

    def uint(self, value, nbits):
        assert 0 <= value < (1 << nbits) or nbits == 0, (value, nbits)
        self.bits.extend((value >> i) & 1 for i in range(nbits - 1, -1, -1))

    def text(self, s, nbytes):
        raw = s.encode('ascii') if isinstance(s, str) else s
        raw = raw.ljust(nbytes, b' ')
        assert len(raw) == nbytes, (s, nbytes)
        for ch in raw:
            self.uint(ch, 8)

    def to_bytes(self):
        bits = self.bits + [0] * (-len(self.bits) % 8)
        return bytes(int(''.join(map(str, bits[i:i + 8])), 2) for i in range(0, len(bits), 8))


def make_message(data_category, descriptor_ids, payload, n_subsets=1, compressed=False,
                 master_table_version=33):
    sec1 = (b'\x00\x00\x16' + bytes([0]) + (7).to_bytes(2, 'big') + (0).to_bytes(2, 'big') +
            bytes([0, 0, data_category, 0, 0, master_table_version, 0]) +
            (2024).to_bytes(2, 'big') + bytes([1, 2, 3, 4, 5]))
    assert len(sec1) == 22
    flags = 0x80 | (0x40 if compressed else 0)
    body3 = bytes([0]) + n_subsets.to_bytes(2, 'big') + bytes([flags])
    for id_ in descriptor_ids:
        id_ = int(id_)
        f, x, y = id_ // 100000, (id_ // 1000) % 100, id_ % 1000
        body3 += bytes([(f << 6) | x, y])
    sec3 = (len(body3) + 3).to_bytes(3, 'big') + body3
    sec4 = (len(payload) + 4).to_bytes(3, 'big') + b'\x00' + payload
    total = 8 + len(sec1) + len(sec3) + len(sec4) + 4
    return b'BUFR' + total.to_bytes(3, 'big') + b'\x04' + sec1 + sec3 + sec4 + b'7777'


def make_definition_message(b_defs, d_defs, a_defs=(('200', 'DEMO', ''),), n_subsets=1):
    """
    b_defs: list of (id6, name, unit, scale, ref, width); d_defs: list of (id6, name, [member id6...])
    A member count given explicitly as (id6, name, members, count) overrides len(members).
    """
    w = Bits()
    w.uint(len(a_defs), 8)
    for entry, line1, line2 in a_defs:
        w.text(entry, 3), w.text(line1, 32), w.text(line2, 32)
    w.uint(len(b_defs), 8)
    for id6, name, unit, scale, ref, width in b_defs:
        w.text(id6[0], 1), w.text(id6[1:3], 2), w.text(id6[3:], 3)
        w.text(name[:32], 32), w.text(name[32:], 32)
        w.text(unit, 24)
        for number, nchars in ((scale, 3), (ref, 10)):
            if isinstance(number, tuple):  # raw (sign text, magnitude text), for malformed definitions
                w.text(number[0], 1), w.text(number[1], nchars)
            else:
                w.text('+' if number >= 0 else '-', 1), w.text(str(abs(number)), nchars)
        w.text(str(width), 3)
    w.uint(len(d_defs), 8)
    for d_def in d_defs:
        id6, name, members = d_def[:3]
        w.text(id6[0], 1), w.text(id6[1:3], 2), w.text(id6[3:], 3)
        w.text(name, 64)
        w.uint(d_def[3] if len(d_def) > 3 else len(members), 8)
        for member in members:
            w.text(member, 6)
    return make_message(11, DEFINITION_TEMPLATE, w.to_bytes() * n_subsets, n_subsets=n_subsets)


def is_replication_only(members):
    if not members or members[0][0] != '1' or int(members[0][1:3]) != 1:
        return False
    return len(members) == (2 if members[0][3:] == '000' else 1)


def expand(ids, b_table, d_table, rng, out):
    """
    Reference expansion of a descriptor list into a flat list of
    (kind, width, raw, expected) fields, choosing raw values with rng.
    Handles elements, fixed / delayed replication, sequences and the NCEP
    replication-only sequences (the replicated descriptor follows the sequence).
    """
    queue = list(ids)
    while queue:
        id6 = queue.pop(0)
        if id6[0] == '3':
            members = d_table[id6]
            if is_replication_only(members):
                queue[0:0] = members
            else:
                expand(members, b_table, d_table, rng, out)
        elif id6[0] == '1':
            n_items, count = int(id6[1:3]), int(id6[3:])
            if count == 0:
                factor = queue.pop(0)
                width = b_table[factor][3]
                count = rng.randint(0, min(3, (1 << width) - 1))
                out.append(('num', width, count, count))
            group = [queue.pop(0) for _ in range(n_items)]
            for _ in range(count):
                expand(group, b_table, d_table, rng, out)
        else:
            unit, scale, ref, width = b_table[id6]
            if unit == 'CCITT IA5':
                raw = bytes(rng.choice(b'ABCDEFGHIJKLMNOPQRSTUVWXYZ0123456789') for _ in range(width // 8))
                out.append(('str', width, raw, raw))
            else:
                top = (1 << width) - 1
                raw = top if (width > 1 and rng.random() < 0.15) else rng.randint(0, max(top - 1, 0) if width > 1 else 1)
                if width > 1 and raw == top:
                    expected = None
                elif unit in ('CODE TABLE', 'FLAG TABLE'):
                    expected = raw
                else:
                    expected = raw + ref
                    if scale != 0:
                        expected = expected / 10.0 ** scale
                out.append(('num', width, raw, expected))
    return out


def make_data_message(ids, b_table, d_table, rng, data_category=0):
    fields = expand(ids, b_table, d_table, rng, [])
    w = Bits()
    for kind, width, raw, _ in fields:
        if kind == 'str':
            w.text(raw, width // 8)
        else:
            w.uint(raw, width)
    return make_message(data_category, ids, w.to_bytes()), [f[3] for f in fields]


def make_compressed_data_message(ids, b_table, d_table, rng, n_subsets=3, data_category=0):
    """No delayed replication here, so that all subsets share one structure."""
    subsets = [expand(ids, b_table, d_table, rng, []) for _ in range(n_subsets)]
    w = Bits()
    for column in zip(*subsets):
        kind, width = column[0][0], column[0][1]
        raws = [f[2] for f in column]
        if kind == 'str':
            w.text(b'\x00' * (width // 8), width // 8)
            w.uint(width // 8, 6)
            for raw in raws:
                w.text(raw, width // 8)
        else:
            top = (1 << width) - 1
            present = [r for r in raws if not (width > 1 and r == top)]
            if not present:
                w.uint(top, width), w.uint(0, 6)
                continue
            low = min(present)
            nbits_diff = max((max(present) - low + 1).bit_length(), 2)
            w.uint(low, width), w.uint(nbits_diff, 6)
            for raw in raws:
                w.uint((1 << nbits_diff) - 1 if (width > 1 and raw == top) else raw - low, nbits_diff)
    return (make_message(data_category, ids, w.to_bytes(), n_subsets=n_subsets, compressed=True),
            [[f[3] for f in subset] for subset in subsets])


def tables_of(b_defs, d_defs, base_b=None, base_d=None):
    b_table = dict(STANDARD_B if base_b is None else base_b)
    d_table = dict({} if base_d is None else base_d)
    for id6, _, unit, scale, ref, width in b_defs:
        b_table[id6] = (unit, scale, ref, width)
    for d_def in d_defs:
        d_table[d_def[0]] = list(d_def[2])
    return b_table, d_table


def same_values(got, expected):
    if len(got) != len(expected):
        return False
    for g, e in zip(got, expected):
        if e is None or isinstance(e, (bytes, int)):
            if g != e or type(g) is not type(e):
                return False
        elif not (isinstance(g, float) and math.isclose(g, e, rel_tol=1e-12, abs_tol=0.0)):
            return False
    return True
# ---------------------------------------------------------------------------


from pybufrkit.errors import PyBufrKitError
from pybufrkit.decoder import Decoder, generate_bufr_message
from pybufrkit.descriptors import (ElementDescriptor, SequenceDescriptor, FixedReplicationDescriptor,
                                   DelayedReplicationDescriptor, BufrTemplate, flat_member_ids)
from pybufrkit.tables import TableGroupCacheManager, _fix_ncep_descriptors


def raises(exc_type, fn, *args):
    try:
        fn(*args)
    except exc_type:
        return True
    except BaseException as e:
        print('expected', exc_type, 'got', repr(e))
        return False
    return False


def shape(descriptor):
    """Nested (id, factor id, [members]) structure of a descriptor."""
    if isinstance(descriptor, DelayedReplicationDescriptor):
        return descriptor.id, descriptor.factor.id, [shape(m) for m in descriptor.members]
    if isinstance(descriptor, (FixedReplicationDescriptor, SequenceDescriptor)):
        return descriptor.id, None, [shape(m) for m in descriptor.members]
    return descriptor.id


def walk(descriptors):
    for descriptor in descriptors:
        yield descriptor
        for d in walk(getattr(descriptor, 'members', None) or []):
            yield d


# --- 0. without in-stream definitions templates are built from the table objects themselves ---------
assert not TableGroupCacheManager.has_extra_entries()
group = TableGroupCacheManager.get_table_group()
template = group.template_from_ids(301011, 1001)
assert template.members[0] is group.lookup(301011) and template.members[1] is group.lookup(1001)

# --- 1. register the definitions (through a stream, as the property has it) --------------------------
B = [('048001', 'HEIGHT', 'M', 2, -500, 14), ('050002', 'STATION', 'CCITT IA5', 0, 0, 48),
     ('063003', 'QUALITY', 'CODE TABLE', 0, 0, 5), ('055004', 'PRESSURE', 'PA', -2, 7, 9),
     ('048005', 'ONE BIT', 'NUMERIC', 0, 0, 1)]
D = [('360001', 'DRP16BIT', ['101000', '031002']),
     ('360002', 'DRP8BIT', ['101000', '031001']),
     ('360004', 'DRP1BIT', ['101000', '031000']),
     ('360005', 'FIXED TWICE', ['101002']),
     ('360006', 'TWO ITEMS, NONE GIVEN', ['102003']),
     ('360007', 'TWO ITEMS, ONE GIVEN', ['102000', '031001', '048005']),
     ('361001', 'SEQ A', ['048001', '102002', '050002', '063003', '001001']),
     ('361002', 'SEQ B', ['361001', '360002', '361003', '012001']),
     ('361003', 'SEQ C', ['055004', '360004', '048005', '360005', '063003']),
     ('361004', 'SEQ D', ['360001', '361002', '048001']),
     ('361005', 'ENDS WITH A REPLICATION ONLY SEQUENCE', ['048001', '360002']),
     ('361006', 'REPLICATION OF A REPLICATION ONLY SEQUENCE', ['360002', '360004', '048005']),
     ('361007', 'PLAIN', ['048001', '055004'])]
b_table, d_table = tables_of(B, D)
decoder = Decoder()
assert len(list(generate_bufr_message(decoder, make_definition_message(B, D)))) == 1
assert TableGroupCacheManager.has_extra_entries()
group = TableGroupCacheManager.get_table_group()

# --- 2. the repair itself ----------------------------------------------------------------------------
# plain descriptors: copies in the same order, the list handed in is used up
elements = group.descriptors_from_ids(48001, 1001, 50002)
originals = list(elements)
fixed = _fix_ncep_descriptors(elements)
assert elements == [] and [d.id for d in fixed] == [48001, 1001, 50002]
assert all(type(f) is ElementDescriptor and f is not o for f, o in zip(fixed, originals))
assert [(f.name, f.unit, f.scale, f.refval, f.nbits) for f in fixed] == \
       [(o.name, o.unit, o.scale, o.refval, o.nbits) for o in originals]
assert _fix_ncep_descriptors([]) == []

# a replication-only sequence takes the descriptor after it, whatever that is
fixed = _fix_ncep_descriptors(group.descriptors_from_ids(360002, 48001, 1001))
assert [shape(d) for d in fixed] == [(101000, 31001, [48001]), 1001]
fixed = _fix_ncep_descriptors(group.descriptors_from_ids(360001, 361007, 360004, 48005, 360005, 102002, 1001, 48001))
assert [shape(d) for d in fixed] == [(101000, 31002, [(361007, None, [48001, 55004])]),
                                     (101000, 31000, [48005]),
                                     (101002, None, [(102002, None, [1001, 48001])])]
# ... also inside sequences and replications, at any depth
fixed = _fix_ncep_descriptors(group.descriptors_from_ids(361004, 103002, 360002, 361003, 1001))
seq_c = (361003, None, [55004, (101000, 31000, [48005]), (101002, None, [63003])])
seq_a = (361001, None, [48001, (102002, None, [50002, 63003]), 1001])
seq_b = (361002, None, [seq_a, (101000, 31001, [seq_c]), 12001])
assert [shape(d) for d in fixed] == [(361004, None, [(101000, 31002, [seq_b]), 48001]),
                                     (103002, None, [(101000, 31001, [seq_c]), 1001])]
# a replication that has some members already is left alone
fixed = _fix_ncep_descriptors(group.descriptors_from_ids(360007, 48001))
assert [shape(d) for d in fixed] == [(360007, None, [(102000, 31001, [48005])]), 48001]

# the table's own descriptors are never touched, every template gets copies
before = [shape(group.lookup(int(d[0]))) for d in D]
template_1 = group.template_from_ids(361004, 360002, 48001)
template_2 = group.template_from_ids(361004, 360002, 48001)
assert type(template_1) is BufrTemplate and shape(template_1) == shape(template_2)
assert [shape(group.lookup(int(d[0]))) for d in D] == before
assert shape(group.lookup(360002)) == (360002, None, [(101000, 31001, [])])
table_objects = set(id(o) for o in walk(group.lookup(int(d[0])) for d in D))
table_objects.update(id(group.lookup(int(b[0]))) for b in B)
assert not table_objects & set(id(o) for o in walk(template_1.members))
assert not set(id(o) for o in walk(template_1.members)) & set(id(o) for o in walk(template_2.members))
assert flat_member_ids(template_1) == [101000, 31002, 48001, 102002, 50002, 63003, 1001,
                                       101000, 31001, 55004, 101000, 31000, 48005, 101002, 63003, 12001,
                                       48001, 101000, 31001, 48001]

# --- 3. what cannot be repaired ----------------------------------------------------------------------
# nothing follows the replication-only sequence in its own scope
assert raises(IndexError, _fix_ncep_descriptors, group.descriptors_from_ids(360002))
assert raises(IndexError, _fix_ncep_descriptors, group.descriptors_from_ids(48001, 361005, 48001))
assert raises(IndexError, group.template_from_ids, 361006, 48001)
# a replication of two items without members
assert raises(AssertionError, _fix_ncep_descriptors, group.descriptors_from_ids(360006, 48001, 48001))
assert raises(AssertionError, group.template_from_ids, 48001, 360006)
# the first problem met decides
assert raises(AssertionError, _fix_ncep_descriptors, group.descriptors_from_ids(360006, 360002))
assert raises(IndexError, _fix_ncep_descriptors, group.descriptors_from_ids(361005, 360006, 48001))
# not a list; things that are not descriptors are passed through
assert raises(TypeError, _fix_ncep_descriptors, None)
assert [type(x) for x in _fix_ncep_descriptors([1, 'a', None])] == [int, str, type(None)]

# --- 4. end to end: streams over these sequences -----------------------------------------------------
rng = random.Random(2004)
cases = [['361004', '001001'], ['360002', '361003', '360005', '048001'], ['361002'],
         ['103000', '031001', '360004', '361007', '050002'], ['360001', '361007', '012001'],
         ['361007', '360005', '361001']]
stream, expectations = b'', []
for round_ in range(3):
    for ids in cases:
        message, expected = make_data_message(ids, b_table, d_table, rng)
        stream += message
        expectations.append([expected])
    message, expected = make_compressed_data_message(['361007', '360005', '361001', '012001'], b_table, d_table, rng)
    stream += message
    expectations.append(expected)
messages = list(generate_bufr_message(decoder, stream))
assert len(messages) == len(expectations) == 21
for message, expected in zip(messages, expectations):
    got = message.template_data.value.decoded_values_all_subsets
    assert len(got) == len(expected)
    for g, e in zip(got, expected):
        assert same_values(g, e), (message.unexpanded_descriptors.value, g, e)
# a data message over a sequence that cannot be repaired
broken, _ = make_data_message(['361007'], b_table, d_table, rng)
broken = broken.replace(bytes([0xC0 | 61, 7]), bytes([0xC0 | 60, 6]))
assert raises(AssertionError, list, generate_bufr_message(decoder, broken))

# --- 5. the real NCEP file ------------------------------------------------------------------------------
with open(os.path.join('tests', 'data', 'prepbufr.bufr'), 'rb') as ins:
    messages = list(generate_bufr_message(Decoder(), ins.read()))
last = messages[-1].template_data.value.decoded_values_all_subsets[0]
assert last[-10:] == [294.6, 0.0083, 0, 0, 0, 0, 3, 0, 0, 0], last[-10:]

print('demo 4 OK')
