import os, sys; sys.path.insert(0, os.getcwd())
import logging
logging.disable(logging.CRITICAL)


# ---------------------------------------------------------------------------
# Hand-made BUFR (edition 3, NCEP layout) - nothing of pybufrkit is used here
# ---------------------------------------------------------------------------
class Bits(object):
    def __init__(self):
        self.bits = []

    def uint(self, value, width):
        assert 0 <= value < (1 << width), (value, width)
        self.bits.append(format(value, '0{}b'.format(width)) if width else '')
        return self

    def text(self, s, nchars):
        s = s.ljust(nchars)
        assert len(s) == nchars, (s, nchars)
        for ch in s:
            self.uint(ord(ch), 8)
        return self

    def tobytes(self):
        s = ''.join(self.bits)
        s += '0' * (-len(s) % 8)
        return bytes(int(s[i:i + 8], 2) for i in range(0, len(s), 8))


def message(data_category, descriptors, payload, n_subsets=1, local_version=0, master_version=13):
    sec1 = (Bits().uint(18, 24).uint(0, 8).uint(3, 8).uint(7, 8).uint(0, 8).uint(0, 8)
            .uint(data_category, 8).uint(1, 8).uint(master_version, 8).uint(local_version, 8)
            .uint(0, 8).uint(0, 8).uint(0, 8).uint(0, 8).uint(0, 8).uint(0, 8)).tobytes()
    body = Bits().uint(0, 8).uint(n_subsets, 16).uint(0b10000000, 8)
    for d in descriptors:
        body.uint(d // 100000, 2).uint(d // 1000 % 100, 6).uint(d % 1000, 8)
    body = body.tobytes()
    body += b'\x00' * ((len(body) + 3) % 2)
    sec3 = Bits().uint(len(body) + 3, 24).tobytes() + body
    data = b'\x00' + payload
    data += b'\x00' * ((len(data) + 3) % 2)
    sec4 = Bits().uint(len(data) + 3, 24).tobytes() + data
    total = 8 + len(sec1) + len(sec3) + len(sec4) + 4
    return b'BUFR' + Bits().uint(total, 24).uint(3, 8).tobytes() + sec1 + sec3 + sec4 + b'7777'


DEFINITION_TEMPLATE = [103000, 31001, 1, 2, 3, 101000, 31001, 300004,
                       105000, 31001, 300003, 205064, 101000, 31001, 30]


def definition_message(elements, sequences):
    """
    elements: [(id, name, unit, scale, refval, width)], sequences: [(id, name, [member ids])]
    """
    p = Bits().uint(1, 8).text('250', 3).text('DEMO A ENTRY', 32).text('', 32)
    p.uint(len(elements), 8)
    for id_, name, unit, scale, refval, width in elements:
        fxy = '{:06d}'.format(id_)
        p.text(fxy[0], 1).text(fxy[1:3], 2).text(fxy[3:], 3)
        p.text(name[:32], 32).text(name[32:], 32).text(unit, 24)
        p.text('-' if scale < 0 else '+', 1).text(str(abs(scale)), 3)
        p.text('-' if refval < 0 else '+', 1).text(str(abs(refval)), 10)
        p.text(str(width), 3)
    p.uint(len(sequences), 8)
    for id_, name, members in sequences:
        fxy = '{:06d}'.format(id_)
        p.text(fxy[0], 1).text(fxy[1:3], 2).text(fxy[3:], 3).text(name, 64)
        p.uint(len(members), 8)
        for member in members:
            p.text('{:06d}'.format(member), 6)
    return message(11, DEFINITION_TEMPLATE, p.tobytes(), local_version=1)


# ---------------------------------------------------------------------------
# Independent reading of a template: elements / sequences are plain dicts kept
# by the demo; replication-only sequences (NCEP) replicate what follows them.
# ---------------------------------------------------------------------------
STANDARD = {1001: (7, 0, 0, 'Numeric'), 1002: (10, 0, 0, 'Numeric'), 31001: (8, 0, 0, 'Numeric'),
            31000: (1, 0, 0, 'Numeric'), 31002: (16, 0, 0, 'Numeric'), 12001: (12, 1, 0, 'K')}


class Reference(object):
    def __init__(self):
        self.elements = dict(STANDARD)
        self.sequences = {}
        self.defined_elements = {}
        self.sequence_names = {}
        self.seed = 0

    def define(self, elements, sequences):
        for id_, name, unit, scale, refval, width in elements:
            self.elements[id_] = (width, scale, refval, unit)
            self.defined_elements[id_] = (width, scale, refval, unit.strip(), name[:32].rstrip() + name[32:].rstrip())
        for id_, name, members in sequences:
            self.sequences[id_] = list(members)
            self.sequence_names[id_] = name

    def subset(self, ids, counts):
        """
        -> payload bits, expected (id, value) pairs
        """
        self.bits, self.expected, self.counts = Bits(), [], list(counts)
        self.walk(ids)
        assert not self.counts
        return self.bits, self.expected

    def walk(self, ids):
        ids = list(ids)
        while ids:
            id_ = ids.pop(0)
            if id_ >= 300000:
                members = self.sequences[id_]
                if 100000 <= members[0] < 200000 and len(members) == (2 if members[0] % 1000 == 0 else 1):
                    ids = members + ids  # replication only: it replicates what follows the sequence
                else:
                    self.walk(members)
            elif id_ >= 100000:
                n_items, n_repeats = id_ // 1000 % 100, id_ % 1000
                if n_repeats == 0:
                    n_repeats = self.counts.pop(0)
                    self.leaf(ids.pop(0), n_repeats)
                group, ids = ids[:n_items], ids[n_items:]
                for _ in range(n_repeats):
                    self.walk(group)
            else:
                self.leaf(id_)

    def leaf(self, id_, raw=None):
        width, scale, refval, unit = self.elements[id_]
        if unit.strip() == 'CCITT IA5':
            self.seed += 1
            s = ''.join(chr(65 + (self.seed * 7 + i) % 26) for i in range(width // 8))
            self.bits.text(s, width // 8)
            self.expected.append((id_, s.encode()))
            return
        if raw is None:
            self.seed += 1
            raw = (self.seed * 2654435761) % ((1 << width) - 1)
        self.bits.uint(raw, width)
        value = raw + refval
        if scale != 0:
            value = value / 10 ** scale
        self.expected.append((id_, value))


def decoded_pairs(bufr_message):
    td = bufr_message.template_data.value
    return [list(zip([d.id for d in ds], vs))
            for ds, vs in zip(td.decoded_descriptors_all_subsets, td.decoded_values_all_subsets)]


def check(label, got, expected):
    if got != expected:
        print('FAIL', label, '\n  got     ', got, '\n  expected', expected)
        sys.exit(1)
    print('ok  ', label)


def end_to_end(decoder_kwargs):
    from pybufrkit.decoder import Decoder, generate_bufr_message
    ref = Reference()
    stream, expectations = b'', []

    def add_definitions(elements, sequences):
        nonlocal stream
        ref.define(elements, sequences)
        stream += b'junk' + definition_message(elements, sequences)
        expectations.append(None)

    def add_data(ids, counts_per_subset, master_version=13):
        nonlocal stream
        payload, expected = Bits(), []
        for counts in counts_per_subset:
            bits, pairs = ref.subset(ids, counts)
            payload.bits.extend(bits.bits)
            expected.append(pairs)
        stream += message(250, ids, payload.tobytes(), n_subsets=len(counts_per_subset),
                          master_version=master_version)
        expectations.append(expected)

    # before any definition: standard descriptors only
    add_data([1001, 102002, 1002, 12001], [[]])
    add_definitions(
        [(48001, 'ALPHA', 'NUMERIC', 1, -100, 12),
         (48002, 'BETA' + ' ' * 28 + 'SECOND LINE', 'M', 0, 0, 7),
         (48003, 'GAMMA', 'PA', -1, 5, 10),
         (63001, 'TEXT', 'CCITT IA5', 0, 0, 24),
         (63255, 'PAD', 'NONE', 0, 0, 1)],
        [(348001, 'SEQ WITH FIXED REPLICATION', [48001, 102002, 48002, 48003]),
         (348002, 'REPLICATION ONLY', [101000, 31001]),
         (348003, 'OUTER', [348001, 348002, 63001, 101000, 31001, 48002, 1001]),
         (363004, 'NESTED REPLICATION', [103000, 31001, 48003, 101002, 48001, 12001])]
    )
    add_data([348003, 1002], [[2, 1], [0, 3]])
    add_data([363004, 348002, 63255, 48002], [[2, 3]])
    # another table group (master table version 33) gets the definitions as well
    add_data([348003, 1002], [[1, 1]], master_version=33)
    add_data([1001, 102002, 1002, 12001], [[]])
    # a later definition message overrides 048002 and 348001, adds 049007 / 350001
    add_definitions(
        [(48002, 'BETA WIDER', 'M', 2, -3, 9),
         (49007, 'DELTA', 'NUMERIC', 0, 1000000, 20)],
        [(348001, 'SEQ REDEFINED', [49007, 48002]),
         (350001, 'NEW', [101000, 31000, 348001])]
    )
    add_data([348003, 1002], [[1, 2]])
    add_data([350001, 48001, 350001], [[1, 0], [0, 1]])
    add_data([350001, 348002, 48002, 12001], [[1, 2]], master_version=33)

    decoder = Decoder(**decoder_kwargs)
    messages = list(generate_bufr_message(decoder, stream))
    check('number of messages', len(messages), len(expectations))
    for i, (bufr_message, expected) in enumerate(zip(messages, expectations)):
        if expected is None:
            check('message {} is a definition message'.format(i), bufr_message.data_category.value, 11)
        else:
            check('message {} values'.format(i), decoded_pairs(bufr_message), expected)
    return ref



# ---------------------------------------------------------------------------
# Tables read independently from the JSON files
# ---------------------------------------------------------------------------
import json


def files_of(version):
    tables_dir = os.path.join(os.getcwd(), 'pybufrkit', 'tables', '0', '0_0', str(version))
    with open(os.path.join(tables_dir, 'TableB.json')) as ins:
        b = dict((int(k), v) for k, v in json.load(ins).items())
    with open(os.path.join(tables_dir, 'TableD.json')) as ins:
        d = dict((int(k), v) for k, v in json.load(ins).items())
    return b, d


def expect_error(label, function, exception_class):
    try:
        function()
    except Exception as e:
        check(label, type(e), exception_class)
    else:
        check(label, 'no error', exception_class)


def lookup_checks(group, version, extra_b, extra_d):
    """
    Every way of naming an ID, on every table, for IDs with and without definition
    """
    from pybufrkit import descriptors as ds
    file_b, file_d = files_of(version)
    label = 'v{} '.format(version)

    # Table B: all defined IDs, as int and as string; extra entries win over the files
    known_b = dict(file_b)
    known_b.update(extra_b)
    for id_, fields in known_b.items():
        for key in (id_, '{:06d}'.format(id_)):
            d = group.B.lookup(key)
            got = (type(d), d.id, d.name, d.unit, d.scale, d.refval, d.nbits)
            if got != (ds.ElementDescriptor, id_) + tuple(fields[:5]):
                check(label + 'B.lookup({!r})'.format(key), got, fields)
        if group.B.lookup(id_) is not group.B.lookup(str(id_)) or group.lookup(id_) is not group.B.lookup(id_):
            check(label + 'B identity {}'.format(id_), False, True)
    check(label + 'B number of descriptors', len(group.B.descriptors), len(known_b))
    for id_ in (63254, 99999, -1, 0, 300000, '063254', True, 63254.7):
        if int(id_) in known_b:
            continue
        d = group.B.lookup(id_)
        check(label + 'B.lookup({!r}) undefined'.format(id_), (type(d), d.id, type(d.id)),
              (ds.UndefinedElementDescriptor, int(id_), bool if id_ is True else int))
    check(label + 'undefined B is not kept', 63254 in group.B.descriptors, False)
    check(label + 'undefined B is fresh', group.B.lookup(63254) is group.B.lookup(63254), False)

    # Table D
    known_d = dict(file_d)
    known_d.update(extra_d)
    for id_, (name, members) in known_d.items():
        for key in (id_, str(id_)):
            d = group.D.lookup(key)
            got = (type(d), d.id, d.name, d is group.D.descriptors[id_], d is group.lookup(key))
            if got != (ds.SequenceDescriptor, id_, name, True, True):
                check(label + 'D.lookup({!r})'.format(key), got, name)
        # top level member IDs: replication takes its factor and members out of the top level
        flat = []
        todo = list(group.D.lookup(id_).members)
        while todo:
            m = todo.pop(0)
            flat.append(m.id)
            if isinstance(m, ds.ReplicationDescriptor):
                todo = ([m.factor] if isinstance(m, ds.DelayedReplicationDescriptor) else []) + m.members + todo
        if flat != [int(m) for m in members]:
            check(label + 'D members of {}'.format(id_), flat, members)
    check(label + 'D number of descriptors', len(group.D.descriptors), len(known_d))
    for id_ in (399999, '399999', 300000, 1001, 399999.2):
        d = group.D.lookup(id_)
        check(label + 'D.lookup({!r}) undefined'.format(id_), (type(d), d.id), (ds.UndefinedSequenceDescriptor, int(id_)))
    check(label + 'undefined D is not kept', 399999 in group.D.descriptors, False)

    # Table C: one descriptor per ID; R: a new one each time
    for id_ in (201129, '201129', 222000, 206008.0):
        d = group.C.lookup(id_)
        check(label + 'C.lookup({!r})'.format(id_), (type(d), d.id, d is group.C.lookup(int(id_)), d is group.lookup(id_)),
              (ds.OperatorDescriptor, int(id_), True, True))
    for id_ in (101000, '101000', 112000, 100000, 101001, '103002', 199999, 105000.0):
        d = group.R.lookup(id_)
        delayed = int(id_) % 1000 == 0
        check(label + 'R.lookup({!r})'.format(id_),
              (type(d), d.id, d.members, d is group.R.lookup(id_)),
              (ds.DelayedReplicationDescriptor if delayed else ds.FixedReplicationDescriptor, int(id_), None, False))

    # what int() does not take, on every table and on the group
    for table in (group.B, group.C, group.R, group.D, group):
        expect_error(label + type(table).__name__ + '.lookup("1x")', lambda: table.lookup('1x'), ValueError)
        expect_error(label + type(table).__name__ + '.lookup(None)', lambda: table.lookup(None), TypeError)
        expect_error(label + type(table).__name__ + '.lookup([1])', lambda: table.lookup([1]), TypeError)
    expect_error(label + 'descriptors_from_ids("1x")', lambda: group.descriptors_from_ids(1001, '1x'), ValueError)
    expect_error(label + 'descriptors_from_ids(None)', lambda: group.descriptors_from_ids(102001, None), TypeError)
    check(label + 'descriptors_from_ids of strings',
          [(type(d).__name__, d.id) for d in group.descriptors_from_ids('001001', 201129.0, '301001', True)],
          [('ElementDescriptor', 1001), ('OperatorDescriptor', 201129), ('SequenceDescriptor', 301001),
           ('ElementDescriptor', 1)])
    check(label + 'type letters', ''.join(t.type for t in group), 'ABCDR')
    check(label + 'table classes', [type(t).__name__ for t in group], ['TableA', 'TableB', 'TableC', 'TableD', 'TableR'])
    check(label + 'TableA has no lookup', hasattr(group.A, 'lookup'), False)
    print('ok  ', label + 'lookups', len(known_b), 'B entries', len(known_d), 'D entries')


def cache_checks():
    """
    TableGroupCache on its own instance: hit, miss, room made at the maximum number of
    groups (last in, first out - what dict.popitem does), invalidation, extra entries.
    """
    from pybufrkit import tables
    root = os.path.join(os.getcwd(), 'pybufrkit', 'tables')

    def key(version, local=None):
        return tables.TableGroupKey(root, ('0', '0_0', str(version)), local)

    cache = tables.TableGroupCache()
    check('no extra entries at first', bool(cache.has_extra_entries()), False)
    model = []  # keys expected to be cached, in the order of arrival

    def get(k, maximum):
        tables.MAXIMUM_NUMBER_OF_CACHED_TABLE_GROUPS = maximum
        cached_before = dict(cache._groups)
        group = cache.get(k)
        if k not in model:
            n_drop = len(model) + 1 - maximum
            if n_drop > 0:
                del model[-n_drop:]
            model.append(k)
            fresh = True
        else:
            fresh = False
        check('cached keys after get({}, maximum={})'.format(k.wmo_tables_sn[2], maximum), list(cache._groups), model)
        check('  fresh group' if fresh else '  cached group', group is cached_before.get(k), not fresh)
        check('  group is the cached one', group is cache._groups[k] and group is cache.get(k), True)
        check('  key', (group.key, group.A.table_group_key, group.D.table_group_key), (k, k, k))
        # survivors are the same objects as before
        check('  survivors', all(cache._groups[x] is cached_before[x] for x in model if x != k or not fresh), True)
        return group

    original_maximum = tables.MAXIMUM_NUMBER_OF_CACHED_TABLE_GROUPS
    check('default maximum', original_maximum, 50)
    try:
        for version in (13, 14, 13, 15):
            get(key(version), 3)
        get(key(16), 3)            # full: 15 goes
        get(key(14), 3)            # hit when full: nothing goes
        get(key(17), 3)            # 16 goes
        get(key(18, ('0', '98_0', '1')), 4)   # with local tables
        get(key(19), 2)            # above the maximum: 4 + 1 - 2 go
        get(key(20), 1)            # 2 + 1 - 1 go
        get(key(20), 1)
        get(key(21), 5)
        expect_error('unhashable key', lambda: cache.get([1]), TypeError)
        # room is made before the tables are read: a failing load at the maximum still drops one group
        tables.MAXIMUM_NUMBER_OF_CACHED_TABLE_GROUPS = 2
        check('two groups cached', len(model), 2)
        expect_error('missing tables', lambda: cache.get(key(999)), FileNotFoundError)
        del model[-1:]
        check('nothing cached for the failure', list(cache._groups), model)
    finally:
        tables.MAXIMUM_NUMBER_OF_CACHED_TABLE_GROUPS = original_maximum

    # extra entries reach every group loaded after the registration, of whatever key
    b_entries = {'048001': ['ALPHA', 'NUMERIC', 1, -100, 12, '', 0, 0],
                 '001001': ['BLOCK REDEFINED', 'NUMERIC', 0, -5, 9, '', 0, 0]}
    d_entries = {'348001': ['SEQ', ['048001', '102002', '001001', '001002']],
                 '348002': ['REPLICATION ONLY', ['101000', '031001']],
                 '301001': ['REDEFINED', ['348002', '001002']]}
    before = cache.get(key(13))
    cache.add_extra_entries(b_entries, d_entries)
    check('extra entries registered', (cache.extra_b_entries, cache.extra_d_entries), (b_entries, d_entries))
    check('has_extra_entries', bool(cache.has_extra_entries()), True)
    check('cached group is untouched until invalidation',
          (cache.get(key(13)) is before, type(before.B.lookup(48001)).__name__), (True, 'UndefinedElementDescriptor'))
    cache.invalidate()
    del model[:]
    check('invalidate', cache._groups, {})
    int_b = dict((int(k), v) for k, v in b_entries.items())
    int_d = dict((int(k), v) for k, v in d_entries.items())
    for version in (13, 33):
        group = get(key(version), 50)
        check('a new group after invalidation', group is before, False)
        lookup_checks(group, version, int_b, int_d)
    # a second registration adds to / overrides the first
    cache.add_extra_entries({'048001': ['ALPHA WIDER', 'M', 0, 0, 20, '', 0, 0]}, {'349001': ['MORE', ['348001']]})
    int_b[48001] = ['ALPHA WIDER', 'M', 0, 0, 20, '', 0, 0]
    int_d[349001] = ['MORE', ['348001']]
    cache.invalidate()
    del model[:]
    lookup_checks(get(key(13), 50), 13, int_b, int_d)
    check('the manager has its own cache', tables.TableGroupCacheManager._TABLE_GROUP_CACHE is cache, False)


def manager_checks(ref):
    """
    The process wide cache after the stream has been read
    """
    from pybufrkit import tables
    check('manager: has_extra_entries', bool(tables.TableGroupCacheManager.has_extra_entries()), True)
    extra_b = dict((id_, [name, unit, scale, refval, width])
                   for id_, (width, scale, refval, unit, name) in ref.defined_elements.items())
    extra_d = dict((id_, [ref.sequence_names[id_], members]) for id_, members in ref.sequences.items())
    for version in (13, 33, 25):
        group = tables.TableGroupCacheManager.get_table_group(master_table_version=version)
        check('manager: same group on the second request',
              group is tables.TableGroupCacheManager.get_table_group(master_table_version=version), True)
        lookup_checks(group, version, extra_b, extra_d)
    group = tables.TableGroupCacheManager.get_table_group(master_table_version=13)
    tables.TableGroupCacheManager.invalidate()
    check('manager: invalidate', tables.TableGroupCacheManager.get_table_group(master_table_version=13) is group, False)


if __name__ == '__main__':
    from pybufrkit import tables
    check('manager: no extra entries at first', bool(tables.TableGroupCacheManager.has_extra_entries()), False)
    lookup_checks(tables.TableGroupCacheManager.get_table_group(master_table_version=13), 13, {}, {})
    cache_checks()
    ref = end_to_end({})
    manager_checks(ref)
    end_to_end({'compiled_template_cache_max': 10})
    print('all fine')
