import os, sys; sys.path.insert(0, os.getcwd())
"""
Differential demonstration for refactor 6 (Encoder.process_section: the padding of a
section computed as the distance to the next multiple of 8 or 16 bits; the start
position, the section_length parameter and the message length parameter bound once).

The expected bytes come from the small independent FM-94 writer below, which pads the
way the regulations word it (whole octets; an even number of octets up to edition 3),
without the arithmetic of either version of the encoder.
"""
import json

from pybufrkit.decoder import Decoder
from pybufrkit.encoder import Encoder
from pybufrkit.errors import PyBufrKitError


# --------------------------------------------------------------------------- independent writer
def ubits(value, nbits):
    assert 0 <= value < (1 << nbits), (value, nbits)
    return format(value, '0{}b'.format(nbits)) if nbits else ''


def octets(bits, edition, declared=None):
    """Close a section: zero bits up to a whole octet, then (edition <= 3) a zero octet
    when the count is odd; a section declared longer is filled with zero octets."""
    while len(bits) % 8:
        bits += '0'
    raw = bytearray(int(bits[i:i + 8], 2) for i in range(0, len(bits), 8))
    if edition <= 3 and len(raw) % 2 == 1:
        raw.append(0)
    if declared is not None:
        assert declared >= len(raw)
        raw.extend([0] * (declared - len(raw)))
    return bytes(raw)


def with_length(body_bits, edition, declared=None):
    """Sections 1 to 4: three octets of length in front of the body."""
    n = len(octets('0' * 24 + body_bits, edition, declared))
    return octets(ubits(n, 24) + body_bits, edition, declared)


def section1_values(edition, with_section2):
    if edition == 4:
        return [0, 0, 1, 0, 0, with_section2, '0000000', 2, 4, 0, 18, 0, 2016, 2, 18, 23, 0, 0]
    if edition == 3:
        return [0, 0, 0, 1, 0, with_section2, '0000000', 2, 0, 18, 0, 16, 2, 18, 23, 0, 0]
    return [0, 0, 1, 0, with_section2, '0000000', 2, 0, 18, 0, 16, 2, 18, 23, 0, 0]  # edition 2


def section1_bits(edition, with_section2):
    values = section1_values(edition, with_section2)[1:]
    widths = {4: [8, 16, 16, 8, 1, 7, 8, 8, 8, 8, 8, 16, 8, 8, 8, 8, 8],
              3: [8, 8, 8, 8, 1, 7, 8, 8, 8, 8, 8, 8, 8, 8, 8, 8],
              2: [8, 16, 8, 1, 7, 8, 8, 8, 8, 8, 8, 8, 8, 8, 8]}[edition]
    assert len(values) == len(widths)
    return ''.join(v if isinstance(v, str) else ubits(int(v), w) for v, w in zip(values, widths))


def build(edition, local_bits, width, values, declared4=None):
    """
    One numeric element of `width` bits per subset (001001 under 2 01 YYY), an optional
    section 2 of len(local_bits) bits. Returns the JSON for the encoder, the expected
    bytes and the expected (start bit, bits) of every section.
    """
    template = [201000 + 128 + width - 7, 1001, 201000]
    with_section2 = local_bits is not None
    sections = [with_length(section1_bits(edition, with_section2), edition)]
    if with_section2:
        sections.append(with_length('0' * 8 + local_bits, edition))
    sections.append(with_length(
        '0' * 8 + ubits(len(values), 16) + '10' + '000000' +
        ''.join(ubits(d // 100000, 2) + ubits(d // 1000 % 100, 6) + ubits(d % 1000, 8) for d in template),
        edition))
    sections.append(with_length(
        '0' * 8 + ''.join(ubits((1 << width) - 1 if v is None else v, width) for v in values),
        edition, declared4))
    sections.append(b'7777')
    total = 8 + sum(len(s) for s in sections)
    sections.insert(0, b'BUFR' + octets(ubits(total, 24) + ubits(edition, 8), 4))

    layout, pos = [], 0
    for s in sections:
        layout.append((pos, len(s) * 8))
        pos += len(s) * 8

    message = [['BUFR', 0, edition], section1_values(edition, with_section2)]
    if with_section2:
        message.append([0, '00000000', local_bits])
    message.append([0, '00000000', len(values), True, False, '000000', template])
    message.append([0, '00000000', [[v] for v in values]])
    message.append(['7777'])
    return message, b''.join(sections), layout


class RecordingEncoder(Encoder):
    """Keeps what process_section returns (the number of bits written for the section)."""

    def process(self, *args, **kwargs):
        self.returned = []
        return super(RecordingEncoder, self).process(*args, **kwargs)

    def process_section(self, bufr_message, bit_writer, section):
        nbits = super(RecordingEncoder, self).process_section(bufr_message, bit_writer, section)
        self.returned.append(nbits)
        return nbits


def check(label, ok):
    if not ok:
        print('FAIL ' + label)
        check.failed += 1
    check.count += 1


check.failed = check.count = 0


def declared_lengths(message, expected_layout):
    """Fill in the declared lengths of the JSON message from the expected layout."""
    message = json.loads(json.dumps(message))
    message[0][1] = sum(nbits for _, nbits in expected_layout) // 8
    for section, (_, nbits) in list(zip(message, expected_layout))[1:-1]:
        section[0] = nbits // 8
    return message


def encode_and_compare(label, encoder, message, expected, layout):
    bufr_message = encoder.process(json.dumps(message))
    check(label + ': bytes', bufr_message.serialized_bytes == expected)
    check(label + ': process_section returns the bits of each section',
          encoder.returned == [nbits for _, nbits in layout])
    check(label + ': start position of each section kept as metadata',
          [s.get_metadata('bitpos_start') for s in bufr_message.sections] == [pos for pos, _ in layout])
    check(label + ': section_length parameters hold the octet counts',
          [s.section_length.value for s in bufr_message.sections[1:-1]] == [n // 8 for _, n in layout[1:-1]])
    check(label + ': length parameter holds the total', bufr_message.length.value == len(expected))
    return bufr_message


# --------------------------------------------------------------------------- 1. the padding, swept
recalculating = RecordingEncoder(ignore_declared_length=True)
trusting = RecordingEncoder(ignore_declared_length=False)
decoder = Decoder()

for edition in (2, 3, 4):
    # every residue (0..7) on an odd and on an even number of octets, in section 2 and in section 4
    for nbits_local in [None] + list(range(0, 34)):
        width = 1 + (0 if nbits_local is None else nbits_local) % 33
        local_bits = None if nbits_local is None else ('10' * 20)[:nbits_local]
        values = [(1 << width) - 2, None, 0][: 1 + (width % 3)]
        message, expected, layout = build(edition, local_bits, width, values)
        label = 'edition {} section2 {} bits, element {} bits x {}'.format(edition, nbits_local, width, len(values))
        encode_and_compare(label + ' / lengths recalculated', recalculating, message, expected, layout)
        # declared zero: calculated although declared lengths are to be trusted
        encode_and_compare(label + ' / lengths declared 0', trusting, message, expected, layout)
        # declared exactly
        encode_and_compare(label + ' / lengths declared exactly', trusting,
                           declared_lengths(message, layout), expected, layout)
        # declared wrongly, but to be ignored
        wrong = declared_lengths(message, layout)
        wrong[0][1] += 3
        wrong[-2][0] -= 1
        wrong[1][0] += 2
        encode_and_compare(label + ' / wrong lengths ignored', recalculating, wrong, expected, layout)
        # and the result reads back
        decoded = decoder.process(expected)
        # (a field of one bit has no missing value: its all-ones pattern reads back as 1)
        check(label + ': reads back',
              [v[0] for v in decoded.template_data.value.decoded_values_all_subsets] ==
              [1 if v is None and width == 1 else v for v in values])

    for width in range(1, 41):  # no section 2: sweep section 4 on its own
        values = [(1 << width) - 2] * (1 + width % 4)
        message, expected, layout = build(edition, None, width, values)
        encode_and_compare('edition {} element {} bits x {}'.format(edition, width, len(values)),
                           recalculating, message, expected, layout)


# --------------------------------------------------------------------------- 2. declared lengths that differ
def error_of(func, *args):
    try:
        func(*args)
    except PyBufrKitError as e:
        return e.message
    except Exception as e:
        return repr(e)
    return None


for edition in (3, 4):
    for width in (1, 9, 16, 24):
        values = [0, (1 << width) - 2]
        message, exact, layout = build(edition, '1', width, values)
        n4 = layout[-2][1] // 8
        for extra in (1, 2, 5):
            # section 4 declared longer: filled up with zero octets (an odd count is taken as declared)
            _, expected, longer_layout = build(edition, '1', width, values, declared4=n4 + extra)
            longer = declared_lengths(message, longer_layout)
            label = 'edition {} element {} bits, section 4 declared {} octets longer'.format(edition, width, extra)
            encode_and_compare(label, trusting, longer, expected, longer_layout)
            check(label + ': what the sections amount to', len(expected) == len(exact) + extra)

            # ... but the total declared without the extra octets
            short_total = declared_lengths(message, longer_layout)
            short_total[0][1] = len(exact)
            check(label + ', total not: refused',
                  error_of(trusting.process, json.dumps(short_total)) ==
                  'Write exceeds declared total length {} by {} bytes'.format(len(exact), extra))
            long_total = declared_lengths(message, longer_layout)
            long_total[0][1] = len(expected) + 4
            check(label + ', total beyond: refused',
                  error_of(trusting.process, json.dumps(long_total)) ==
                  'Write exceeds declared total length {} by {} bytes'.format(len(expected) + 4, -4))

        for less in (1, 2, 4):
            shorter = declared_lengths(message, layout)
            shorter[-2][0] = n4 - less
            check('edition {} element {} bits, section 4 declared {} octets shorter: refused'.format(
                edition, width, less),
                error_of(trusting.process, json.dumps(shorter)) ==
                'Writing exceeds declared section length {} by {} bytes'.format(n4 - less, less))

        # section 1 declared shorter / section 3 declared longer
        shorter = declared_lengths(message, layout)
        shorter[1][0] -= 2
        check('edition {}: section 1 declared shorter: refused'.format(edition),
              error_of(trusting.process, json.dumps(shorter)) ==
              'Writing exceeds declared section length {} by {} bytes'.format(layout[1][1] // 8 - 2, 2))

    # a null length never reaches the comparisons: the bit writer refuses it as a parameter value
    message, expected, layout = build(edition, None, 7, [5])
    null_length = declared_lengths(message, layout)
    null_length[-2][0] = None
    for encoder in (recalculating, trusting):
        check('edition {}: null section length: TypeError'.format(edition),
              (error_of(encoder.process, json.dumps(null_length)) or '').startswith('TypeError'))

print('{} checks, {} failed'.format(check.count, check.failed))
sys.exit(1 if check.failed else 0)
