import os, sys; sys.path.insert(0, os.getcwd())
"""
Differential demonstration for refactor 8 (BufrTableDefinitionProcessor).

Table definition messages are built by hand (delayed and fixed replication in every
combination, empty tables, foreign layouts) besides the one of tests/data/prepbufr.bufr;
what the processor returns is compared with entries computed by an independent reader
of the flat value list, error cases with the exception type the layout check / the value
conversion must give. Finally the definitions are used: a stream of definition message +
data message that needs them goes through generate_bufr_message.
Exits 0 on the unpatched and on the patched tree.
"""
import contextlib
import io
import itertools
import logging

import pybufrkit.dataprocessor as dataprocessor_module
from pybufrkit.dataprocessor import BufrTableDefinitionProcessor
from pybufrkit.decoder import Decoder, generate_bufr_message
from pybufrkit.encoder import Encoder
from pybufrkit.errors import PyBufrKitError
from pybufrkit.tables import TableGroupCacheManager

assert dataprocessor_module.__file__.startswith(os.getcwd()), dataprocessor_module.__file__
logging.getLogger().addHandler(logging.NullHandler())  # no warnings of the library on the terminal

N_CHECKS = [0]


def check(condition, what):
    N_CHECKS[0] += 1
    if not condition:
        print('FAILED: {}'.format(what))
        sys.exit(1)


def reset_tables():
    cache = TableGroupCacheManager._TABLE_GROUP_CACHE
    cache.extra_b_entries.clear()
    cache.extra_d_entries.clear()
    cache.invalidate()


ENCODER = Encoder()
DECODER = Decoder()


def build(category, descriptors, subsets, compressed=False, edition=3):
    if edition == 3:
        s1 = [18, 0, 0, 98, 0, False, '0000000', category, 0, 13, 0, 20, 1, 2, 3, 4, 0]
    else:
        s1 = [22, 0, 98, 0, 0, False, '0000000', category, 0, 0, 13, 0, 2020, 1, 2, 3, 4, 5]
    j = [['BUFR', 0, edition], s1, [0, '00000000', len(subsets), True, compressed, '000000', descriptors],
         [0, '00000000', subsets], ['7777']]
    return ENCODER.process(j).serialized_bytes


# ----------------------------------------------------------------------------------------
# Definitions to put into messages
# ----------------------------------------------------------------------------------------
def pad(text, n):
    assert len(text) <= n
    return text.ljust(n).encode()


def a_values(entry):
    number, line1, line2 = entry
    return [pad(number, 3), pad(line1, 32), pad(line2, 32)]


def b_values(entry):
    fxy, name1, name2, unit, scale, refval, nbits = entry
    return [pad(fxy[0], 1), pad(fxy[1:3], 2), pad(fxy[3:], 3), pad(name1, 32), pad(name2, 32), pad(unit, 24),
            b'+' if scale >= 0 else b'-', pad(str(abs(scale)), 3),
            b'+' if refval >= 0 else b'-', pad(str(abs(refval)), 10), pad(str(nbits), 3)]


def d_values(entry):
    fxy, name, members = entry
    return ([pad(fxy[0], 1), pad(fxy[1:3], 2), pad(fxy[3:], 3), pad(name, 64), len(members)] +
            [pad(member, 6) for member in members])


A_ENTRIES = [('250', 'MYTYPE   TABLE A ENTRY', ''), ('251', 'OTHER', 'SECOND LINE')]
B_ENTRIES = [
    ('063250', 'MYTEMP', '', 'KELVIN', 1, -100, 12),
    ('063251', 'MYCODE   WITH A LONG NAME THAT G', 'OES ON IN THE SECOND PART', 'CODE TABLE', 0, 0, 7),
    ('063252', 'MYNEG', '', 'M', -2, 50, 10),
]
D_ENTRIES = [
    ('363250', 'MYSEQ', ['063250', '063251']),
    ('363251', 'MYOUTER', ['001001', '363250', '063252']),
    ('363252', 'MYEMPTY', []),
]

EXPECTED_B = [
    ('063250', ['MYTEMP', 'KELVIN', 1, -100, 12, '', 0, 0]),
    ('063251', ['MYCODE   WITH A LONG NAME THAT GOES ON IN THE SECOND PART', 'CODE TABLE', 0, 0, 7, '', 0, 0]),
    ('063252', ['MYNEG', 'M', -2, 50, 10, '', 0, 0]),
]
EXPECTED_D = [
    ('363250', ['MYSEQ', ['063250', '063251']]),
    ('363251', ['MYOUTER', ['001001', '363250', '063252']]),
    ('363252', ['MYEMPTY', []]),
]

B_MEMBERS = [300004]
D_MEMBERS = [300003, 205064, 101000, 31001, 30]


def definition_message(a, b, d, a_fixed=False, b_fixed=False, d_fixed=False, category=11, **kwargs):
    """Descriptors and the flat values of a definition message of the given entries"""
    descriptors, values = [], []
    for entries, fixed, members, n_members, to_values in (
            (a, a_fixed, [1, 2, 3], 3, a_values), (b, b_fixed, B_MEMBERS, 1, b_values), (d, d_fixed, D_MEMBERS, 5, d_values)):
        if fixed:
            descriptors.append(100000 + n_members * 1000 + len(entries))
        else:
            descriptors.extend([100000 + n_members * 1000, 31001])
            values.append(len(entries))
        descriptors.extend(members)
        for entry in entries:
            values.extend(to_values(entry))
    return build(category, descriptors, [values], **kwargs), values


# ----------------------------------------------------------------------------------------
# Independent reader of the flat value list (knows which replications carry a factor)
# ----------------------------------------------------------------------------------------
def text(value):
    return value.decode() if isinstance(value, bytes) else value


def reference_entries(values, a_count=None, b_count=None, d_count=None):
    values = [text(v) for v in values]
    pos = 0
    if a_count is None:
        a_count = values[pos]
        pos += 1
    pos += 3 * a_count
    if b_count is None:
        b_count = values[pos]
        pos += 1
    b_entries = []
    for _ in range(b_count):
        f, x, y, name1, name2, unit, s_sign, scale, r_sign, refval, nbits = values[pos: pos + 11]
        pos += 11
        b_entries.append((f + x + y, [
            name1.rstrip() + name2.rstrip(), unit.strip(),
            int(scale) * (1 if s_sign == '+' else -1), int(refval) * (1 if r_sign == '+' else -1), int(nbits),
            '', 0, 0]))
    if d_count is None:
        d_count = values[pos]
        pos += 1
    d_entries = []
    for _ in range(d_count):
        f, x, y, name, n_members = values[pos: pos + 5]
        pos += 5
        d_entries.append((f + x + y, [name.rstrip(), values[pos: pos + n_members]]))
        pos += n_members
    assert pos == len(values), (pos, len(values))
    return b_entries, d_entries


def run(bufr_message):
    """(result, None) or (None, exception) of the processor"""
    try:
        return BufrTableDefinitionProcessor().process(bufr_message), None
    except Exception as e:
        return None, e


def check_result(result, expected_b, expected_d, what):
    check(type(result) is list and len(result) == 3, what + ': a list of three')
    a, b, d = result
    check(type(a) is list and a == [], what + ': no Table A entries')
    check(type(b) is dict and list(b.items()) == expected_b, what + ': Table B entries {}'.format(b))
    check(type(d) is dict and list(d.items()) == expected_d, what + ': Table D entries {}'.format(d))
    check(all(type(v) is list and type(k) is str for k, v in itertools.chain(b.items(), d.items())), what + ': types')


def check_not_supported(error, fragment, what):
    check(type(error) is PyBufrKitError, what + ': PyBufrKitError, got {!r}'.format(error))
    check(error.message == 'Not a supported BUFR table definition message: ' + fragment, what + ': ' + str(error))


# ----------------------------------------------------------------------------------------
# 1. Well-formed definition messages: every combination of fixed / delayed replication
# ----------------------------------------------------------------------------------------
def test_well_formed():
    for a_fixed, b_fixed, d_fixed in itertools.product((False, True), repeat=3):
        for a, b, d in ((A_ENTRIES, B_ENTRIES, D_ENTRIES), ([], B_ENTRIES, D_ENTRIES), (A_ENTRIES[:1], [], D_ENTRIES[:1]),
                        (A_ENTRIES, B_ENTRIES[1:], []), ([], [], [])):
            if (a_fixed and not a) or (b_fixed and not b) or (d_fixed and not d):
                continue  # 1 xx 000 is delayed replication
            data, values = definition_message(a, b, d, a_fixed, b_fixed, d_fixed)
            what = 'fixed A/B/D {}/{}/{} with {}/{}/{} entries'.format(a_fixed, b_fixed, d_fixed, len(a), len(b), len(d))
            expected_b = [e for e in EXPECTED_B if e[0] in [x[0] for x in b]]
            expected_d = [e for e in EXPECTED_D if e[0] in [x[0] for x in d]]
            ref_b, ref_d = reference_entries(values, len(a) if a_fixed else None, len(b) if b_fixed else None,
                                             len(d) if d_fixed else None)
            check((ref_b, ref_d) == (expected_b, expected_d), what + ': reference reader agrees with the construction')
            for wire in (True, False):
                bufr_message = DECODER.process(data, wire_template_data=wire)
                check(bufr_message.template_data.value.decoded_values == values if wire else True, what + ': values')
                result, error = run(bufr_message)
                check(error is None, what + ': no error, got {!r}'.format(error))
                check_result(result, expected_b, expected_d, what)
                # again on the same (now wired) message, same processor object or another
                processor = BufrTableDefinitionProcessor()
                check(processor.process(bufr_message) == result and processor.process(bufr_message) == result,
                      what + ': repeatable')
    # duplicates: the later entry wins, at the place of the first
    data, values = definition_message([], [B_ENTRIES[0], B_ENTRIES[1], ('063250', 'AGAIN', '', 'M', 0, 0, 3)],
                                      [D_ENTRIES[0], ('363250', 'AGAIN', ['001001'])])
    result, error = run(DECODER.process(data))
    check_result(result, [('063250', ['AGAIN', 'M', 0, 0, 3, '', 0, 0]), EXPECTED_B[1]],
                 [('363250', ['AGAIN', ['001001']])], 'duplicates')
    # compressed, one subset
    data, values = definition_message(A_ENTRIES, B_ENTRIES, D_ENTRIES, compressed=True)
    bufr_message = DECODER.process(data)
    check(bufr_message.is_compressed.value, 'compressed')
    result, error = run(bufr_message)
    check(error is None, 'compressed: no error, got {!r}'.format(error))
    check_result(result, EXPECTED_B, EXPECTED_D, 'compressed')
    # edition 4
    data, values = definition_message(A_ENTRIES, B_ENTRIES, D_ENTRIES, a_fixed=True, edition=4)
    result, error = run(DECODER.process(data))
    check_result(result, EXPECTED_B, EXPECTED_D, 'edition 4')


# ----------------------------------------------------------------------------------------
# 2. The sample file
# ----------------------------------------------------------------------------------------
def test_prepbufr():
    with open(os.path.join('tests', 'data', 'prepbufr.bufr'), 'rb') as ins:
        prep = ins.read()
    first = prep[: int.from_bytes(prep[4:7], 'big')]
    bufr_message = DECODER.process(first)
    values = list(bufr_message.template_data.value.decoded_values)
    ref_b, ref_d = reference_entries(values)
    check(len(ref_b) == 35 and len(ref_d) == 9, 'prepbufr: 35 + 9 entries')
    result, error = run(bufr_message)
    check(error is None, 'prepbufr: no error')
    check_result(result, ref_b, ref_d, 'prepbufr')
    check(result[1]['063000'] == ['BYTCNT', 'BYTES', 0, 0, 16, '', 0, 0], 'prepbufr: first B entry')
    check(result[2]['360001'] == ['DRP16BIT', ['101000', '031002']], 'prepbufr: first D entry')
    # the second message of the file: no subset
    second = prep[prep.find(b'BUFR', 4):]
    bufr_message = DECODER.process(second)
    check(bufr_message.n_subsets.value == 0 and bufr_message.data_category.value == 11, 'prepbufr: second message')
    result, error = run(bufr_message)
    check_not_supported(error, 'Expect only one subset for defining BUFR tables, got 0', 'no subset')


# ----------------------------------------------------------------------------------------
# 3. Not the supported layout: which complaint comes first
# ----------------------------------------------------------------------------------------
A = [101001, 1]  # not [1, 2, 3]
GOOD_A = [103000, 31001, 1, 2, 3]
GOOD_B = [101000, 31001, 300004]
GOOD_D = [105000, 31001, 300003, 205064, 101000, 31001, 30]
NO_A, NO_B, NO_D = [0], [0], [0]  # values of empty delayed replications


def test_foreign_layouts():
    subsets_msg = 'Expect only one subset for defining BUFR tables, got {}'
    sections_msg = 'Expect 3 sections in template data for defining BUFR tables'
    replicated_msg = 'Expect table entries to be replicated'
    members_msg = 'Unexpected members of Table {} entries'
    b_row = b_values(B_ENTRIES[0])
    cases = [
        # (descriptors, subsets, expected complaint)
        (GOOD_A + GOOD_B + GOOD_D, [[0, 0, 0], [0, 0, 0]], subsets_msg.format(2)),
        (GOOD_A + GOOD_B + GOOD_D, [[0, 0, 0]] * 3, subsets_msg.format(3)),
        ([1001], [[1], [2]], subsets_msg.format(2)),
        ([1001, 1002], [[1, 2]], sections_msg),
        ([1001], [[1]], sections_msg),
        (GOOD_A + GOOD_B, [[0, 0]], sections_msg),
        (GOOD_A + GOOD_B + GOOD_D + [1001], [[0, 0, 0, 5]], sections_msg),
        ([1001] + GOOD_A + GOOD_B + GOOD_D, [[5, 0, 0, 0]], sections_msg),
        # three nodes, the first / second / third is not a replication
        ([1001, 1002, 1003], [[1, 2, 3]], replicated_msg),
        ([300003] + GOOD_B + GOOD_D, [[b'0', b'63', b'000', 0, 0]], replicated_msg),
        (GOOD_A + [1001] + GOOD_D, [[0, 7, 0]], replicated_msg),
        (GOOD_A + [300004] + GOOD_D, [[0] + b_row + [0]], replicated_msg),
        (GOOD_A + GOOD_B + [1001], [[0, 0, 7]], replicated_msg),
        ([103001, 1, 2, 3] + GOOD_B + [1001], [a_values(A_ENTRIES[0]) + [0, 7]], replicated_msg),
        # members
        ([101000, 31001, 1] + GOOD_B + GOOD_D, [[0, 0, 0]], members_msg.format('A')),
        ([102000, 31001, 1, 2] + GOOD_B + GOOD_D, [[0, 0, 0]], members_msg.format('A')),
        ([103000, 31001, 1, 2, 10] + GOOD_B + GOOD_D, [[0, 0, 0]], members_msg.format('A')),
        ([103001, 1, 3, 2] + GOOD_B + GOOD_D, [[pad('1', 3), pad('', 32), pad('', 32), 0, 0]], members_msg.format('A')),
        ([103000, 31001, 2, 1, 3] + [101000, 31001, 1001] + [1001], [[0, 0, 7]], members_msg.format('A')),
        (GOOD_A + [101000, 31001, 300003] + GOOD_D, [[0, 0, 0]], members_msg.format('B')),
        (GOOD_A + [101001, 300003] + GOOD_D, [[0, b'0', b'63', b'000', 0]], members_msg.format('B')),
        (GOOD_A + [111000, 31001, 10, 11, 12, 13, 14, 15, 16, 17, 18, 20, 19] + GOOD_D, [[0, 0, 0]], members_msg.format('B')),
        (GOOD_A + [101000, 31001, 1001] + [1001], [[0, 0, 7]], members_msg.format('B')),
        (GOOD_A + GOOD_B + [101000, 31001, 300003], [[0, 0, 0]], members_msg.format('D')),
        (GOOD_A + GOOD_B + [104000, 31001, 300003, 101000, 31001, 30], [[0, 0, 0]], members_msg.format('D')),
        (GOOD_A + GOOD_B + [105000, 31001, 300003, 205064, 101000, 31002, 30], [[0, 0, 0]], members_msg.format('D')),
        (GOOD_A + GOOD_B + [104000, 31001, 300003, 205064, 101002, 30], [[0, 0, 0]], members_msg.format('D')),
        ([103001, 1, 2, 3, 101001, 300004, 101001, 300004],
         [a_values(A_ENTRIES[0]) + b_row + b_row], members_msg.format('D')),
    ]
    for descriptors, subsets, complaint in cases:
        for compressed in (False, True):
            if compressed and any(d in (31001, 31002) for d in descriptors) and len(subsets) > 1:
                pass  # equal factors in all subsets: fine to compress
            data = build(11, descriptors, subsets, compressed=compressed)
            for wire in (True, False):
                result, error = run(DECODER.process(data, wire_template_data=wire))
                check_not_supported(error, complaint, '{} x {} compressed={}'.format(descriptors, len(subsets), compressed))
    # The processor does not look at the data category
    data, values = definition_message(A_ENTRIES, B_ENTRIES, D_ENTRIES, category=0)
    result, error = run(DECODER.process(data))
    check_result(result, EXPECTED_B, EXPECTED_D, 'another data category')


# ----------------------------------------------------------------------------------------
# 4. Values that cannot be converted: the layout fits, the text does not
# ----------------------------------------------------------------------------------------
def tampered(values, a_fixed=False, b_fixed=False, d_fixed=False):
    data, original = definition_message(A_ENTRIES, B_ENTRIES, D_ENTRIES, a_fixed, b_fixed, d_fixed)
    bufr_message = DECODER.process(data)
    check(bufr_message.template_data.value.decoded_values == original, 'tamper: original values')
    bufr_message.template_data.value.decoded_values = values(list(original))
    return bufr_message


def test_bad_values():
    # index of the first value of the first Table B entry, of the first Table D entry (all delayed)
    b0 = 1 + 3 * len(A_ENTRIES) + 1
    d0 = b0 + 11 * len(B_ENTRIES) + 1

    def setting(**changes):
        def change(values):
            for index, value in changes.items():
                values[int(index[1:])] = value
            return values
        return change

    def at(index, value):
        return setting(**{'i{}'.format(index): value})

    def several(*pairs):
        return setting(**{'i{}'.format(index): value for index, value in pairs})

    cases = [
        # B entry: F X Y, names, unit, sign, scale, sign, reference, width
        (at(b0 + 7, b'x  '), ValueError, 'scale is not a number'),
        (at(b0 + 7, b'   '), ValueError, 'scale is blank'),
        (at(b0 + 9, b'1.5       '), ValueError, 'reference value is not an integer'),
        (at(b0 + 10, b'1e1'), ValueError, 'bit width is not an integer'),
        (at(b0 + 6, None), AttributeError, 'sign is missing'),
        (at(b0 + 7, None), AttributeError, 'scale is missing'),
        (at(b0 + 8, 1), AttributeError, 'sign is a number'),
        (at(b0 + 10, 12), AttributeError, 'bit width is a number'),
        (at(b0 + 3, None), AttributeError, 'name is missing'),
        (at(b0 + 4, None), AttributeError, 'second half of the name is missing'),
        (at(b0 + 5, 3.5), AttributeError, 'unit is a number'),
        (at(b0, None), TypeError, 'F is missing'),
        (at(b0 + 2, None), TypeError, 'Y is missing'),
        (at(b0 + 1, 63), TypeError, 'X is a number'),
        (at(b0 + 5, b'\xff' * 24), UnicodeDecodeError, 'unit is not text'),
        (at(b0 + 11 + 7, b'?  '), ValueError, 'second B entry'),
        # D entry: F X Y, name, count, members
        (at(d0 + 3, None), AttributeError, 'sequence name is missing'),
        (at(d0 + 4, None), TypeError, 'member count is missing'),
        (at(d0 + 4, b'2'), TypeError, 'member count is text'),
        (at(d0, 3), TypeError, 'F of a sequence is a number'),
        (at(d0 + 4, 400), IndexError, 'member count beyond the values'),
        (at(d0 + 5, b'\xc3\x28    '), UnicodeDecodeError, 'member is not text'),
        # replication factors
        (at(0, None), TypeError, 'Table A factor missing'),
        (at(0, b'2'), TypeError, 'Table A factor text'),
        (at(0, 1000), IndexError, 'Table A factor beyond the values'),
        (at(b0 - 1, None), TypeError, 'Table B factor missing'),
        (at(b0 - 1, 40), TypeError, 'Table B factor too large: the fourth entry starts with the Table D factor'),
        (at(d0 - 1, None), TypeError, 'Table D factor missing'),
        (at(d0 - 1, 4), IndexError, 'Table D factor beyond the values'),
        (lambda values: values[:-1], IndexError, 'last value cut off'),
        (lambda values: values[:d0 - 1], IndexError, 'Table D values cut off'),
        (lambda values: values[:b0 + 2], IndexError, 'Table B values cut off'),
        (lambda values: [], IndexError, 'no values at all'),
        # which of two faults is met first: values are read and converted one by one, left to right
        (several((b0 + 6, None), (b0 + 7, b'\xff\xff\xff')), AttributeError, 'sign missing before scale not text'),
        (several((b0 + 6, b'\xff'), (b0 + 7, None)), UnicodeDecodeError, 'sign not text before scale missing'),
        (several((b0, None), (b0 + 2, b'\xff\xff\xff')), TypeError, 'F + X fails before Y is read'),
        (several((b0 + 1, None), (b0 + 2, b'\xff\xff\xff')), TypeError, 'F + X fails before Y is read (2)'),
        (several((b0, b'\xff'), (b0 + 1, None)), UnicodeDecodeError, 'F not text before X missing'),
        (several((b0 + 3, None), (b0 + 4, b'\xff' * 32)), AttributeError, 'name stripped before the second half is read'),
        (several((b0 + 7, b'x  '), (b0 + 8, None)), ValueError, 'scale converted before the next sign is read'),
        (several((b0 + 9, b'x' * 10), (b0 + 10, None)), ValueError, 'reference converted before the width is read'),
        (several((b0 + 10, b'x  '), (d0, None)), ValueError, 'Table B before Table D'),
        (several((d0 + 3, None), (d0 + 4, None)), AttributeError, 'sequence name stripped before the count is read'),
        (several((d0, None), (d0 + 3, None)), TypeError, 'sequence key before its name'),
        (lambda values: at(d0 + 3, None)(values)[:-1], AttributeError, 'conversion fault before the missing value'),
        (lambda values: at(b0 + 7, b'x  ')(values)[:d0], ValueError, 'Table B fault before the cut'),
    ]
    for change, expected_type, what in cases:
        result, error = run(tampered(change))
        check(type(error) is expected_type, 'bad value, {}: {} expected, got {!r}'.format(what, expected_type.__name__, error))
    # Harmless changes: the independent reader gives the expectation
    harmless = [
        at(b0 + 6, b' '), at(b0 + 6, b'-'), at(b0 + 8, b'?'), at(b0 + 7, b' 7 '), at(b0 + 9, b'  0012    '),
        at(b0 + 5, b'  LEADING AND TRAILING   '), at(b0 + 3, b'  LEADING ONLY' + b' ' * 18),
        at(b0 + 3, 'text already'), at(d0 + 5, 'member as text'), at(d0 + 3, b'   NAME' + b' ' * 57),
        several((b0, 1), (b0 + 1, 2), (b0 + 2, 3)), several((d0, 1.5), (d0 + 1, 2), (d0 + 2, True)),
        lambda values: values + [b'trailing', None],
    ]
    for number, change in enumerate(harmless):
        bufr_message = tampered(change)
        values = bufr_message.template_data.value.decoded_values
        result, error = run(bufr_message)
        check(error is None, 'harmless change {}: no error, got {!r}'.format(number, error))
        if change is harmless[-1]:
            values = values[:-2]  # the reference reader insists on having read everything
        ref_b, ref_d = reference_entries(values)
        check(list(result[1].items()) == ref_b and list(result[2].items()) == ref_d and result[0] == [],
              'harmless change {}: entries'.format(number))
    # a factor that is a float gives a float index
    result, error = run(tampered(at(0, 2.0)))
    check(type(error) is TypeError, 'float factor {!r}'.format(error))
    # the same faults with fixed replications (no factor values in the list)
    b0f, d0f = 3 * len(A_ENTRIES), 3 * len(A_ENTRIES) + 11 * len(B_ENTRIES)
    for change, expected_type, what in (
            (at(b0f + 7, b'x  '), ValueError, 'scale'), (at(b0f + 6, None), AttributeError, 'sign'),
            (at(d0f + 4, None), TypeError, 'count'), (at(d0f + 3, 5), AttributeError, 'sequence name'),
            (lambda values: values[:-1], IndexError, 'cut'), (at(0, None), None, 'Table A values are not looked at')):
        result, error = run(tampered(change, True, True, True))
        if expected_type is None:
            check(error is None, 'fixed: ' + what)
            check_result(result, EXPECTED_B, EXPECTED_D, 'fixed: ' + what)
        else:
            check(type(error) is expected_type, 'fixed, {}: got {!r}'.format(what, error))


# ----------------------------------------------------------------------------------------
# 5. Duck-typed messages: what is asked of the message and in which order
# ----------------------------------------------------------------------------------------
class Recorder(object):
    def __init__(self, log, name, **attributes):
        self.__dict__['_log'], self.__dict__['_name'], self.__dict__['_attributes'] = log, name, attributes

    def __getattr__(self, item):
        self._log.append('{}.{}'.format(self._name, item))
        try:
            return self._attributes[item]
        except KeyError:
            raise AttributeError(item)


def test_access_order():
    data, values = definition_message(A_ENTRIES, B_ENTRIES, D_ENTRIES)
    real = DECODER.process(data)
    nodes = real.template_data.value.decoded_nodes

    def message(log, n_subsets=1, **template_data):
        return Recorder(log, 'message', n_subsets=Recorder(log, 'n_subsets', value=n_subsets),
                        wire=lambda: log.append('wire()'),
                        template_data=Recorder(log, 'template_data', value=Recorder(log, 'td', **template_data)))

    log = []
    result, error = run(message(log, decoded_nodes=nodes, decoded_values=values))
    check(error is None, 'duck: no error, got {!r}'.format(error))
    check_result(result, EXPECTED_B, EXPECTED_D, 'duck')
    check(log.index('wire()') < log.index('message.template_data') and log[0] == 'message.n_subsets'
          and log.index('td.decoded_nodes') < log.index('td.decoded_values'), 'duck: order {}'.format(log))
    # not one subset: nothing else is asked
    log = []
    result, error = run(message(log, n_subsets=2, decoded_nodes=nodes, decoded_values=values))
    check_not_supported(error, 'Expect only one subset for defining BUFR tables, got 2', 'duck: two subsets')
    check(set(log) == {'message.n_subsets', 'n_subsets.value'}, 'duck: only the number of subsets asked {}'.format(log))
    # not three nodes: the values are not asked for
    log = []
    result, error = run(message(log, decoded_nodes=nodes[:2]))
    check_not_supported(error, 'Expect 3 sections in template data for defining BUFR tables', 'duck: two nodes')
    check('td.decoded_values' not in log and 'wire()' in log, 'duck: values not asked for')
    # three nodes but no values: AttributeError before any node is looked at
    log = []
    result, error = run(message(log, decoded_nodes=[None, None, None]))
    check(type(error) is AttributeError and str(error) == 'decoded_values', 'duck: no values {!r}'.format(error))
    # three nodes of the wrong kind with values: complaint about the first
    result, error = run(message([], decoded_nodes=[None, nodes[1], nodes[2]], decoded_values=values))
    check_not_supported(error, 'Expect table entries to be replicated', 'duck: first node')
    # the nodes in another order: members
    result, error = run(message([], decoded_nodes=[nodes[1], nodes[0], nodes[2]], decoded_values=values))
    check_not_supported(error, 'Unexpected members of Table A entries', 'duck: nodes swapped')
    result, error = run(message([], decoded_nodes=[nodes[0], nodes[2], nodes[1]], decoded_values=values))
    check_not_supported(error, 'Unexpected members of Table B entries', 'duck: nodes swapped (2)')
    result, error = run(message([], decoded_nodes=[nodes[0], nodes[1], nodes[1]], decoded_values=values))
    check_not_supported(error, 'Unexpected members of Table D entries', 'duck: nodes swapped (3)')
    # wiring fails
    def failing_wire():
        raise PyBufrKitError('cannot wire')
    broken = message([], decoded_nodes=nodes, decoded_values=values)
    broken._attributes['wire'] = failing_wire
    result, error = run(broken)
    check(type(error) is PyBufrKitError and error.message == 'cannot wire', 'duck: wiring fails')
    # values as a tuple
    result, error = run(message([], decoded_nodes=tuple(nodes), decoded_values=tuple(values)))
    check(error is None, 'duck: tuples')
    check_result(result, EXPECTED_B, EXPECTED_D, 'duck: tuples')


# ----------------------------------------------------------------------------------------
# 6. In a stream: the definitions govern the messages that follow
# ----------------------------------------------------------------------------------------
def scan(stream, **kwargs):
    messages, error = [], None
    with contextlib.redirect_stderr(io.StringIO()):
        try:
            for m in generate_bufr_message(Decoder(), stream, **kwargs):
                messages.append(m)
        except Exception as e:
            error = e
    return messages, error


def test_in_stream():
    cache = TableGroupCacheManager._TABLE_GROUP_CACHE
    subsets = [[28.4, 5, 1, 29.1, 6, 7500], [30.0, 7, 99, 10.0, 1, 5000]]
    for a_fixed, b_fixed, d_fixed in itertools.product((False, True), repeat=3):
        reset_tables()
        definition, _ = definition_message(A_ENTRIES, B_ENTRIES, D_ENTRIES, a_fixed, b_fixed, d_fixed)
        got, error = scan(definition)
        check(error is None and [m.serialized_bytes for m in got] == [definition], 'stream: definition message')
        check(list(cache.extra_b_entries.items()) == EXPECTED_B and list(cache.extra_d_entries.items()) == EXPECTED_D,
              'stream: registered')
        # now the encoder knows the descriptors as well
        data_message = build(250, [363250, 363251], subsets)
        reset_tables()
        got, error = scan(data_message)
        check(got == [] and isinstance(error, PyBufrKitError), 'stream: data message alone cannot be decoded')
        for expr in (None, '${%data_category} == 250'):
            reset_tables()
            got, error = scan(b'\r\r\n001' + definition + b'BUF' + data_message + data_message, filter_expr=expr)
            expected = [definition, data_message, data_message][(0 if expr is None else 1):]
            check(error is None and [m.serialized_bytes for m in got] == expected, 'stream: pieces {!r}'.format(error))
            check(got[-1].template_data.value.decoded_values_all_subsets == subsets, 'stream: decoded with the definitions')
        # metadata only: splitting needs no definitions
        reset_tables()
        got, error = scan(definition + data_message, info_only=True)
        check(error is None and [m.serialized_bytes for m in got] == [definition, data_message], 'stream: info only')
        check(not cache.has_extra_entries(), 'stream: info only registers nothing')
    # a definition message with unusable text: the ValueError is not swallowed
    reset_tables()
    bad_entry = ('063253', 'BAD', '', 'M', 0, 0, 8)
    definition, values = definition_message([], [bad_entry], [])
    position = definition.find(b'+0         8  ') + 11
    check(position > 11, 'stream: found the width field')
    definition = definition[:position] + b'x' + definition[position + 1:]
    got, error = scan(definition + definition, continue_on_error=True)
    check(got == [] and type(error) is ValueError, 'stream: ValueError passes {!r}'.format(error))
    # another layout under category 11: an ordinary message
    other = build(11, [1001, 1002, 1003], [[1, 2, 3]])
    got, error = scan(other + other)
    check(error is None and [m.serialized_bytes for m in got] == [other, other] and not cache.has_extra_entries(),
          'stream: other layout')
    reset_tables()


if __name__ == '__main__':
    test_well_formed()
    test_prepbufr()
    test_foreign_layouts()
    test_bad_values()
    test_access_order()
    test_in_stream()
    print('OK: {} checks'.format(N_CHECKS[0]))
