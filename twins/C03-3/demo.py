"""
Demo for refactor 3 (renderer.py: FlatJsonRenderer._render_bufr_message / _render_query_result
as comprehensions over a per-parameter helper; utils.py: EntityEncoder.default with the guard first).

Run as:  cd /tmp/tw_C03 && /venv/bin/python _out/3/demo.py
"""
import os, sys; sys.path.insert(0, os.getcwd())

import json
from collections import OrderedDict

import pybufrkit
assert os.path.dirname(os.path.abspath(pybufrkit.__file__)) == os.path.join(os.getcwd(), 'pybufrkit')

from pybufrkit.errors import PyBufrKitError
from pybufrkit.encoder import Encoder
from pybufrkit.decoder import Decoder
from pybufrkit.descriptors import Descriptor
from pybufrkit.renderer import FlatJsonRenderer, Renderer
from pybufrkit.dataquery import NodePathParser, DataQuerent
from pybufrkit.utils import JSON_DUMPS_KWARGS, EntityEncoder

ENC, DEC, REN = Encoder(), Decoder(), FlatJsonRenderer()
QUERENT = DataQuerent(NodePathParser())


def expect(error, func, *args, **kwargs):
    try:
        func(*args, **kwargs)
    except error as e:
        return e
    raise AssertionError('%r%r did not raise %s' % (func, args, error))


def dumps(obj):
    return json.dumps(obj, **JSON_DUMPS_KWARGS)


# ------------------------------------------------------------- EntityEncoder
assert JSON_DUMPS_KWARGS == {'cls': EntityEncoder}
assert issubclass(EntityEncoder, json.JSONEncoder)
assert dumps(b'BUFR') == '"BUFR"'
assert dumps(b'') == '""'
assert dumps([b'7777', 1, None, 1.5, 'x', True]) == '["7777", 1, null, 1.5, "x", true]'
# every byte value maps to the code point of the same number
every = bytes(bytearray(range(256)))
assert json.loads(dumps(every)) == every.decode('latin-1')
assert json.loads(dumps([b'\xff' * 20]))[0] == u'\xff' * 20
assert json.loads(dumps({'k': [b'ab ', [b'c']]})) == {'k': ['ab ', ['c']]}
assert EntityEncoder().default(b'ab') == 'ab' and type(EntityEncoder().default(b'ab')) is str
# what JSON cannot carry is refused with the error of the base class
for bad in ({1, 2}, object(), bytearray(b'ab'), memoryview(b'ab'), 1j, Descriptor(1001)):
    e = expect(TypeError, dumps, [bad])
    assert 'is not JSON serializable' in str(e)
    e = expect(TypeError, EntityEncoder().default, bad)
    assert 'is not JSON serializable' in str(e)
# things the encoder handles itself never reach default()
assert dumps(float('inf')) == 'Infinity'
assert dumps(OrderedDict([(0, [1]), (3, [b'x'])])) == '{"0": [1], "3": ["x"]}'

# --------------------------------------------------------- messages of the encoder
DESCRIPTORS = [12001, 5001, 1001, 1015, 20011, 2002]


def make(subsets, compressed=False):
    return [['BUFR', 0, 4],
            [22, 0, 0, 98, 0, False, '0000000', 0, 0, 0, 25, 0, 2020, 1, 2, 3, 4, 5],
            [0, '00000000', len(subsets), True, compressed, '000000', list(DESCRIPTORS)],
            [0, '00000000', [list(s) for s in subsets]],
            ['7777']]


def check_rendering(message, flat):
    """The flat JSON is the values of the parameters, section by section, unchanged."""
    assert type(flat) is list and len(flat) == len(message.sections)
    for section, section_data in zip(message.sections, flat):
        assert type(section_data) is list and len(section_data) == len(section)
        for parameter, value in zip(section, section_data):
            if parameter.name == 'template_data':
                # the very lists of the template data, not a copy
                assert value is parameter.value.decoded_values_all_subsets
                assert value is REN.render(parameter.value)
            else:
                assert value is parameter.value
    # each call builds new outer lists
    again = REN.render(message)
    assert again == flat and again is not flat and again[0] is not flat[0]


for compressed in (False, True):
    subsets = [[273.14, -12.345678, 5, 'ABC', 3, 1],
               [0, -90, 0, '', 0, 0],
               [409.4, 245.54430, 126, 'x' * 25, 14, 14],
               [None, None, None, None, None, None],
               # the all-ones pattern of a code or flag table is the missing value (given as such only in
               # uncompressed data, as in compressed data the width of the increments depends on it)
               [100.06, 0.000004, 7, None, None if compressed else 15, None if compressed else 15]]
    message = ENC.process(make(subsets, compressed))
    b = message.serialized_bytes
    flat_enc = REN.render(message)
    check_rendering(message, flat_enc)
    decoded = DEC.process(b)
    flat = REN.render(decoded)
    check_rendering(decoded, flat)
    assert flat[0] == [b'BUFR', len(b), 4] and flat[-1] == [b'7777']
    assert flat[2][2:] == [5, True, compressed, '000000', DESCRIPTORS]
    assert flat[3][2] == [[273.1, -12.34568, 5, b'ABC' + b' ' * 17, 3, 1],
                          [0.0, -90.0, 0, b' ' * 20, 0, 0],
                          [409.4, 245.5443, 126, b'x' * 20, 14, 14],
                          [None, None, None, b'\xff' * 20, None, None],
                          [100.1, 0.0, 7, b'\xff' * 20, None, None]]
    # the rendering of what the encoder produced encodes to the identical bytes, as object or as text
    text = dumps(flat)
    assert json.loads(text)[3][2][0][3] == 'ABC' + ' ' * 17
    assert ENC.process(text).serialized_bytes == b
    assert ENC.process(text.encode('latin-1')).serialized_bytes == b
    assert ENC.process(flat).serialized_bytes == b
    assert ENC.process(json.loads(text)).serialized_bytes == b
    assert REN.render(DEC.process(ENC.process(text).serialized_bytes)) == flat
    # rendering does not touch the message
    assert decoded.serialized_bytes == b and REN.render(decoded) == flat

    # out of range input is refused before anything is rendered
    for idx, x in ((0, 409.6), (0, -0.1), (1, -90.00001), (2, 128), (4, 16), (5, -1)):
        subset = list(subsets[0])
        subset[idx] = x
        expect(ValueError, ENC.process, make([subset] if compressed else [subsets[1], subset], compressed))

    # query results: one entry per selected subset, in order, keyed by the subset index
    for path, want in (('/012001', OrderedDict((i, [flat[3][2][i][0]]) for i in range(5))),
                       ('@[1:4]/001015', OrderedDict((i, [flat[3][2][i][3]]) for i in (1, 2, 3))),
                       ('@[::2]/005001', OrderedDict((i, [flat[3][2][i][1]]) for i in (0, 2, 4))),
                       ('@[-1]/020011', OrderedDict([(4, [None])])),
                       ('@[3]/001001', OrderedDict([(3, [None])])),
                       ('/031001', OrderedDict((i, []) for i in range(5)))):
        result = QUERENT.query(decoded, path)
        rendered = REN.render(result)
        assert type(rendered) is OrderedDict
        assert rendered == want and list(rendered.items()) == list(want.items()), (path, rendered)
        assert list(rendered) == result.subset_indices()
        assert json.loads(dumps(rendered)) == json.loads(dumps(dict((str(k), v) for k, v in want.items())))
        assert REN.render(result) is not rendered

    # metadata only: the data section stops short of the template data
    info = DEC.process(b, info_only=True)
    flat_info = REN.render(info)
    check_rendering(info, flat_info)
    assert flat_info[:3] == flat[:3] and flat_info[3] == flat[3][:2] and len(flat_info) == 4

# ----------------------------------------------------------------- error cases
for bad in (None, 1, 'BUFR', b'BUFR', [], {}, object()):
    e = expect(PyBufrKitError, REN.render, bad)
    assert e.message == 'Unknown object {} for rendering'.format(type(bad))
expect(NotImplementedError, REN.render, Descriptor(1001))
expect(NotImplementedError, REN._render_descriptor, Descriptor(1001))
assert isinstance(REN, Renderer)

# ---------------------------------------------------------------------- corpus
for name in ('207003', 'ISMD01_OKPR', 'IUSK73_AMMC_182300', 'amv2_87', 'b002_95', 'b005_89',
             'contrived', 'g2nd_208', 'jaso_214', 'mpco_217', 'profiler_european'):
    with open(os.path.join('tests', 'data', name + '.bufr'), 'rb') as ins:
        b0 = ins.read()
    m0 = DEC.process(b0)
    flat0 = REN.render(m0)
    check_rendering(m0, flat0)
    b1 = ENC.process(dumps(flat0)).serialized_bytes
    flat1 = REN.render(DEC.process(b1))
    b2 = ENC.process(dumps(flat1)).serialized_bytes
    assert b1 == b2, name
    assert flat1[-2][-1] == flat0[-2][-1], name
    # the JSON text carries the values unchanged (bytes as text)
    assert json.loads(dumps(flat1), object_hook=None) == json.loads(dumps(json.loads(dumps(flat1)))), name
    assert ENC.process(json.loads(dumps(flat1))).serialized_bytes == b1, name

m = DEC.process(open(os.path.join('tests', 'data', 'jaso_214.bufr'), 'rb').read())
assert REN.render(QUERENT.query(m, '@[::10]/301011/004001')) == OrderedDict((i, [2012]) for i in range(0, 128, 10))
assert REN.render(QUERENT.query(m, '@[1]/123002/021062')) == OrderedDict([(1, [11.28, 0.02, 14.78, 0.03])])

print('OK')
